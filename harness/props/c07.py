"""C07 — external-data save/load: layout, sharding, read-back, restore.

Decided by: Coq theorems (coq/theories/C07/Property.v) over Gen/C07Gen.v (regenerated from
external_data.py by tools/translate.py on every run) + the hand model C07/Model.v, tied to the code by
a correspondence check: the real onnx_ir.save / _shard_tensors / _align_offset are run on generated
configurations and their observations are embedded in case files that Coq evaluates against the model.
On any broken obligation or mismatch the property oracle (save -> load -> compare, range checks) searches
for a concrete failing configuration.

Gen/C07LoopsGen.v (generate_loops, tools/translate_loops.py) is the statement-by-statement translation of the source
loops (_compute_external_data_info, the offset loop of convert_tensors_to_external, both _shard_tensors, the
externalisation test of unload_from_model); C07/GenEquiv.v proves them equal to the model functions for every input,
so the C07 theorems are about the loops as they are in the source on this run.
"""

from __future__ import annotations

import json
import os
import shutil

import numpy as np

import translate as T
from harness import common
from harness.common import REPO, cZ, clist, copt, cpair

SRC = os.path.join(REPO, "src", "onnx_ir", "external_data.py")


# --------------------------------------------------------------------------- translation

def generate(ck) -> bool:
    try:
        text = T.HEADER
        text += T.translate_function(SRC, "_align_offset") + "\n"
        text += T.translate_function(SRC, "_validate_write_options") + "\n"
        text += T.translate_int_constant(SRC, "_DEFAULT_ALIGN_THRESHOLD")[0] + "\n"
        text += T.translate_int_constant(SRC, "_DEFAULT_MAX_IN_FLIGHT_BYTES")[0] + "\n"
    except (T.Unsupported, SyntaxError, OSError) as e:
        ck.gen_failed("C07Gen", e)
        return False
    ck.gen("C07Gen", text)
    return generate_loops(ck)


ST_SRC = os.path.join(REPO, "src", "onnx_ir", "_safetensors", "__init__.py")


def generate_loops(ck) -> bool:
    """Gen/C07LoopsGen.v: the accumulator loops of the layout code, translated statement by statement
    (tools/translate_loops.py): _compute_external_data_info, the offset loop of convert_tensors_to_external,
    external_data._shard_tensors, _safetensors._shard_tensors, and the threshold comparison of unload_from_model.
    C07/GenEquiv.v proves each equal to the hand model the theorems are about."""
    import ast

    import translate_loops as L
    try:
        mod = ast.parse(open(SRC).read())
        stmod = ast.parse(open(ST_SRC).read())
        known = {"_align_offset": ("align_offset", ["Z", "Z", "option Z", "Z"], "Z")}
        out = [T.HEADER.replace("Base.Exn.", "Base.Exn Base.PyList Gen.C07Gen."),
               "Definition info : Type := (Z * Z)%type.   (* _ExternalDataInfo without its name: (offset, length) *)\n",
               "Section Loops.\n  Context {A : Type} (nbytes : A -> Z).\n"]
        # _compute_external_data_info(tensor, current_offset, alignment, align_threshold)
        ci = T.find_function(mod, "_compute_external_data_info")
        if [a.arg for a in ci.args.args] != ["tensor", "current_offset", "alignment", "align_threshold"]:
            raise T.Unsupported("_compute_external_data_info: parameter list changed")
        out.append(L.translate_straight(ci, "gen_compute_info", [("current_offset", "Z"), ("alignment", "option Z"),
                                                                 ("align_threshold", "Z")], known))
        # _ExternalDataInfo(name, offset, length): field order
        cls = [n for n in mod.body if isinstance(n, ast.ClassDef) and n.name == "_ExternalDataInfo"]
        fields = [x.target.id for x in cls[0].body if isinstance(x, ast.AnnAssign) and isinstance(x.target, ast.Name)] \
            if cls else []
        if fields != ["name", "offset", "length"] or [ast.unparse(d) for d in cls[0].decorator_list] != ["dataclasses.dataclass"] \
                or any(isinstance(x, ast.FunctionDef) for x in cls[0].body):
            raise T.Unsupported("_ExternalDataInfo is no longer the dataclass (name, offset, length)")
        # the offset loop of convert_tensors_to_external
        cv = T.find_function(mod, "convert_tensors_to_external")
        body = [s for s in cv.body if not (isinstance(s, ast.Expr) and isinstance(s.value, ast.Constant))]
        li = [i for i, s in enumerate(body) if isinstance(s, ast.For)]
        if len(li) != 1:
            raise T.Unsupported("convert_tensors_to_external: expected one for loop")
        i = li[0]
        region = ast.FunctionDef(name="convert_tensors_to_external", args=cv.args, body=body[i - 2:i + 1],
                                 decorator_list=[], returns=None)
        known2 = dict(known, _compute_external_data_info=("gen_compute_info", ["item", "Z", "option Z", "Z"], "info"))
        out.append(L.translate_fold(region, "gen_layout", [("alignment", "option Z"), ("align_threshold", "Z")], known2,
                                    result="external_data_infos",
                                    comment="convert_tensors_to_external (offset loop)"))
        # glue around the loop: options validated first; the infos computed by the loop are what is written and recorded
        glue = [ast.unparse(s) for s in body[:i - 2] + body[i + 1:]]
        want_glue = [
            "_validate_write_options(max_workers, max_in_flight_bytes, alignment, align_threshold)",
            "path = os.path.join(base_dir, relative_path)",
            "_write_external_data(tensors, external_data_infos, path, callback=callback, max_workers=max_workers, "
            "max_in_flight_bytes=max_in_flight_bytes, budget=_budget, tensor_write_locks=_tensor_write_locks)",
            "return [_create_external_tensor(tensor, external_info, base_dir, relative_path) for tensor, external_info "
            "in zip(tensors, external_data_infos, strict=True)]",
        ]
        if glue != want_glue:
            raise T.Unsupported("convert_tensors_to_external: statements around the offset loop changed: " + repr(glue)[:400])
        # external_data._shard_tensors
        sh = T.find_function(mod, "_shard_tensors")
        if [a.arg for a in sh.args.args] != ["tensors", "max_shard_size_bytes", "alignment", "align_threshold"]:
            raise T.Unsupported("_shard_tensors: parameter list changed")
        out.append(L.translate_fold(sh, "gen_shard_tensors", [("max_shard_size_bytes", "Z"), ("alignment", "option Z"),
                                                              ("align_threshold", "Z")], known,
                                    comment="external_data._shard_tensors"))
        # _safetensors._shard_tensors: `if max_shard_size_bytes is None: return [list(tensors)]` then the loop
        st = T.find_function(stmod, "_shard_tensors")
        sbody = [s for s in st.body if not (isinstance(s, ast.Expr) and isinstance(s.value, ast.Constant))]
        if [a.arg for a in st.args.args] != ["tensors", "max_shard_size_bytes"] or not sbody or \
                ast.unparse(sbody[0]) != "if max_shard_size_bytes is None:\n    return [list(tensors)]":
            raise T.Unsupported("_safetensors._shard_tensors: header changed")
        rest = ast.FunctionDef(name="_shard_tensors", args=st.args, body=sbody[1:], decorator_list=[], returns=None)
        out.append(L.translate_fold(rest, "gen_st_shard_some", [("max_shard_size_bytes", "Z")], {},
                                    comment="_safetensors._shard_tensors (after the None case)"))
        out.append("Definition gen_st_shard (tensors : list A) (max_shard_size_bytes : option Z) : list (list A) :=\n"
                   "    match max_shard_size_bytes with None => [tensors] | Some m => gen_st_shard_some tensors m end.\n")
        out.append("End Loops.\n")
        # unload_from_model: which initializers become external
        un = T.find_function(mod, "unload_from_model")
        conds = [ast.unparse(n.test) for n in ast.walk(un) if isinstance(n, ast.If)
                 and "initializers_to_become_external.append(value)" in [ast.unparse(x) for x in n.body]]
        if conds != ["value.const_value.nbytes > size_threshold_bytes"]:
            raise T.Unsupported("unload_from_model: externalisation condition changed: " + repr(conds))
        out.append("(* translated from unload_from_model: `value.const_value.nbytes > size_threshold_bytes` *)\n"
                   "Definition gen_becomes_external (nbytes size_threshold_bytes : Z) : bool := "
                   "(size_threshold_bytes <? nbytes)%Z.\n")
    except (T.Unsupported, SyntaxError, OSError, IndexError, AttributeError) as e:
        ck.gen_failed("C07LoopsGen", e)
        return False
    ck.gen("C07LoopsGen", "\n".join(out))
    return True


# --------------------------------------------------------------------------- implementation side

KINDS = ["mem", "lazy", "packed4", "proto", "external", "dup", "mem16", "uint2", "misnamed"]


def _mk_tensor(ir, kind: str, nelem: int, name: str, rng, workdir: str, dup_pool: list, uid: str = ""):
    """Return (tensor, expected_bytes, dtype, shape)."""
    import onnx
    from onnx_ir import serde
    if kind == "dup" and dup_pool:
        t = dup_pool[rng.randrange(len(dup_pool))]
        return t, t.tobytes(), t.dtype, tuple(t.shape)
    if kind in ("mem", "dup"):
        arr = np.array([rng.randrange(256) for _ in range(nelem)], dtype=np.uint8)
        t = ir.Tensor(arr, name=name)
        dup_pool.append(t)
    elif kind == "misnamed":
        # the tensor's own name is that of ANOTHER initializer (or none): values are what save must go by
        arr = np.array([rng.randrange(256) for _ in range(nelem)], dtype=np.uint8)
        idx = int(uid[1:]) if uid else 0
        t = ir.Tensor(arr, name=rng.choice([f"w{idx + 1}", f"w{max(idx - 1, 0)}", None, "zzz"]))
    elif kind == "mem16":
        arr = np.array([rng.randrange(65536) for _ in range(nelem)], dtype=np.uint16).view(np.float16)
        t = ir.Tensor(arr, name=name)
    elif kind == "lazy":
        arr = np.array([rng.randrange(-2**31, 2**31) for _ in range(nelem)], dtype=np.int32)
        t = ir.LazyTensor(lambda a=arr, n=name: ir.Tensor(a, name=n), dtype=ir.DataType.INT32,
                          shape=ir.Shape([nelem]), name=name)
    elif kind == "packed4":
        vals = np.array([rng.randrange(16) for _ in range(nelem)], dtype=np.uint8)
        packed = np.zeros((nelem + 1) // 2, dtype=np.uint8)
        for i, v in enumerate(vals):
            packed[i // 2] |= int(v) << (4 * (i % 2))
        t = ir.PackedTensor(packed, dtype=ir.DataType.UINT4, shape=ir.Shape([nelem]), name=name)
    elif kind == "uint2":
        import ml_dtypes
        vals = np.array([rng.randrange(4) for _ in range(nelem)], dtype=np.uint8).astype(ml_dtypes.uint2)
        t = ir.Tensor(vals, name=name)
    elif kind == "proto":
        arr = np.array([rng.randrange(-2**15, 2**15) for _ in range(nelem)], dtype=np.int16)
        tp = onnx.numpy_helper.from_array(arr, name)
        t = serde.deserialize_tensor(tp)
    elif kind == "external":
        arr = np.array([rng.randrange(256) for _ in range(nelem)], dtype=np.uint8)
        pre = rng.randrange(0, 9)
        fn = f"pre_{uid or name}.bin"
        # pre-existing external data lives beside the model that will be saved (re-save of a loaded model)
        outdir = os.path.join(workdir, "out")
        os.makedirs(outdir, exist_ok=True)
        with open(os.path.join(outdir, fn), "wb") as f:
            f.write(b"\xee" * pre + arr.tobytes() + b"\xdd" * 3)
        t = ir.ExternalTensor(fn, pre, arr.nbytes, ir.DataType.UINT8, shape=ir.Shape([nelem]),
                              name=name, base_dir=outdir)
    else:
        raise AssertionError(kind)
    return t, t.tobytes(), t.dtype, tuple(t.shape)


def gen_config(rng, small: bool = False, focus: str | None = None) -> dict:
    n = rng.randrange(0, 7 if not small else 4)
    inits = []
    for i in range(n):
        kind = rng.choice(KINDS)
        nelem = rng.choice([0, 1, 2, 3, 5, 8, 13, 64, 300, 4097, 9000] if not small else [0, 1, 3, 8])
        g = rng.choice([0, 0, 0, 1, 2, 3, 0, 1, 2, 3, 5, 6])
        name = f"w{i}"
        # sibling subgraphs (and a subgraph vs the main graph) may legally reuse an initializer name
        others = [s for s in inits if s["g"] != g and all(t["name"] != s["name"] for t in inits if t["g"] == g)]
        if others and rng.random() < 0.2:
            name = rng.choice(others)["name"]
        inits.append({"kind": kind, "nelem": nelem, "g": g, "name": name})
    cfg = {
        "inits": inits,
        "threshold": rng.choice([0, 0, 1, 4, 16, 256, 5000]),
        "max_shard": rng.choice([None, None, 1, 7, 64, 1000, 8192, 20000]),
        "alignment": rng.choice([None, None, 1, 512, 4096, 8192, 65536, 4097, 10000, 12288, 20480]),
        "align_threshold": rng.choice([0, 1, 16, 300, 1048576]),
        "max_workers": rng.choice([None, 1, 2, 4]),
        "backend": "safetensors" if rng.random() < 0.25 else "raw",
        # valid relative names, including unusual ones (consecutive dots, leading dot, spaces, non-ASCII, nested dir):
        # every one of them must be written and read back like "m.data" (seeded change C07-r4m3)
        "naming": rng.choice(["m.data", "w.v1.data", "sub/m.data", "noext", "a.b.c.bin", "m.data", "w..v2.data",
                              "..hidden.data", "m data.bin", "sub/deep/w...x", "poids_é.data", "a..b/m.data",
                              "layer\\w.data", "sub/a\\b.bin"]),   # a backslash is an ordinary character on POSIX
        "fail_at": None,
        "resave": None,
        "tseed": rng.randrange(1 << 30),
        # model file name: the safetensors backend derives its data file names from it
        "mname": rng.choice(["model.onnx", "model.onnx", "m.v1.5.onnx", "m..fp16.onnx", "my model.onnx", "..m.onnx", "export\\m.onnx"]),
    }
    if focus == "aligned-shards":
        # several tensors per shard, several shards, alignment with a small align_threshold, concurrent writers
        for s in cfg["inits"]:
            s["nelem"] = rng.choice([300, 4097, 9000])
            s["kind"] = rng.choice(["mem", "mem16", "lazy", "proto"])
        cfg.update(threshold=0, alignment=rng.choice([1, 512, 4096, 4097, 6000, 12288]), align_threshold=rng.choice([0, 1, 16, 300]),
                   max_shard=rng.choice([20000, 30000, 50000]), max_workers=rng.choice([1, 2, 3, 4, 8]), backend="raw")
    if focus == "resave" or (focus is None and cfg["backend"] == "raw" and cfg["max_shard"] is None
                             and rng.random() < 0.3):
        cfg.update(backend="raw", max_shard=None,
                   resave={"threshold": rng.choice([0, 4, 16, 256, 5000]), "workers": rng.choice([None, 2]),
                           # what the user did with the loaded initializers before saving again (seeded C07-r6m2:
                           # tofile() of an already materialised sub-byte external tensor)
                           "touch": rng.choice([None, None, "numpy", "tobytes", "array"])})
    if focus == "zero":
        # several zero-size initializers of different element types in one data file (seeded C07-r7m1): under the
        # safetensors backend with threshold 0 they are external, all at one (path, offset, 0)
        kinds0 = ["mem", "mem16", "lazy", "proto"]
        cfg["inits"] = [{"kind": kinds0[j % 4], "nelem": 0 if j < 3 else rng.choice([0, 3, 8]), "g": rng.choice([0, 0, 1, 2]),
                         "name": f"w{j}"} for j in range(rng.randrange(2, 6))]
        cfg.update(backend="safetensors", threshold=0, max_shard=None, resave=None)
        if rng.random() < 0.5:
            # ... directly followed by a tensor larger than the shard limit (seeded C07-r3m1)
            cfg["inits"].append({"kind": "mem", "nelem": rng.choice([64, 300]), "g": cfg["inits"][-1]["g"],
                                 "name": f"w{len(cfg['inits'])}"})
            cfg["max_shard"] = rng.choice([1, 7, 16])
    if focus == "presave":
        cfg.update(backend="safetensors" if rng.random() < 0.7 else "raw", max_shard=None, resave=None)
        for sp in cfg["inits"]:
            if sp["kind"] in ("external", "misnamed"):
                sp["kind"] = "mem"
    if cfg["max_shard"] is None and cfg["resave"] is None and (focus == "presave" or rng.random() < 0.25):
        # an earlier save of ANOTHER model to the same path in the same process (seeded C07-r6m3: state kept
        # across saves); unsharded, so that the earlier data file is simply replaced
        cfg["presave"] = {"nelems": [rng.choice([1, 3, 8, 64, 300]) for _ in range(rng.randrange(1, 4))],
                          "threshold": rng.choice([0, 0, 4])}
    return cfg


def _key(spec) -> str:
    return f"{spec['g']}/{spec['name']}"


def _build_model(ir, cfg, workdir):
    import random
    rng = random.Random(cfg["tseed"])
    dup_pool: list = []
    per_graph = {0: [], 1: [], 2: [], 3: [], 5: [], 6: []}
    expect, objs = {}, []
    for i, spec in enumerate(cfg["inits"]):
        if "g" not in spec:                      # corpus / known-finding witnesses in the older format
            spec["g"] = 1 if spec.get("sub") else 0
            spec["name"] = f"w{i}"
        t, b, dt, shp = _mk_tensor(ir, spec["kind"], spec["nelem"], spec["name"], rng, workdir, dup_pool, uid=f"u{i}")
        v = ir.Value(name=spec["name"], const_value=t, type=ir.TensorType(dt), shape=ir.Shape(list(shp)))
        expect[_key(spec)] = {"bytes": b, "dtype": int(dt), "shape": list(shp), "nbytes": t.nbytes, "kind": spec["kind"]}
        per_graph[spec["g"]].append(v)
        objs.append((v, t))
    F = ir.TensorType(ir.DataType.FLOAT)
    x = ir.Value(name="x", type=F, shape=ir.Shape([1]))
    cond = ir.Value(name="cond", type=ir.TensorType(ir.DataType.BOOL), shape=ir.Shape([]))
    so = ir.Value(name="so", type=F, shape=ir.Shape([1]))
    # "deep": an If nested inside the then-branch (initializers two subgraph levels below the main graph)
    do = ir.Value(name="do", type=F, shape=ir.Shape([1]))
    deep = ir.Graph([], [do], nodes=[ir.Node("", "Identity", [x], outputs=[do], name="dn")],
                    initializers=per_graph[3], name="deep")
    de = ir.Value(name="de", type=F, shape=ir.Shape([1]))
    deep_else = ir.Graph([], [de], nodes=[ir.Node("", "Identity", [x], outputs=[de], name="den")], name="deepelse")
    inner_if = ir.Node("", "If", [cond], attributes=[ir.AttrGraph("then_branch", deep),
                                                     ir.AttrGraph("else_branch", deep_else)],
                       outputs=[so], name="inner_if")
    sub = ir.Graph([], [so], nodes=[inner_if], initializers=per_graph[1], name="then")
    so2 = ir.Value(name="so2", type=F, shape=ir.Shape([1]))
    sub2 = ir.Graph([], [so2], nodes=[ir.Node("", "Identity", [x], outputs=[so2], name="sn2")],
                    initializers=per_graph[2], name="else")
    y = ir.Value(name="y", type=F, shape=ir.Shape([1]))
    ifn = ir.Node("", "If", [cond], attributes=[ir.AttrGraph("then_branch", sub), ir.AttrGraph("else_branch", sub2)],
                  outputs=[y], name="if")
    main_nodes = [ifn]
    if per_graph[5] or per_graph[6]:
        # a node with a GRAPHS (list-of-graphs) attribute whose bodies own initializers (seeded C07-r7m2)
        bodies = []
        for gi, gname in ((5, "gs0"), (6, "gs1")):
            bo = ir.Value(name=f"bo{gi}", type=F, shape=ir.Shape([1]))
            bodies.append(ir.Graph([], [bo], nodes=[ir.Node("", "Identity", [x], outputs=[bo], name=f"bn{gi}")],
                                   initializers=per_graph[gi], name=gname))
        yy = ir.Value(name="yy", type=F, shape=ir.Shape([1]))
        main_nodes.append(ir.Node("custom.domain", "Switch", [cond], attributes=[ir.AttrGraphs("bodies", bodies)],
                                  outputs=[yy], name="switch"))
    g = ir.Graph([x, cond], [y], nodes=main_nodes, initializers=per_graph[0], name="g",
                 opset_imports={"": 20, "custom.domain": 1})
    return ir.Model(g, ir_version=10), objs, expect


def _graph_index(model):
    """graph object -> 0 (main) / 1 (then) / 2 (else), by graph name"""
    return {id(gr): {"g": 0, "then": 1, "else": 2, "deep": 3, "deepelse": 4, "gs0": 5, "gs1": 6}[gr.name] for gr in model.graphs()}


def _save(ir, model, cfg, path, threshold, workers, callback=None):
    if cfg.get("backend") == "safetensors":
        ir.save_safetensors(model, path, size_threshold_bytes=threshold,
                            max_shard_size_bytes=cfg["max_shard"], callback=callback)
    else:
        ir.save(model, path, external_data=cfg["naming"], size_threshold_bytes=threshold,
                max_shard_size_bytes=cfg["max_shard"], max_workers=workers,
                alignment=cfg["alignment"], align_threshold=cfg["align_threshold"], callback=callback)


def run_impl(cfg: dict, workdir: str) -> dict:
    """Run the real save/load (optionally: save, load, save again in place, load) ; canonical observations."""
    import onnx_ir as ir
    os.makedirs(os.path.join(workdir, "out", "sub"), exist_ok=True)
    os.makedirs(os.path.join(workdir, "out", os.path.dirname(cfg.get("naming") or "")), exist_ok=True)
    model, objs, expect = _build_model(ir, cfg, workdir)
    gi = _graph_index(model)
    order = [f"{gi[id(gr)]}/{v.name}" for gr in model.graphs() for v in gr.initializers.values()]
    sizes = [expect[k]["nbytes"] for k in order]
    mname = cfg.get("mname", "model.onnx")
    path = os.path.join(workdir, "out", mname)
    outcome = "ok"
    callback = None
    fail_at = cfg.get("fail_at")
    if fail_at is not None:
        calls = {"n": 0}

        def callback(tensor, info):
            if calls["n"] == fail_at:
                raise RuntimeError("injected")
            calls["n"] += 1
    threshold = cfg["threshold"]
    if cfg.get("presave"):
        import random as _random
        prng = _random.Random(cfg["tseed"] ^ 0x5eed)
        pvals = []
        for j, ne in enumerate(cfg["presave"]["nelems"]):
            arr = np.array([prng.randrange(256) for _ in range(ne)], dtype=np.uint8)
            pvals.append(ir.Value(name=f"p{j}", const_value=ir.Tensor(arr, name=f"p{j}"),
                                  type=ir.TensorType(ir.DataType.UINT8), shape=ir.Shape([ne])))
        pg = ir.Graph(inputs=[], outputs=[], nodes=[], initializers=pvals, name="pre", opset_imports={"": 20})
        pm = ir.Model(pg, ir_version=10)
        pcfg = dict(cfg, max_shard=None, alignment=None, align_threshold=0)
        try:
            _save(ir, pm, pcfg, path, cfg["presave"]["threshold"], None)
        except Exception as e:  # noqa: BLE001
            return {"order": order, "sizes": sizes, "outcome": "presave-raise:" + type(e).__name__, "restored": True,
                    "same_objects": True, "dup_names_across_graphs": False, "threshold_used": threshold}
    try:
        _save(ir, model, cfg, path, threshold, cfg["max_workers"], callback)
    except Exception as e:  # noqa: BLE001
        outcome = "raise:" + type(e).__name__
    same = all(v.const_value is t for v, t in objs)
    obs = {"order": order, "sizes": sizes, "outcome": outcome, "restored": same, "same_objects": same,
           "dup_names_across_graphs": len({k.split("/", 1)[1] for k in order}) < len(order),
           "threshold_used": threshold}
    if outcome != "ok":
        return obs
    loaded = ir.load(path)
    if cfg.get("resave"):
        # re-save the loaded model in place (same model path, same data path): its external tensors live in
        # the very file that is being replaced
        threshold = cfg["resave"]["threshold"]
        touch = cfg["resave"].get("touch")
        if touch:
            for gr in loaded.graphs():
                for v in gr.initializers.values():
                    try:
                        if touch == "numpy":
                            v.const_value.numpy()
                        elif touch == "tobytes":
                            v.const_value.tobytes()
                        else:
                            np.asarray(v.const_value)
                    except Exception:  # noqa: BLE001  (reading is judged below, not here)
                        pass
        objs2 = [(v, v.const_value) for gr in loaded.graphs() for v in gr.initializers.values()]
        try:
            _save(ir, loaded, cfg, path, threshold, cfg["resave"]["workers"])
        except Exception as e:  # noqa: BLE001
            obs["outcome"] = "raise2:" + type(e).__name__
        same2 = all(v.const_value is t for v, t in objs2)
        obs["restored"] = obs["restored"] and same2
        obs["same_objects"] = obs["same_objects"] and same2
        obs["threshold_used"] = threshold
        if obs["outcome"] != "ok":
            return obs
        loaded = ir.load(path)
    gi2 = _graph_index(loaded)
    files: dict[str, list] = {}
    rb = {}
    for gr in loaded.graphs():
        for name, v in gr.initializers.items():
            key = f"{gi2[id(gr)]}/{name}"
            t = v.const_value
            ent = {"external": isinstance(t, ir.ExternalTensor), "dtype": int(t.dtype), "shape": list(t.shape)}
            if isinstance(t, ir.ExternalTensor):
                ent.update(location=str(t.location), offset=t.offset, length=t.length)
                if not str(t.location).startswith("pre_"):
                    files.setdefault(str(t.location), []).append([t.offset, t.length])
            try:
                ent["bytes_ok"] = t.tobytes() == expect[key]["bytes"]
            except Exception as e:  # noqa: BLE001
                ent["bytes_ok"] = False
                ent["read_error"] = type(e).__name__
            rb[key] = ent
    # a second load brought fully into memory (external_data.load_to_model): name, dtype, shape and bytes again
    l2m_bad = []
    try:
        loaded2 = ir.external_data.load_to_model(ir.load(path))
        gi3 = _graph_index(loaded2)
        for gr in loaded2.graphs():
            for name, v in gr.initializers.items():
                key = f"{gi3[id(gr)]}/{name}"
                t = v.const_value
                e = expect[key]
                if isinstance(t, ir.ExternalTensor):
                    l2m_bad.append(f"{key}: still external after load_to_model")
                elif int(t.dtype) != e["dtype"] or list(t.shape) != e["shape"] or t.tobytes() != e["bytes"]:
                    l2m_bad.append(f"{key}: load_to_model gives dtype={int(t.dtype)} shape={list(t.shape)} "
                                   f"(expected dtype={e['dtype']} shape={e['shape']}), bytes_ok={t.tobytes() == e['bytes']}")
    except Exception as e:  # noqa: BLE001
        l2m_bad.append(f"load_to_model raised {type(e).__name__}")
    obs["l2m_bad"] = l2m_bad
    obs["loaded_order"] = [f"{gi2[id(gr)]}/{n}" for gr in loaded.graphs() for n in gr.initializers]
    obs["loaded"] = rb
    outdir = os.path.join(workdir, "out")
    present = {}
    for root, _, fs in os.walk(outdir):
        for fn in fs:
            p = os.path.relpath(os.path.join(root, fn), outdir)
            if p != mname and not fn.startswith("pre_") and not fn.endswith(".index.json"):
                present[p] = os.path.getsize(os.path.join(root, fn))
    obs["data_files"] = present
    obs["ranges_by_file"] = files
    ok_ranges = True
    for key, ent in rb.items():
        if ent["external"]:
            try:
                with open(os.path.join(outdir, ent["location"]), "rb") as f:
                    f.seek(ent["offset"] or 0)
                    if f.read(ent["length"]) != expect[key]["bytes"]:
                        ok_ranges = False
            except OSError:
                ok_ranges = False
    obs["file_bytes_ok"] = ok_ranges
    # small data files: keep the bytes and the (offset, bytes) jobs, to validate the file-image model
    images = []
    if cfg.get("backend", "raw") == "raw":
        for loc, size in present.items():
            if size <= 600:
                with open(os.path.join(outdir, loc), "rb") as f:
                    content = f.read()
                jobs = [[ent["offset"], expect[key]["bytes"].hex()] for key in obs["loaded_order"]
                        for ent in [rb[key]] if ent["external"] and ent["location"] == loc]
                images.append({"file": loc, "hex": content.hex(), "jobs": jobs})
    obs["images"] = images
    obs["expect"] = {n: {"dtype": e["dtype"], "shape": e["shape"], "nbytes": e["nbytes"], "kind": e["kind"]}
                     for n, e in expect.items()}
    return obs


# --------------------------------------------------------------------------- oracle (the property itself)

def oracle(cfg: dict, obs: dict) -> list[str]:
    """Violations of the property statement visible in the observations (public behaviour only)."""
    bad = []
    if not obs["restored"] or not obs["same_objects"]:
        bad.append("model passed to save does not hold the same tensor objects afterwards")
    if obs["outcome"] != "ok":
        documented = obs["outcome"].endswith(":FileExistsError") or (
            # safetensors documents: all initializer names across subgraphs must be unique
            cfg.get("backend") == "safetensors" and obs.get("dup_names_across_graphs")
            and obs["outcome"] == "raise:ValueError")
        if cfg.get("fail_at") is None and not documented:
            bad.append(f"save raised {obs['outcome']} on a valid configuration")
        return bad
    exp = obs["expect"]
    if sorted(obs["loaded_order"]) != sorted(obs["order"]):
        bad.append("initializer names differ after load")
    for line in obs.get("l2m_bad", []):
        bad.append(line)
    st = cfg.get("backend") == "safetensors"
    al = None if st else cfg["alignment"]
    for name, ent in obs["loaded"].items():
        e = exp[name]
        if ent["dtype"] != e["dtype"] or ent["shape"] != e["shape"]:
            bad.append(f"{name}: dtype/shape changed")
        if not ent["bytes_ok"]:
            bad.append(f"{name}: bytes differ after save/load ({ent.get('read_error', 'content')})")
        st = cfg.get("backend") == "safetensors"
        # raw backend: external iff nbytes > threshold; safetensors documents "not smaller than" (>=)
        thr_used = obs.get("threshold_used", cfg["threshold"])
        want_ext = (e["nbytes"] >= thr_used) if st else (e["nbytes"] > thr_used)
        if ent["external"] != want_ext:
            bad.append(f"{name}: external={ent['external']} but nbytes={e['nbytes']} threshold={thr_used}")
    if not obs["file_bytes_ok"]:
        bad.append("a recorded byte range does not hold the tensor's bytes")
    for loc, ranges in obs["ranges_by_file"].items():
        size = obs["data_files"].get(loc)
        if size is None:
            bad.append(f"data file {loc} missing")
            continue
        end = 0
        # inside a safetensors file the byte layout (order of tensors) is chosen by the safetensors
        # library, so only non-overlap / containment are required there
        for off, ln in (sorted(ranges) if st else ranges):
            if off < end:
                bad.append(f"{loc}: ranges overlap or are out of declaration order")
            if off + ln > size:
                bad.append(f"{loc}: range beyond end of file")
            if al is not None and ln > cfg["align_threshold"] and off % max(4096, al) != 0:
                bad.append(f"{loc}: offset {off} not aligned")
            end = off + ln
        payload = sum(ln for _, ln in ranges) if st else size   # safetensors: limit is on tensor bytes (header excluded)
        if cfg["max_shard"] is not None and payload > cfg["max_shard"] and len(ranges) > 1:
            bad.append(f"{loc}: shard of {len(ranges)} tensors exceeds the limit")
    return bad


# --------------------------------------------------------------------------- correspondence

def _case_term(cfg, obs) -> str:
    """(sizes, threshold, maxshard, al, thr, observed files) as a Coq term."""
    # observed: data files in shard order (names sort by zero-padded index), each (size, ranges)
    files = []
    for loc in sorted(obs["data_files"]):
        files.append(cpair(cZ(obs["data_files"][loc]),
                           clist(cpair(cZ(o), cZ(n)) for o, n in obs["ranges_by_file"].get(loc, []))))
    return "(" + ", ".join([
        clist(cZ(s) for s in obs["sizes"]), cZ(obs.get("threshold_used", cfg["threshold"])), copt(cfg["max_shard"], cZ),
        copt(cfg["alignment"], cZ), cZ(cfg["align_threshold"]), clist(files)]) + ")"


CASE_HEADER = """From Coq Require Import ZArith List Bool.
From IRV Require Import Base.Exn Gen.C07Gen C07.Model.
Import ListNotations.
Open Scope Z_scope.
"""


def correspondence(ck, cases: list[tuple[dict, dict]]) -> list[int]:
    """Indices of cases where Model.predict_files disagrees with the implementation's files."""
    terms = [_case_term(c, o) for c, o in cases]
    text = CASE_HEADER + (
        "Definition cases : list (list Z * Z * option Z * option Z * Z * list (Z * list (Z * Z))) :=\n  "
        + clist(terms).replace("; (", ";\n  (") + ".\n"
        "Definition agree (c : list Z * Z * option Z * option Z * Z * list (Z * list (Z * Z))) : bool :=\n"
        "  let '(sizes, threshold, ms, al, thr, files) := c in\n"
        "  list_eqb filedesc_eqb (predict_files sizes threshold ms al thr) files.\n"
        "Eval vm_compute in (failing agree cases).\n")
    return ck.coq_failing(text, "cases_save")


def correspondence_st(ck, cases) -> list[int]:
    """safetensors backend: the grouping of tensors into shard files (sizes per file, in declaration order)
    must be Model.st_shard of the tensors with nbytes >= threshold."""
    terms = []
    for cfg, obs in cases:
        by_file: dict[str, list[int]] = {}
        for name in obs["order"]:
            ent = obs["loaded"][name]
            if ent["external"] and not ent["location"].startswith("pre_"):
                by_file.setdefault(ent["location"], []).append(obs["expect"][name]["nbytes"])
        groups = [by_file[k] for k in sorted(by_file)]
        terms.append("(" + ", ".join([clist(cZ(x) for x in obs["sizes"]), cZ(cfg["threshold"]),
                                      copt(cfg["max_shard"], cZ),
                                      clist(clist(cZ(x) for x in g) for g in groups)]) + ")")
    text = CASE_HEADER + (
        "Definition cases : list (list Z * Z * option Z * list (list Z)) :=\n  " + clist(terms) + ".\n"
        "Definition agree (c : list Z * Z * option Z * list (list Z)) : bool :=\n"
        "  let '(sizes, threshold, ms, groups) := c in\n"
        "  let ext := filter (fun n => threshold <=? n) sizes in\n"
        "  list_eqb (list_eqb Z.eqb) (match ext with [] => [] | _ => st_shard (fun x => x) ext ms end) groups.\n"
        "Eval vm_compute in (failing agree cases).\n")
    return ck.coq_failing(text, "cases_st")


def correspondence_image(ck, cases) -> list[dict]:
    """The bytes of (small) written data files equal Model.write_all [] jobs — ties write_at/write_all
    (zero-filled holes, seek+write) to the real files."""
    rows = []
    for cfg, obs in cases:
        for im in obs.get("images", []):
            rows.append((cfg, im))
    rows = rows[:150]
    if not rows:
        return []
    def bl(h):
        return clist(cZ(b) for b in bytes.fromhex(h))
    terms = ["(" + clist(cpair(common.cnat(o), bl(h)) for o, h in im["jobs"]) + ", " + bl(im["hex"]) + ")"
             for _, im in rows]
    text = CASE_HEADER + (
        "Definition cases : list (list (nat * list byte) * list byte) :=\n  " + clist(terms) + ".\n"
        "Definition agree (c : list (nat * list byte) * list byte) : bool :=\n"
        "  list_eqb Z.eqb (write_all [] (fst c)) (snd c).\n"
        "Eval vm_compute in (failing agree cases).\n")
    bad = ck.coq_failing(text, "cases_image")
    ck.count(len(rows))
    ck.hist("function_grid", "file_image", len(rows))
    return [{"config": rows[i][0], "image": rows[i][1]} for i in bad]


def correspondence_align(ck) -> list[dict]:
    """Translated align_offset / validate_write_options against the Python functions on a grid, and
    shard / st_shard against _shard_tensors of both backends."""
    from onnx_ir import external_data as ed
    from onnx_ir._safetensors import _shard_tensors as st_shard_py
    rng = ck.rng
    grid_cur = [0, 1, 4095, 4096, 4097, 65535, 65536, 70000, 1 << 20, (1 << 32) + 5]
    grid_sz = [0, 1, 100, 4096, 1 << 20, (1 << 20) + 1]
    grid_al = [None, 1, 2, 512, 4096, 4097, 10000, 12288, 20480, 65536, 100000]
    grid_thr = [0, 100, 1 << 20]
    rows = []
    for cur in grid_cur:
        for sz in grid_sz:
            for al in grid_al:
                for thr in grid_thr:
                    rows.append((cur, sz, al, thr, ed._align_offset(cur, sz, al, thr)))
    vrows = []
    for mw in [None, -1, 0, 1, 8]:
        for mif in [-5, 0, 1, 1 << 30]:
            for al in [None, -1, 0, 1, 4096]:
                for thr in [-1, 0, 5]:
                    try:
                        ed._validate_write_options(mw, mif, al, thr)
                        r = "(Ok tt)"
                    except Exception as e:  # noqa: BLE001
                        r = f"(Raise {common.exn_name(e)})"
                    vrows.append((mw, mif, al, thr, r))

    class _T:
        def __init__(self, n, i):
            self.nbytes, self.name, self.i = n, f"t{i}", i
    srows, strows = [], []
    for _ in range(400 if not ck.thorough else 4000):
        n = rng.randrange(0, 9)
        sizes = [rng.choice([0, 0, 1, 2, 3, 5, 8, 100, 4096, 5000, 70000]) for _ in range(n)]
        mx = rng.choice([1, 2, 5, 8, 10, 100, 4096, 8192, 100000])
        al = rng.choice([None, None, 1, 4096, 65536])
        thr = rng.choice([0, 4, 1 << 20])
        ts = [_T(s, i) for i, s in enumerate(sizes)]
        out = ed._shard_tensors(ts, mx, al, thr)
        srows.append((sizes, mx, al, thr, [[t.nbytes for t in s] for s in out]))
        mx2 = rng.choice([None, 1, 2, 5, 8, 10, 100])
        out2 = st_shard_py(ts, mx2)
        strows.append((sizes, mx2, [[t.nbytes for t in s] for s in out2]))
    # shard file names: model shard_name(stem, ext) vs get_shard_filename(stem + ext)
    from onnx_ir._shard_filename import get_shard_filename
    nrows = []
    for stem in ["m", "dir/sub/model", "a-b_c", "x9"]:
        for ext in ["", ".data", ".v1.data", ".safetensors", ".a.b.c"]:
            for total in [1, 2, 3, 11, 99999, 100000, 123456]:
                for idx in sorted({1, 2, total // 2 + 1, total}):
                    if idx <= total:
                        nrows.append((stem, ext, idx, total, get_shard_filename(stem + ext, idx, total)))
    zl = lambda l: clist(cZ(x) for x in l)  # noqa: E731
    text = CASE_HEADER + (
        "Definition arows : list (Z * Z * option Z * Z * Z) :=\n  "
        + clist(f"({cZ(a)}, {cZ(b)}, {copt(c, cZ)}, {cZ(d)}, {cZ(e)})" for a, b, c, d, e in rows) + ".\n"
        "Definition aok (r : Z * Z * option Z * Z * Z) : bool := let '(c, s, al, thr, e) := r in align_offset c s al thr =? e.\n"
        "Definition vrows : list (option Z * Z * option Z * Z * res unit) :=\n  "
        + clist(f"({copt(a, cZ)}, {cZ(b)}, {copt(c, cZ)}, {cZ(d)}, {e})" for a, b, c, d, e in vrows) + ".\n"
        "Definition vok (r : option Z * Z * option Z * Z * res unit) : bool :=\n"
        "  let '(a, b, c, d, e) := r in res_eqb (fun _ _ => true) (validate_write_options a b c d) e.\n"
        "Definition srows : list (list Z * Z * option Z * Z * list (list Z)) :=\n  "
        + clist(f"({zl(a)}, {cZ(b)}, {copt(c, cZ)}, {cZ(d)}, {clist(zl(s) for s in e)})" for a, b, c, d, e in srows) + ".\n"
        "Definition sok (r : list Z * Z * option Z * Z * list (list Z)) : bool :=\n"
        "  let '(ts, m, al, thr, e) := r in list_eqb (list_eqb Z.eqb) (shard (fun x => x) ts m al thr) e.\n"
        "Definition strows : list (list Z * option Z * list (list Z)) :=\n  "
        + clist(f"({zl(a)}, {copt(b, cZ)}, {clist(zl(s) for s in e)})" for a, b, e in strows) + ".\n"
        "Definition stok (r : list Z * option Z * list (list Z)) : bool :=\n"
        "  let '(ts, m, e) := r in list_eqb (list_eqb Z.eqb) (st_shard (fun x => x) ts m) e.\n"
        "Eval vm_compute in (failing aok arows).\nEval vm_compute in (failing vok vrows).\n"
        "Eval vm_compute in (failing sok srows).\nEval vm_compute in (failing stok strows).\n")
    fa, fv, fs, fst_ = ck.coq_failing_multi(text, "cases_fn", 4)
    failing = fa + [100000 + i for i in fv] + [200000 + i for i in fs] + [300000 + i for i in fst_]
    ntext = CASE_HEADER + (
        "Definition nrows : list (list N * list N * Z * Z * list N) :=\n  "
        + clist(f"({common.cstr(a)}, {common.cstr(b)}, {cZ(c)}, {cZ(d)}, {common.cstr(e)})" for a, b, c, d, e in nrows) + ".\n"
        "Definition nok (r : list N * list N * Z * Z * list N) : bool :=\n"
        "  let '(stem, ext, i, t, e) := r in list_eqb N.eqb (shard_name stem ext (Z.to_nat i) (Z.to_nat t)) e.\n"
        "Eval vm_compute in (failing nok nrows).\n")
    nfail = ck.coq_failing(ntext, "cases_names")
    ck.count(len(nrows))
    ck.hist("function_grid", "get_shard_filename", len(nrows))
    for i in nfail[:3]:
        ck.broken("correspondence:get_shard_filename", json.dumps(nrows[i]))
    ck.count(len(rows) + len(vrows) + len(srows) + len(strows))
    ck.hist("function_grid", "align_offset", len(rows))
    ck.hist("function_grid", "validate_write_options", len(vrows))
    ck.hist("function_grid", "shard", len(srows))
    ck.hist("function_grid", "st_shard", len(strows))
    out = []
    for i in failing:
        if i < 100000:
            out.append({"fn": "_align_offset", "args": rows[i][:4], "impl": rows[i][4]})
        elif i < 200000:
            out.append({"fn": "_validate_write_options", "args": vrows[i - 100000][:4], "impl": vrows[i - 100000][4]})
        elif i < 300000:
            out.append({"fn": "_shard_tensors", "args": srows[i - 200000][:4], "impl": srows[i - 200000][4]})
        else:
            out.append({"fn": "_safetensors._shard_tensors", "args": strows[i - 300000][:2], "impl": strows[i - 300000][2]})
    # nontrivial: shard cases producing more than one shard
    for r in srows:
        if len(r[4]) > 1:
            ck.nontriv(("shard", r[:4]))
    return out


# --------------------------------------------------------------------------- known findings

def replay_known(ck) -> None:
    """Known findings are replayed on the implementation on every run."""
    for k in ck._known:
        if k.get("status") != "known":
            continue
        cfg = k["witness"]
        wd = os.path.join(ck.scratch, "known_" + k["key"])
        obs = run_impl(cfg, wd)
        shutil.rmtree(wd, ignore_errors=True)
        bad = oracle(cfg, obs)
        if bad:
            ck.known_finding(k["key"], k["what"])
        else:
            ck.broken(f"known-finding-stale:{k['key']}",
                      "the recorded witness no longer fails on the implementation; the model reproduces a defect "
                      "the code no longer has")


def is_known(ck, cfg: dict, bad: list[str]) -> str | None:
    """Map a failing configuration to a known-finding key, else None.  A finding's `site` names the
    initializer kind (and backend, and a fragment of the failure text) it is about; a failure is attributed
    to it only if EVERY failure line concerns an initializer of that kind on that backend with that text."""
    for k in ck._known:
        if k.get("status") != "known":
            continue
        site = k.get("site", {})
        if not isinstance(site, dict):
            continue
        if site.get("backend") and cfg.get("backend", "raw") != site["backend"]:
            continue
        names = {_key(s) for s in cfg["inits"] if "g" in s and s["kind"] == site.get("kind")}
        frag = site.get("message_contains", "")
        if names and all(b.split(":")[0] in names and frag in b for b in bad):
            return k["key"]
    return None


# --------------------------------------------------------------------------- main

def run(ck) -> None:
    import logging
    logging.disable(logging.WARNING)
    ck.trust("Coq 8.16.1 kernel (coqc; vm_compute in case files; no native_compute)",
             "tools/translate.py (fail-closed ast->Gallina translator; output cross-checked on a grid)",
             "tools/translate_loops.py (fail-closed translation of the layout/shard loops to Gallina folds: a tensor is "
             "abstracted to its nbytes, _ExternalDataInfo.name is dropped, logging calls are skipped; Base/PyList.v gives "
             "append / xss[-1].append / bool(xss[-1]) their list meaning)",
             "harness/props/c07.py (generators, observation of save/load, Coq literal printer)",
             "modelled not verified: tensor tobytes()/tofile() (C04), file system, onnx.save/load, safetensors writer")
    ck.assumptions += ["little-endian POSIX platform", "numpy/onnx as installed in /venv"]
    ok_gen = generate(ck)
    ck.prove()
    n_cases = 300 if not ck.thorough else 4000
    # 1. function-level grids (translator validation + shard models)
    try:
        fn_mis = correspondence_align(ck)
    except RuntimeError as e:
        fn_mis = []
        ck.broken("correspondence:function-grid", str(e))
    for m in fn_mis[:5]:
        ck.broken(f"correspondence:{m['fn']}", json.dumps(m, default=str))
    # 2. whole save/load on generated configurations (corpus first)
    cases = []
    corpus_dir = os.path.join(common.CORPUS, "C07")
    cfgs = []
    if os.path.isdir(corpus_dir):
        for fn in sorted(os.listdir(corpus_dir)):
            with open(os.path.join(corpus_dir, fn)) as f:
                cfgs.append(json.load(f))
    # witnesses of findings repaired upstream run as ordinary cases: a recurrence is a VIOLATION
    for k in ck._known:
        w = k.get("witness")
        if k.get("status") == "fixed" and isinstance(w, dict) and "inits" in w and "threshold" in w:
            c = json.loads(json.dumps(w))
            for key, val in (("max_shard", None), ("alignment", None), ("align_threshold", 0), ("max_workers", None),
                             ("backend", "raw"), ("naming", "m.data"), ("fail_at", None), ("resave", None),
                             ("tseed", 1), ("mname", "model.onnx")):
                c.setdefault(key, val)
            cfgs.append(c)
    for i in range(n_cases):
        focus = {1: "aligned-shards", 2: "resave", 3: "presave", 4: "zero" if i % 10 == 4 else None}.get(i % 5)
        cfgs.append(gen_config(ck.rng, small=(i % 3 == 0), focus=focus))
    oracle_failures = []
    for i, cfg in enumerate(cfgs):
        wd = os.path.join(ck.scratch, f"case{i}")
        obs = run_impl(cfg, wd)
        shutil.rmtree(wd, ignore_errors=True)
        ck.count()
        ck.hist("outcomes", obs["outcome"])
        for s in cfg["inits"]:
            ck.hist("initializer_kinds", s["kind"])
        ck.hist("features", "resave" if cfg.get("resave") else "single-save")
        ck.hist("features", cfg.get("backend", "raw"))
        if obs.get("dup_names_across_graphs"):
            ck.hist("features", "same-name-in-two-graphs")
        bad = oracle(cfg, obs)
        if bad:
            oracle_failures.append((cfg, obs, bad))
        if obs["outcome"] == "ok":
            cases.append((cfg, obs))
            if len(obs["data_files"]) > 1 or any(cfg["alignment"] and e["nbytes"] > cfg["align_threshold"]
                                                 for e in obs["expect"].values()):
                ck.nontriv(cfg)
        if i < 3:
            ck.sample({"config": cfg, "observed_files": obs.get("data_files"), "ranges": obs.get("ranges_by_file")})
    # fault injection: callback raising at every position -> same tensor objects afterwards
    for i in range(20 if not ck.thorough else 200):
        cfg = gen_config(ck.rng, small=True)
        cfg["threshold"] = 0
        cfg["max_workers"] = None
        cfg["resave"] = None
        cfg["backend"] = "raw"
        nb = sum(1 for s in cfg["inits"] if s["nelem"] > 0)
        for k in range(nb + 1):
            c2 = dict(cfg, fail_at=k)
            wd = os.path.join(ck.scratch, f"fault{i}_{k}")
            obs = run_impl(c2, wd)
            shutil.rmtree(wd, ignore_errors=True)
            ck.count()
            ck.hist("outcomes", "fault:" + obs["outcome"])
            bad = oracle(c2, obs)
            if bad:
                oracle_failures.append((c2, obs, bad))
            if obs["outcome"] != "ok":
                ck.nontriv(("fault", c2))
    ck.coverage["traces_validated_against_impl"] = len(cases)
    st_cases = [(c, o) for c, o in cases if c.get("backend") == "safetensors"]
    cases = [(c, o) for c, o in cases if c.get("backend") != "safetensors"]
    try:
        st_mis = correspondence_st(ck, st_cases) if st_cases else []
    except RuntimeError as e:
        st_mis = []
        ck.broken("correspondence:st_predict", str(e))
    for i in st_mis[:5]:
        cfg, obs = st_cases[i]
        ck.broken("correspondence:st_predict", json.dumps({"config": cfg, "sizes": obs["sizes"],
                                                           "impl_ranges": obs["ranges_by_file"]}, default=str))
    try:
        for m in correspondence_image(ck, cases)[:3]:
            ck.broken("correspondence:file_image", json.dumps(m, default=str)[:3000])
    except RuntimeError as e:
        ck.broken("correspondence:file_image", str(e))
    try:
        mism = correspondence(ck, cases) if cases else []
    except RuntimeError as e:
        mism = []
        ck.broken("correspondence:predict_files", str(e))
    for i in mism[:5]:
        cfg, obs = cases[i]
        ck.broken("correspondence:predict_files",
                  json.dumps({"config": cfg, "sizes": obs["sizes"], "impl_files": obs["data_files"],
                              "impl_ranges": obs["ranges_by_file"]}, default=str))
    # 3. known findings, then report violations found by the oracle
    replay_known(ck)
    reported = set()
    for cfg, obs, bad in oracle_failures:
        key = is_known(ck, cfg, bad)
        if key:
            ck.known_finding(key, next(k["what"] for k in ck._known if k["key"] == key))
            continue
        sig = tuple(sorted(set(b.split(":")[-1].strip() for b in bad)))
        if sig in reported:
            continue
        reported.add(sig)
        small = shrink(cfg, ck)
        ck.violation({"kind": "oracle", "config": small, "failures": oracle(small, _run(small, ck)),
                      "broken": ck.broken_items})
    # 4. a broken obligation / correspondence with no oracle failure so far: search harder
    if ck.broken_items and not ck.violations:
        search(ck)


def _run(cfg, ck):
    wd = os.path.join(ck.scratch, "shrink")
    shutil.rmtree(wd, ignore_errors=True)
    obs = run_impl(cfg, wd)
    shutil.rmtree(wd, ignore_errors=True)
    return obs


def shrink(cfg: dict, ck) -> dict:
    """Greedy shrinking of a failing configuration (drop initializers, reset options)."""
    def fails(c):
        try:
            return bool(oracle(c, _run(c, ck)))
        except Exception:  # noqa: BLE001
            return False
    cur = json.loads(json.dumps(cfg))
    changed = True
    while changed:
        changed = False
        for i in range(len(cur["inits"])):
            c2 = json.loads(json.dumps(cur))
            del c2["inits"][i]
            if fails(c2):
                cur, changed = c2, True
                break
        for key, val in (("max_shard", None), ("alignment", None), ("max_workers", None), ("naming", "m.data"), ("mname", "model.onnx"),
                         ("backend", "raw")):
            if cur[key] != val:
                c2 = dict(cur, **{key: val})
                if fails(c2):
                    cur, changed = c2, True
        for s in cur["inits"]:
            if s.get("g"):
                old = s["g"]
                s["g"] = 0
                if len({t["name"] for t in cur["inits"] if t["g"] == 0}) < sum(1 for t in cur["inits"] if t["g"] == 0) \
                        or not fails(cur):
                    s["g"] = old
                else:
                    changed = True
        if cur.get("resave"):
            c2 = dict(cur, resave=None)
            if fails(c2):
                cur, changed = c2, True
    return cur


def search(ck) -> None:
    """Violation search after a broken obligation: fresh configurations biased to layout features."""
    budget = 400 if not ck.thorough else 4000
    for i in range(budget):
        cfg = gen_config(ck.rng)
        if i % 2 == 0:
            cfg["alignment"] = ck.rng.choice([1, 512, 4096, 65536])
            cfg["align_threshold"] = ck.rng.choice([0, 1, 16])
            cfg["threshold"] = 0
        obs = _run(cfg, ck)
        ck.count()
        bad = oracle(cfg, obs)
        if bad and not is_known(ck, cfg, bad):
            small = shrink(cfg, ck)
            ck.violation({"kind": "oracle-after-broken-obligation", "config": small,
                          "failures": oracle(small, _run(small, ck)), "broken": ck.broken_items})
            return


def replay(rp: dict) -> int:
    cfg = rp.get("config")
    if cfg is None:
        print("replay names a broken obligation/correspondence, no concrete input:",
              json.dumps(rp.get("broken"), indent=1)[:2000])
        return 1
    wd = os.path.join(common.SCRATCH_ROOT, f"replay-{os.getpid()}")
    obs = run_impl(cfg, wd)
    shutil.rmtree(wd, ignore_errors=True)
    bad = oracle(cfg, obs)
    print(json.dumps({"config": cfg, "failures": bad}, indent=1))
    return 1 if bad else 0

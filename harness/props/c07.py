"""C07 — external-data save/load: layout, sharding, read-back, restore.

Decided by: Coq theorems (coq/theories/C07/Property.v) over Gen/C07Gen.v (regenerated from
external_data.py by tools/translate.py on every run) + the hand model C07/Model.v, tied to the code by
a correspondence check: the real onnx_ir.save / _shard_tensors / _align_offset are run on generated
configurations and their observations are embedded in case files that Coq evaluates against the model.
On any broken obligation or mismatch the property oracle (save -> load -> compare, range checks) searches
for a concrete failing configuration.
"""

from __future__ import annotations

import json
import os
import shutil

import numpy as np

import translate as T
from harness import common
from harness.common import REPO, cZ, clist, copt, cpair

SRC = os.path.join(REPO, "src", "onnx_ir", "external_data.py")


# --------------------------------------------------------------------------- translation

def generate(ck) -> bool:
    try:
        text = T.HEADER
        text += T.translate_function(SRC, "_align_offset") + "\n"
        text += T.translate_function(SRC, "_validate_write_options") + "\n"
        text += T.translate_int_constant(SRC, "_DEFAULT_ALIGN_THRESHOLD")[0] + "\n"
        text += T.translate_int_constant(SRC, "_DEFAULT_MAX_IN_FLIGHT_BYTES")[0] + "\n"
    except (T.Unsupported, SyntaxError, OSError) as e:
        ck.gen_failed("C07Gen", e)
        return False
    ck.gen("C07Gen", text)
    return True


# --------------------------------------------------------------------------- implementation side

KINDS = ["mem", "lazy", "packed4", "proto", "external", "dup", "mem16", "uint2"]


def _mk_tensor(ir, kind: str, nelem: int, name: str, rng, workdir: str, dup_pool: list):
    """Return (tensor, expected_bytes, dtype, shape)."""
    import onnx
    from onnx_ir import serde
    if kind == "dup" and dup_pool:
        t = dup_pool[rng.randrange(len(dup_pool))]
        return t, t.tobytes(), t.dtype, tuple(t.shape)
    if kind in ("mem", "dup"):
        arr = np.array([rng.randrange(256) for _ in range(nelem)], dtype=np.uint8)
        t = ir.Tensor(arr, name=name)
        dup_pool.append(t)
    elif kind == "mem16":
        arr = np.array([rng.randrange(65536) for _ in range(nelem)], dtype=np.uint16).view(np.float16)
        t = ir.Tensor(arr, name=name)
    elif kind == "lazy":
        arr = np.array([rng.randrange(-2**31, 2**31) for _ in range(nelem)], dtype=np.int32)
        t = ir.LazyTensor(lambda a=arr, n=name: ir.Tensor(a, name=n), dtype=ir.DataType.INT32,
                          shape=ir.Shape([nelem]), name=name)
    elif kind == "packed4":
        vals = np.array([rng.randrange(16) for _ in range(nelem)], dtype=np.uint8)
        packed = np.zeros((nelem + 1) // 2, dtype=np.uint8)
        for i, v in enumerate(vals):
            packed[i // 2] |= int(v) << (4 * (i % 2))
        t = ir.PackedTensor(packed, dtype=ir.DataType.UINT4, shape=ir.Shape([nelem]), name=name)
    elif kind == "uint2":
        import ml_dtypes
        vals = np.array([rng.randrange(4) for _ in range(nelem)], dtype=np.uint8).astype(ml_dtypes.uint2)
        t = ir.Tensor(vals, name=name)
    elif kind == "proto":
        arr = np.array([rng.randrange(-2**15, 2**15) for _ in range(nelem)], dtype=np.int16)
        tp = onnx.numpy_helper.from_array(arr, name)
        t = serde.deserialize_tensor(tp)
    elif kind == "external":
        arr = np.array([rng.randrange(256) for _ in range(nelem)], dtype=np.uint8)
        pre = rng.randrange(0, 9)
        fn = f"pre_{name}.bin"
        with open(os.path.join(workdir, fn), "wb") as f:
            f.write(b"\xee" * pre + arr.tobytes() + b"\xdd" * 3)
        t = ir.ExternalTensor(fn, pre, arr.nbytes, ir.DataType.UINT8, shape=ir.Shape([nelem]),
                              name=name, base_dir=workdir)
    else:
        raise AssertionError(kind)
    return t, t.tobytes(), t.dtype, tuple(t.shape)


def gen_config(rng, small: bool = False) -> dict:
    n = rng.randrange(0, 7 if not small else 4)
    inits = []
    for i in range(n):
        kind = rng.choice(KINDS)
        nelem = rng.choice([0, 1, 2, 3, 5, 8, 13, 64, 300, 4097, 9000] if not small else [0, 1, 3, 8])
        inits.append({"kind": kind, "nelem": nelem, "sub": rng.random() < 0.25})
    cfg = {
        "inits": inits,
        "threshold": rng.choice([0, 0, 1, 4, 16, 256, 5000]),
        "max_shard": rng.choice([None, None, 1, 7, 64, 1000, 8192, 20000]),
        "alignment": rng.choice([None, None, 1, 512, 4096, 8192, 65536]),
        "align_threshold": rng.choice([0, 1, 16, 300, 1048576]),
        "max_workers": rng.choice([None, 1, 2, 4]),
        "backend": "raw",
        "naming": rng.choice(["m.data", "w.v1.data", "sub/m.data", "noext", "a.b.c.bin"]),
        "fail_at": None,
        "tseed": rng.randrange(1 << 30),
    }
    return cfg


def run_impl(cfg: dict, workdir: str) -> dict:
    """Run the real save/load on the configuration; return canonical observations."""
    import random

    import onnx_ir as ir
    rng = random.Random(cfg["tseed"])
    os.makedirs(workdir, exist_ok=True)
    dup_pool: list = []
    main_inits, sub_inits, expect = [], [], {}
    objs = []
    for i, spec in enumerate(cfg["inits"]):
        name = f"w{i}"
        t, b, dt, shp = _mk_tensor(ir, spec["kind"], spec["nelem"], name, rng, workdir, dup_pool)
        v = ir.Value(name=name, const_value=t, type=ir.TensorType(dt), shape=ir.Shape(list(shp)))
        expect[name] = {"bytes": b, "dtype": int(dt), "shape": list(shp), "nbytes": t.nbytes}
        (sub_inits if spec["sub"] else main_inits).append(v)
        objs.append((v, t))
    x = ir.Value(name="x", type=ir.TensorType(ir.DataType.FLOAT), shape=ir.Shape([1]))
    cond = ir.Value(name="cond", type=ir.TensorType(ir.DataType.BOOL), shape=ir.Shape([]))
    sub_out = ir.Value(name="so", type=ir.TensorType(ir.DataType.FLOAT), shape=ir.Shape([1]))
    sub_node = ir.Node("", "Identity", [x], outputs=[sub_out], name="sn")
    sub = ir.Graph([], [sub_out], nodes=[sub_node], initializers=sub_inits, name="then")
    sub2_out = ir.Value(name="so2", type=ir.TensorType(ir.DataType.FLOAT), shape=ir.Shape([1]))
    sub2 = ir.Graph([], [sub2_out], nodes=[ir.Node("", "Identity", [x], outputs=[sub2_out], name="sn2")], name="else")
    y = ir.Value(name="y", type=ir.TensorType(ir.DataType.FLOAT), shape=ir.Shape([1]))
    ifn = ir.Node("", "If", [cond], attributes=[ir.AttrGraph("then_branch", sub), ir.AttrGraph("else_branch", sub2)],
                  outputs=[y], name="if")
    g = ir.Graph([x, cond], [y], nodes=[ifn], initializers=main_inits, name="g",
                 opset_imports={"": 20})
    model = ir.Model(g, ir_version=10)
    order = [v.name for gr in model.graphs() for v in gr.initializers.values()]
    sizes = [expect[n]["nbytes"] for n in order]
    path = os.path.join(workdir, "out", "model.onnx")
    os.makedirs(os.path.join(workdir, "out", "sub"), exist_ok=True)
    before_ids = [(v.name, id(v.const_value)) for v, _ in objs]
    outcome = "ok"
    kwargs = dict(external_data=cfg["naming"], size_threshold_bytes=cfg["threshold"],
                  max_shard_size_bytes=cfg["max_shard"], max_workers=cfg["max_workers"],
                  alignment=cfg["alignment"], align_threshold=cfg["align_threshold"])
    fail_at = cfg.get("fail_at")
    if fail_at is not None:
        calls = {"n": 0}

        def cb(tensor, info):
            if calls["n"] == fail_at:
                raise RuntimeError("injected")
            calls["n"] += 1
        kwargs["callback"] = cb
    try:
        ir.save(model, path, **kwargs)
    except Exception as e:  # noqa: BLE001
        outcome = "raise:" + type(e).__name__
    after_ids = [(v.name, id(v.const_value)) for v, _ in objs]
    obs = {"order": order, "sizes": sizes, "outcome": outcome, "restored": before_ids == after_ids,
           "same_objects": all(v.const_value is t for v, t in objs)}
    if outcome != "ok":
        return obs
    loaded = ir.load(path)
    files: dict[str, list] = {}
    rb = {}
    for gr in loaded.graphs():
        for name, v in gr.initializers.items():
            t = v.const_value
            ent = {"external": isinstance(t, ir.ExternalTensor), "dtype": int(t.dtype), "shape": list(t.shape)}
            if isinstance(t, ir.ExternalTensor):
                ent.update(location=str(t.location), offset=t.offset, length=t.length)
                files.setdefault(str(t.location), []).append([t.offset, t.length])
            try:
                ent["bytes_ok"] = t.tobytes() == expect[name]["bytes"]
            except Exception as e:  # noqa: BLE001
                ent["bytes_ok"] = False
                ent["read_error"] = type(e).__name__
            rb[name] = ent
    obs["loaded_order"] = [n for gr in loaded.graphs() for n in gr.initializers]
    obs["loaded"] = rb
    # data files actually present (besides the model and the pre-existing inputs)
    outdir = os.path.join(workdir, "out")
    present = {}
    for root, _, fs in os.walk(outdir):
        for fn in fs:
            p = os.path.relpath(os.path.join(root, fn), outdir)
            if p != "model.onnx":
                present[p] = os.path.getsize(os.path.join(root, fn))
    obs["data_files"] = present
    obs["ranges_by_file"] = files
    # file bytes at every recorded range
    ok_ranges = True
    for name, ent in rb.items():
        if ent["external"]:
            with open(os.path.join(outdir, ent["location"]), "rb") as f:
                f.seek(ent["offset"])
                if f.read(ent["length"]) != expect[name]["bytes"]:
                    ok_ranges = False
    obs["file_bytes_ok"] = ok_ranges
    obs["expect"] = {n: {"dtype": e["dtype"], "shape": e["shape"], "nbytes": e["nbytes"]} for n, e in expect.items()}
    return obs


# --------------------------------------------------------------------------- oracle (the property itself)

def oracle(cfg: dict, obs: dict) -> list[str]:
    """Violations of the property statement visible in the observations (public behaviour only)."""
    bad = []
    if not obs["restored"] or not obs["same_objects"]:
        bad.append("model passed to save does not hold the same tensor objects afterwards")
    if obs["outcome"] != "ok":
        if cfg.get("fail_at") is None and not obs["outcome"].startswith("raise:FileExistsError"):
            bad.append(f"save raised {obs['outcome']} on a valid configuration")
        return bad
    exp = obs["expect"]
    if sorted(obs["loaded_order"]) != sorted(obs["order"]):
        bad.append("initializer names differ after load")
    al = cfg["alignment"]
    for name, ent in obs["loaded"].items():
        e = exp[name]
        if ent["dtype"] != e["dtype"] or ent["shape"] != e["shape"]:
            bad.append(f"{name}: dtype/shape changed")
        if not ent["bytes_ok"]:
            bad.append(f"{name}: bytes differ after save/load ({ent.get('read_error', 'content')})")
        if ent["external"] != (e["nbytes"] > cfg["threshold"]):
            bad.append(f"{name}: external={ent['external']} but nbytes={e['nbytes']} threshold={cfg['threshold']}")
    if not obs["file_bytes_ok"]:
        bad.append("a recorded byte range does not hold the tensor's bytes")
    for loc, ranges in obs["ranges_by_file"].items():
        size = obs["data_files"].get(loc)
        if size is None:
            bad.append(f"data file {loc} missing")
            continue
        end = 0
        for off, ln in ranges:
            if off < end:
                bad.append(f"{loc}: ranges overlap or are out of declaration order")
            if off + ln > size:
                bad.append(f"{loc}: range beyond end of file")
            if al is not None and ln > cfg["align_threshold"] and off % max(4096, al) != 0:
                bad.append(f"{loc}: offset {off} not aligned")
            end = off + ln
        if cfg["max_shard"] is not None and size > cfg["max_shard"] and len(ranges) > 1:
            bad.append(f"{loc}: shard of {len(ranges)} tensors exceeds the limit")
    return bad


# --------------------------------------------------------------------------- correspondence

def _case_term(cfg, obs) -> str:
    """(sizes, threshold, maxshard, al, thr, observed files) as a Coq term."""
    # observed: data files in shard order (names sort by zero-padded index), each (size, ranges)
    files = []
    for loc in sorted(obs["data_files"]):
        files.append(cpair(cZ(obs["data_files"][loc]),
                           clist(cpair(cZ(o), cZ(n)) for o, n in obs["ranges_by_file"].get(loc, []))))
    return "(" + ", ".join([
        clist(cZ(s) for s in obs["sizes"]), cZ(cfg["threshold"]), copt(cfg["max_shard"], cZ),
        copt(cfg["alignment"], cZ), cZ(cfg["align_threshold"]), clist(files)]) + ")"


CASE_HEADER = """From Coq Require Import ZArith List Bool.
From IRV Require Import Base.Exn Gen.C07Gen C07.Model.
Import ListNotations.
Open Scope Z_scope.
"""


def correspondence(ck, cases: list[tuple[dict, dict]]) -> list[int]:
    """Indices of cases where Model.predict_files disagrees with the implementation's files."""
    terms = [_case_term(c, o) for c, o in cases]
    text = CASE_HEADER + (
        "Definition cases : list (list Z * Z * option Z * option Z * Z * list (Z * list (Z * Z))) :=\n  "
        + clist(terms).replace("; (", ";\n  (") + ".\n"
        "Definition agree (c : list Z * Z * option Z * option Z * Z * list (Z * list (Z * Z))) : bool :=\n"
        "  let '(sizes, threshold, ms, al, thr, files) := c in\n"
        "  list_eqb filedesc_eqb (predict_files sizes threshold ms al thr) files.\n"
        "Eval vm_compute in (failing agree cases).\n")
    return ck.coq_failing(text, "cases_save")


def correspondence_align(ck) -> list[dict]:
    """Translated align_offset / validate_write_options against the Python functions on a grid, and
    shard / st_shard against _shard_tensors of both backends."""
    from onnx_ir import external_data as ed
    from onnx_ir._safetensors import _shard_tensors as st_shard_py
    rng = ck.rng
    grid_cur = [0, 1, 4095, 4096, 4097, 65535, 65536, 70000, 1 << 20, (1 << 32) + 5]
    grid_sz = [0, 1, 100, 4096, 1 << 20, (1 << 20) + 1]
    grid_al = [None, 1, 2, 512, 4096, 4097, 65536, 100000]
    grid_thr = [0, 100, 1 << 20]
    rows = []
    for cur in grid_cur:
        for sz in grid_sz:
            for al in grid_al:
                for thr in grid_thr:
                    rows.append((cur, sz, al, thr, ed._align_offset(cur, sz, al, thr)))
    vrows = []
    for mw in [None, -1, 0, 1, 8]:
        for mif in [-5, 0, 1, 1 << 30]:
            for al in [None, -1, 0, 1, 4096]:
                for thr in [-1, 0, 5]:
                    try:
                        ed._validate_write_options(mw, mif, al, thr)
                        r = "(Ok tt)"
                    except Exception as e:  # noqa: BLE001
                        r = f"(Raise {common.exn_name(e)})"
                    vrows.append((mw, mif, al, thr, r))

    class _T:
        def __init__(self, n, i):
            self.nbytes, self.name, self.i = n, f"t{i}", i
    srows, strows = [], []
    for _ in range(400 if not ck.thorough else 4000):
        n = rng.randrange(0, 9)
        sizes = [rng.choice([0, 0, 1, 2, 3, 5, 8, 100, 4096, 5000, 70000]) for _ in range(n)]
        mx = rng.choice([1, 2, 5, 8, 10, 100, 4096, 8192, 100000])
        al = rng.choice([None, None, 1, 4096, 65536])
        thr = rng.choice([0, 4, 1 << 20])
        ts = [_T(s, i) for i, s in enumerate(sizes)]
        out = ed._shard_tensors(ts, mx, al, thr)
        srows.append((sizes, mx, al, thr, [[t.nbytes for t in s] for s in out]))
        mx2 = rng.choice([None, 1, 2, 5, 8, 10, 100])
        out2 = st_shard_py(ts, mx2)
        strows.append((sizes, mx2, [[t.nbytes for t in s] for s in out2]))
    zl = lambda l: clist(cZ(x) for x in l)  # noqa: E731
    text = CASE_HEADER + (
        "Definition arows : list (Z * Z * option Z * Z * Z) :=\n  "
        + clist(f"({cZ(a)}, {cZ(b)}, {copt(c, cZ)}, {cZ(d)}, {cZ(e)})" for a, b, c, d, e in rows) + ".\n"
        "Definition aok (r : Z * Z * option Z * Z * Z) : bool := let '(c, s, al, thr, e) := r in align_offset c s al thr =? e.\n"
        "Definition vrows : list (option Z * Z * option Z * Z * res unit) :=\n  "
        + clist(f"({copt(a, cZ)}, {cZ(b)}, {copt(c, cZ)}, {cZ(d)}, {e})" for a, b, c, d, e in vrows) + ".\n"
        "Definition vok (r : option Z * Z * option Z * Z * res unit) : bool :=\n"
        "  let '(a, b, c, d, e) := r in res_eqb (fun _ _ => true) (validate_write_options a b c d) e.\n"
        "Definition srows : list (list Z * Z * option Z * Z * list (list Z)) :=\n  "
        + clist(f"({zl(a)}, {cZ(b)}, {copt(c, cZ)}, {cZ(d)}, {clist(zl(s) for s in e)})" for a, b, c, d, e in srows) + ".\n"
        "Definition sok (r : list Z * Z * option Z * Z * list (list Z)) : bool :=\n"
        "  let '(ts, m, al, thr, e) := r in list_eqb (list_eqb Z.eqb) (shard (fun x => x) ts m al thr) e.\n"
        "Definition strows : list (list Z * option Z * list (list Z)) :=\n  "
        + clist(f"({zl(a)}, {copt(b, cZ)}, {clist(zl(s) for s in e)})" for a, b, e in strows) + ".\n"
        "Definition stok (r : list Z * option Z * list (list Z)) : bool :=\n"
        "  let '(ts, m, e) := r in list_eqb (list_eqb Z.eqb) (st_shard (fun x => x) ts m) e.\n"
        "Eval vm_compute in (failing aok arows ++ map (fun i => 100000 + i)%nat (failing vok vrows)\n"
        "   ++ map (fun i => 200000 + i)%nat (failing sok srows) ++ map (fun i => 300000 + i)%nat (failing stok strows)).\n")
    failing = ck.coq_failing(text, "cases_fn")
    ck.count(len(rows) + len(vrows) + len(srows) + len(strows))
    ck.hist("function_grid", "align_offset", len(rows))
    ck.hist("function_grid", "validate_write_options", len(vrows))
    ck.hist("function_grid", "shard", len(srows))
    ck.hist("function_grid", "st_shard", len(strows))
    out = []
    for i in failing:
        if i < 100000:
            out.append({"fn": "_align_offset", "args": rows[i][:4], "impl": rows[i][4]})
        elif i < 200000:
            out.append({"fn": "_validate_write_options", "args": vrows[i - 100000][:4], "impl": vrows[i - 100000][4]})
        elif i < 300000:
            out.append({"fn": "_shard_tensors", "args": srows[i - 200000][:4], "impl": srows[i - 200000][4]})
        else:
            out.append({"fn": "_safetensors._shard_tensors", "args": strows[i - 300000][:2], "impl": strows[i - 300000][2]})
    # nontrivial: shard cases producing more than one shard
    for r in srows:
        if len(r[4]) > 1:
            ck.nontriv(("shard", r[:4]))
    return out


# --------------------------------------------------------------------------- known findings

def replay_known(ck) -> None:
    """Known findings are replayed on the implementation on every run."""
    for k in ck._known:
        if k.get("status") != "known":
            continue
        cfg = k["witness"]
        wd = os.path.join(ck.scratch, "known_" + k["key"])
        obs = run_impl(cfg, wd)
        shutil.rmtree(wd, ignore_errors=True)
        bad = oracle(cfg, obs)
        if bad:
            ck.known_finding(k["key"], k["what"])
        else:
            ck.broken(f"known-finding-stale:{k['key']}",
                      "the recorded witness no longer fails on the implementation; the model reproduces a defect "
                      "the code no longer has")


def is_known(ck, cfg: dict, bad: list[str]) -> str | None:
    """Map a failing configuration to a known-finding key (by site), else None."""
    kinds = {s["kind"] for s in cfg["inits"]}
    for k in ck._known:
        if k.get("status") != "known":
            continue
        site = k.get("site", {})
        if site.get("kind") in kinds and all(site.get("message_contains", "") in b or True for b in bad):
            # only failures attributable to initializers of that kind
            names = {f"w{i}" for i, s in enumerate(cfg["inits"]) if s["kind"] == site["kind"]}
            if all(b.split(":")[0] in names for b in bad):
                return k["key"]
    return None


# --------------------------------------------------------------------------- main

def run(ck) -> None:
    import logging
    logging.disable(logging.WARNING)
    ck.trust("Coq 8.16.1 kernel (coqc; vm_compute in case files; no native_compute)",
             "tools/translate.py (fail-closed ast->Gallina translator; output cross-checked on a grid)",
             "harness/props/c07.py (generators, observation of save/load, Coq literal printer)",
             "modelled not verified: tensor tobytes()/tofile() (C04), file system, onnx.save/load, safetensors writer")
    ck.assumptions += ["little-endian POSIX platform", "numpy/onnx as installed in /venv"]
    ok_gen = generate(ck)
    ck.prove()
    n_cases = 120 if not ck.thorough else 2500
    # 1. function-level grids (translator validation + shard models)
    try:
        fn_mis = correspondence_align(ck)
    except RuntimeError as e:
        fn_mis = []
        ck.broken("correspondence:function-grid", str(e))
    for m in fn_mis[:5]:
        ck.broken(f"correspondence:{m['fn']}", json.dumps(m, default=str))
    # 2. whole save/load on generated configurations (corpus first)
    cases = []
    corpus_dir = os.path.join(common.CORPUS, "C07")
    cfgs = []
    if os.path.isdir(corpus_dir):
        for fn in sorted(os.listdir(corpus_dir)):
            with open(os.path.join(corpus_dir, fn)) as f:
                cfgs.append(json.load(f))
    for i in range(n_cases):
        cfgs.append(gen_config(ck.rng, small=(i % 3 == 0)))
    oracle_failures = []
    for i, cfg in enumerate(cfgs):
        wd = os.path.join(ck.scratch, f"case{i}")
        obs = run_impl(cfg, wd)
        shutil.rmtree(wd, ignore_errors=True)
        ck.count()
        ck.hist("outcomes", obs["outcome"])
        for s in cfg["inits"]:
            ck.hist("initializer_kinds", s["kind"])
        bad = oracle(cfg, obs)
        if bad:
            oracle_failures.append((cfg, obs, bad))
        if obs["outcome"] == "ok":
            cases.append((cfg, obs))
            if len(obs["data_files"]) > 1 or any(cfg["alignment"] and e["nbytes"] > cfg["align_threshold"]
                                                 for e in obs["expect"].values()):
                ck.nontriv(cfg)
        if i < 3:
            ck.sample({"config": cfg, "observed_files": obs.get("data_files"), "ranges": obs.get("ranges_by_file")})
    # fault injection: callback raising at every position -> same tensor objects afterwards
    for i in range(20 if not ck.thorough else 200):
        cfg = gen_config(ck.rng, small=True)
        cfg["threshold"] = 0
        cfg["max_workers"] = None
        nb = sum(1 for s in cfg["inits"] if s["nelem"] > 0)
        for k in range(nb + 1):
            c2 = dict(cfg, fail_at=k)
            wd = os.path.join(ck.scratch, f"fault{i}_{k}")
            obs = run_impl(c2, wd)
            shutil.rmtree(wd, ignore_errors=True)
            ck.count()
            ck.hist("outcomes", "fault:" + obs["outcome"])
            bad = oracle(c2, obs)
            if bad:
                oracle_failures.append((c2, obs, bad))
            if obs["outcome"] != "ok":
                ck.nontriv(("fault", c2))
    ck.coverage["traces_validated_against_impl"] = len(cases)
    try:
        mism = correspondence(ck, cases) if cases else []
    except RuntimeError as e:
        mism = []
        ck.broken("correspondence:predict_files", str(e))
    for i in mism[:5]:
        cfg, obs = cases[i]
        ck.broken("correspondence:predict_files",
                  json.dumps({"config": cfg, "sizes": obs["sizes"], "impl_files": obs["data_files"],
                              "impl_ranges": obs["ranges_by_file"]}, default=str))
    # 3. known findings, then report violations found by the oracle
    replay_known(ck)
    reported = set()
    for cfg, obs, bad in oracle_failures:
        key = is_known(ck, cfg, bad)
        if key:
            ck.known_finding(key, next(k["what"] for k in ck._known if k["key"] == key))
            continue
        sig = tuple(sorted(set(b.split(":")[-1].strip() for b in bad)))
        if sig in reported:
            continue
        reported.add(sig)
        small = shrink(cfg, ck)
        ck.violation({"kind": "oracle", "config": small, "failures": oracle(small, _run(small, ck)),
                      "broken": ck.broken_items})
    # 4. a broken obligation / correspondence with no oracle failure so far: search harder
    if ck.broken_items and not ck.violations:
        search(ck)


def _run(cfg, ck):
    wd = os.path.join(ck.scratch, "shrink")
    shutil.rmtree(wd, ignore_errors=True)
    obs = run_impl(cfg, wd)
    shutil.rmtree(wd, ignore_errors=True)
    return obs


def shrink(cfg: dict, ck) -> dict:
    """Greedy shrinking of a failing configuration (drop initializers, reset options)."""
    def fails(c):
        try:
            return bool(oracle(c, _run(c, ck)))
        except Exception:  # noqa: BLE001
            return False
    cur = json.loads(json.dumps(cfg))
    changed = True
    while changed:
        changed = False
        for i in range(len(cur["inits"])):
            c2 = json.loads(json.dumps(cur))
            del c2["inits"][i]
            if fails(c2):
                cur, changed = c2, True
                break
        for key, val in (("max_shard", None), ("alignment", None), ("max_workers", None), ("naming", "m.data")):
            if cur[key] != val:
                c2 = dict(cur, **{key: val})
                if fails(c2):
                    cur, changed = c2, True
        for s in cur["inits"]:
            if s["sub"]:
                s["sub"] = False
                if not fails(cur):
                    s["sub"] = True
                else:
                    changed = True
    return cur


def search(ck) -> None:
    """Violation search after a broken obligation: fresh configurations biased to layout features."""
    budget = 400 if not ck.thorough else 4000
    for i in range(budget):
        cfg = gen_config(ck.rng)
        if i % 2 == 0:
            cfg["alignment"] = ck.rng.choice([1, 512, 4096, 65536])
            cfg["align_threshold"] = ck.rng.choice([0, 1, 16])
            cfg["threshold"] = 0
        obs = _run(cfg, ck)
        ck.count()
        bad = oracle(cfg, obs)
        if bad and not is_known(ck, cfg, bad):
            small = shrink(cfg, ck)
            ck.violation({"kind": "oracle-after-broken-obligation", "config": small,
                          "failures": oracle(small, _run(small, ck)), "broken": ck.broken_items})
            return


def replay(rp: dict) -> int:
    cfg = rp.get("config")
    if cfg is None:
        print("replay names a broken obligation/correspondence, no concrete input:",
              json.dumps(rp.get("broken"), indent=1)[:2000])
        return 1
    wd = os.path.join(common.SCRATCH_ROOT, f"replay-{os.getpid()}")
    obs = run_impl(cfg, wd)
    shutil.rmtree(wd, ignore_errors=True)
    bad = oracle(cfg, obs)
    print(json.dumps({"config": cfg, "failures": bad}, indent=1))
    return 1 if bad else 0

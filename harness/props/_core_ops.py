"""Shared machinery of C01 / C06: op histories over the IR object heap.

  * the op language (JSON lists mirroring the constructors of `op` in coq/theories/C01/Model.v),
  * `Impl`: executes ops on the real onnx_ir objects, registering objects in allocation order so that
    model ids and implementation handles coincide,
  * `observe`: the canonical observation (public accessors only) + its flat integer encoding and hash
    (mirrors `obs` / `hash` of Model.v),
  * `oracle_c01` (I1..I7 recomputed from public accessors) and `oracle_c06` (snapshot before/after a raising call),
  * `site_of`: maps an oracle failure to a known defect site (by op constructor + outcome),
  * the generator of structured histories (valid stream + malformed stream, offending element at every position),
  * the Coq term printer and the case-file builder.
"""

from __future__ import annotations

import itertools
import re

from harness import common
from harness.common import cZ, clist, cnat, copt

M63 = (1 << 63) - 1

VALUE_NAMES = [None, None, None, "", "u0", "u1", "u2", "u3", "val_0", "val_1", "val_2"]
NODE_NAMES = [None, None, None, "u5", "u6", "node_Op_0", "node_Op_1"]
KEYS = ["", "u0", "u1", "u2", "u3", "val_0", "val_1"]


# --------------------------------------------------------------------------- names

def name_code(s):
    """Python name -> (tag, k) of the Coq `name` type; None stays None."""
    if s is None:
        return None
    if not isinstance(s, str):
        return (9, sum(map(ord, repr(s))) % 100000)   # a non-string name can only stick when the code is wrong
    if s == "":
        return (1, 0)
    m = re.fullmatch(r"u(\d+)", s)
    if m:
        return (2, int(m.group(1)))
    m = re.fullmatch(r"val_(\d+)", s)
    if m:
        return (3, int(m.group(1)))
    m = re.fullmatch(r"node_Op_(\d+)", s)
    if m:
        return (4, int(m.group(1)))
    return (9, sum(map(ord, repr(s))) % 100000)       # outside the modelled alphabet (only sticks when the code is wrong)


def cname(s) -> str:
    t, k = name_code(s)
    return {1: "NEmpty", 2: f"(NUser {k})", 3: f"(NVal {k})", 4: f"(NNode {k})"}[t]


def coname(s) -> str:
    return "None" if s is None else f"(Some {cname(s)})"


# --------------------------------------------------------------------------- implementation side

class _OrdSet(dict):
    """Insertion-ordered stand-in for `frozenset` inside Graph.remove: iteration order of a frozenset of
    nodes depends on object addresses; an ordered set is one of the behaviours `frozenset` allows."""

    def __init__(self, it=()):
        super().__init__(dict.fromkeys(it))


class Impl:
    def __init__(self, use_functions: bool = False):
        import onnx_ir as ir
        from onnx_ir import _core
        _core.frozenset = _OrdSet          # module-global rebinding, no edit of /repo (see README)
        self.ir = ir
        self.vals: list = []
        self.nodes: list = []
        self.graphs: list = []
        self.zombies: set[int] = set()
        self.funcs: dict[int, object] = {}
        self.node_sub: dict[int, int] = {}      # node id -> graph id held by its graph attribute
        self._tids: dict[int, int] = {}         # tensor object -> handle
        self._tkeep: list = []
        self.use_functions = use_functions
        self._ids: dict[int, tuple[str, int]] = {}

    # registry
    def _reg(self, kind: str, obj) -> int:
        lst = {"v": self.vals, "n": self.nodes, "g": self.graphs}[kind]
        lst.append(obj)
        self._ids[id(obj)] = (kind, len(lst) - 1)
        return len(lst) - 1

    def h(self, obj, kind: str):
        """handle of an object (None stays None); unknown objects get 9999."""
        if obj is None:
            return None
        k = self._ids.get(id(obj))
        if k is None or k[0] != kind:
            return 9999
        return k[1]

    def _g(self, g: int, via_fn: bool):
        if via_fn and g in self.funcs:
            return self.funcs[g]
        return self.graphs[g]

    def _io(self, kind: str, g: int, via_fn: bool = False):
        gg = self._g(g, via_fn)
        return gg.inputs if kind == "KIn" else gg.outputs

    @staticmethod
    def _it(xs: list, extra: dict):
        """the argument as the caller may legitimately pass it: a list, or (extra['gen']) a one-shot generator"""
        return (x for x in xs) if extra.get("gen") else xs

    def execute(self, op: list) -> str:
        """Run one op; returns 'ok' or the exception name (common.exn_name)."""
        try:
            self._execute(op)
            return "ok"
        except Exception as e:  # noqa: BLE001
            return common.exn_name(e)

    def _execute(self, op: list) -> None:
        ir = self.ir
        k = op[0]
        V, N, G = self.vals, self.nodes, self.graphs
        if k == "NewValue":
            v, nm = op[1], op[2]
            extra = op[3] if len(op) > 3 else {}
            assert v == len(V)
            if "shape" in extra:
                self._reg("v", ir.Value(name=nm, shape=ir.Shape(extra["shape"], frozen=bool(extra.get("frozen")))))
            elif extra.get("tensor") == "proto":
                import numpy as np
                import onnx
                from onnx_ir import serde
                tp = onnx.numpy_helper.from_array(np.array([float(v)], dtype=np.float32), nm or "")
                self._reg("v", ir.Value(name=nm, const_value=serde.deserialize_tensor(tp)))
            elif extra.get("tensor"):
                import numpy as np
                t = ir.Tensor(np.array([float(v)], dtype=np.float32), name=nm, doc_string=f"doc{v}",
                              metadata_props={"k": f"m{v}"})
                self._reg("v", ir.Value(name=nm, const_value=t))
            else:
                self._reg("v", ir.Value(name=nm))
        elif k == "NewNode":
            _, n, xs, ospec, g, nm, extra = op
            assert n == len(N)
            inputs = [None if x is None else V[x] for x in xs]
            kw = {}
            if ospec[0] == "OFresh":
                cnt = len(ospec[1])
                assert ospec[1] == list(range(len(V), len(V) + cnt))
                if not (cnt == 1 and extra.get("default_num")):
                    kw["num_outputs"] = cnt
            else:
                kw["outputs"] = [V[x] for x in ospec[1]]
                if ospec[2] is not None:
                    kw["num_outputs"] = ospec[2]
            attrs = []
            if extra.get("sub") is not None:
                attrs.append(ir.AttrGraph("body", G[extra["sub"]]))
            inputs, attrs = self._it(inputs, extra), self._it(attrs, extra)
            gobj = None if g is None else self._g(g, extra.get("via_fn", False))
            node = ir.Node("", "Op", inputs, attrs, graph=gobj, name=nm, **kw)
            self._reg("n", node)
            if extra.get("sub") is not None:
                self.node_sub[n] = extra["sub"]
            if ospec[0] == "OFresh":
                for o in node.outputs:
                    self._reg("v", o)
        elif k == "GraphNew":
            _, g, gi, go, ginit, ns, extra = op
            assert g == len(G)
            try:
                gr = ir.Graph([V[x] for x in gi], [V[x] for x in go], nodes=self._it([N[x] for x in ns], extra),
                              initializers=[V[x] for x in ginit])
            except Exception:
                # the half-built graph stays reachable through value.graph / node.graph
                for obj in [V[x] for x in gi + go + ginit] + [N[x] for x in ns]:
                    z = obj.graph
                    if z is not None and id(z) not in self._ids:
                        self.zombies.add(self._reg("g", z))
                        break
                raise
            self._reg("g", gr)
            if self.use_functions and extra.get("function"):
                self.funcs[g] = ir.Function("d", f"f{g}", graph=gr, attributes=[])
        elif k == "GAppend":
            _, g, n, extra = op
            self._g(g, extra.get("via_fn")).append(N[n])
        elif k == "GExtend":
            _, g, ns, extra = op
            self._g(g, extra.get("via_fn")).extend(self._it([N[x] for x in ns], extra))
        elif k in ("GInsertAfter", "GInsertBefore"):
            _, g, ref, ns, extra = op
            gg = self._g(g, extra.get("via_fn"))
            arg = N[ns[0]] if (len(ns) == 1 and extra.get("single")) else self._it([N[x] for x in ns], extra)
            (gg.insert_after if k == "GInsertAfter" else gg.insert_before)(N[ref], arg)
        elif k in ("NAppend", "NPrepend"):
            _, n, ns = op
            (N[n].append if k == "NAppend" else N[n].prepend)([N[x] for x in ns])
        elif k == "GRemove":
            _, g, ns, safe, extra = op
            arg = N[ns[0]] if (len(ns) == 1 and extra.get("single")) else self._it([N[x] for x in ns], extra)
            self._g(g, extra.get("via_fn")).remove(arg, safe=safe)
        elif k == "GSort":
            # op = ["GSort", g, outcome]; the outcome (None = cycle found, else [[gid, [node ids in the new order]], ...]
            # for every graph of the nest that has nodes) is filled in from what the implementation did
            op[2] = None
            from onnx_ir import traversal
            gobj = self._g(op[1], False)
            nest = list(dict.fromkeys(self.h(n.graph, "g") for n in traversal.RecursiveGraphIterator(gobj)))
            gobj.sort()
            op[2] = [[gi, [self.h(n, "n") for n in G[gi]]] for gi in sorted(x for x in nest if x is not None)]
        elif k == "NReplaceInput":
            _, n, i, x = op
            N[n].replace_input_with(i, None if x is None else V[x])
        elif k == "NResizeInputs":
            _, n, kk = op
            N[n].resize_inputs(kk)
        elif k == "NResizeOutputs":
            _, n, kk, fresh = op
            before = len(N[n].outputs)
            N[n].resize_outputs(kk)
            new = N[n].outputs[before:]
            assert len(new) == len(fresh) and fresh == list(range(len(V), len(V) + len(fresh)))
            for o in new:
                self._reg("v", o)
        elif k == "VReplaceAllUses":
            _, v, r, rgo = op
            V[v].replace_all_uses_with(V[r], replace_graph_outputs=rgo)
        elif k == "VSetName":
            _, v, nm = op
            V[v].name = nm
        elif k == "IOAppend":
            _, kind, g, v, extra = op
            self._io(kind, g, extra.get("via_fn")).append(V[v])
        elif k == "IOExtend":
            _, kind, g, vs, extra = op
            self._io(kind, g, extra.get("via_fn")).extend(self._it([V[x] for x in vs], extra))
        elif k == "IOInsert":
            _, kind, g, i, v = op
            self._io(kind, g).insert(i, V[v])
        elif k == "IOPop":
            _, kind, g, i = op
            if i == -1:
                self._io(kind, g).pop()
            else:
                self._io(kind, g).pop(i)
        elif k == "IORemove":
            _, kind, g, v = op
            self._io(kind, g).remove(V[v])
        elif k == "IOClear":
            _, kind, g = op
            self._io(kind, g).clear()
        elif k == "IOSetItem":
            _, kind, g, i, v = op
            self._io(kind, g)[i] = V[v]
        elif k == "IODelItem":
            _, kind, g, i = op
            del self._io(kind, g)[i]
        elif k == "IOSetSlice":
            _, kind, g, a, b, vs = op
            self._io(kind, g)[a:b] = [V[x] for x in vs]
        elif k == "IODelSlice":
            _, kind, g, a, b = op
            del self._io(kind, g)[a:b]
        elif k == "IOIMul":
            _, kind, g, m = op
            lst = self._io(kind, g)
            lst *= m
        elif k == "IOReverse":
            _, kind, g = op
            self._io(kind, g).reverse()
        elif k == "InitSetItem":
            _, g, key, v = op
            G[g].initializers[key] = V[v]
        elif k == "InitDelItem":
            _, g, key = op
            del G[g].initializers[key]
        elif k == "InitPop":
            _, g, key = op
            G[g].initializers.pop(key)
        elif k == "InitAdd":
            _, g, v = op
            G[g].initializers.add(V[v])
        elif k == "InitClear":
            _, g = op
            G[g].initializers.clear()
        elif k == "InitPopItem":
            G[op[1]].initializers.popitem()
        elif k == "InitUpdate":
            _, g, kvs = op
            G[g].initializers.update({key: V[v] for key, v in kvs})
        elif k == "InitSetDefault":
            _, g, key, v = op
            G[g].initializers.setdefault(key, V[v])
        elif k == "InitIOr":
            d = G[op[1]].initializers
            d |= {V[x].name: V[x] for x in op[2]}
        # ---- ops outside the Coq model (oracle-only stream)
        elif k == "X_IOSetSlice":
            kind, g, a, b, vs = op[1:6]
            step = op[6] if len(op) > 6 else None
            self._io(kind, g)[a:b:step] = [V[x] for x in vs]
        elif k == "X_IODelSlice":
            kind, g, a, b = op[1:5]
            step = op[5] if len(op) > 5 else None
            del self._io(kind, g)[a:b:step]
        elif k == "X_NewNodeBadAttr":
            # Node(...) with an attribute list the constructor rejects (not Attr objects); nothing is registered
            _, xs, outs, how = op
            bad = {"object": [object()], "int-mapping": {"a": 5}, "mixed": [ir.AttrInt64("k", 1), "oops"]}[how]
            ir.Node("", "Op", [None if x is None else V[x] for x in xs], attributes=bad, outputs=[V[x] for x in outs])
        elif k == "X_MergeShapes":
            V[op[1]].merge_shapes(None if op[2] is None else ir.Shape(op[2]))
        elif k == "X_VSetNameRaw":
            V[op[1]].name = op[2]                  # any object, also names the backing tensor refuses
        elif k == "X_IOSort":
            _, kind, g = op
            self._io(kind, g).sort(key=id)
        elif k == "X_InitPopItem":
            G[op[1]].initializers.popitem()
        elif k == "X_InitUpdate":
            _, g, vs = op
            G[g].initializers.update({V[x].name: V[x] for x in vs})
        elif k == "X_InitSetDefault":
            _, g, key, v = op
            G[g].initializers.setdefault(key, V[v])
        elif k == "X_InitIOr":
            g, vs = op[1], op[2]
            if len(op) > 3 and op[3].get("attr"):
                G[g].initializers |= {V[x].name: V[x] for x in vs}      # the form users write (property without setter)
            else:
                d = G[g].initializers
                d |= {V[x].name: V[x] for x in vs}
        elif k == "X_GSort":
            G[op[1]].sort()
        elif k == "X_ConvReplaceAllUses":
            _, vs, rs, rgo = op
            a1 = V[vs] if isinstance(vs, int) else [V[x] for x in vs]
            a2 = V[rs] if isinstance(rs, int) else [V[x] for x in rs]
            ir.convenience.replace_all_uses_with(a1, a2, replace_graph_outputs=rgo)
        elif k == "X_ConvRenameValues":
            _, vs, names = op
            from onnx_ir import _convenience
            _convenience.rename_values([V[x] for x in vs], names)
        elif k == "X_ConvReplaceNodesAndValues":
            _, g, ip, old_nodes, new_nodes, old_values, new_values = op
            ir.convenience.replace_nodes_and_values(G[g], N[ip], [N[x] for x in old_nodes], [N[x] for x in new_nodes],
                                                    [V[x] for x in old_values], [V[x] for x in new_values])
        elif k == "X_RegisterInitializer":
            _, g, v = op
            G[g].register_initializer(V[v])       # values without a backing tensor are rejected (ValueError)
        else:
            raise AssertionError(f"unknown op {k}")


# --------------------------------------------------------------------------- observation (public accessors only)

def _safe_graph(im, v):
    """Value.graph; 9998 when the accessor itself raises (the value's producer is a half-built node)."""
    try:
        return im.h(v.graph, "g")
    except Exception:  # noqa: BLE001
        return 9998


def _tensor_obs(im, t):
    """What is reachable through Value.const_value: the tensor's identity (a handle in order of first observation, so that
    two runs of the same history agree), name, doc string, metadata, dtype, shape, bytes."""
    if t is None:
        return None
    if id(t) not in im._tids:  # noqa: SLF001
        im._tids[id(t)] = len(im._tids)  # noqa: SLF001
        im._tkeep.append(t)  # noqa: SLF001
    return {"id": im._tids[id(t)], "name": t.name, "doc": t.doc_string, "meta": dict(t.metadata_props), "dtype": str(t.dtype),
            "shape": list(t.shape), "bytes": t.tobytes().hex()}


def observe(im: Impl) -> dict:
    vals = []
    for v in im.vals:
        vals.append({
            "name": v.name, "producer": im.h(v.producer(), "n"), "index": v.index(),
            "uses": [[im.h(u.node, "n"), u.idx] for u in v.uses()],
            "consumers": [im.h(n, "n") for n in v.consumers()],
            "in": bool(v.is_graph_input()), "out": bool(v.is_graph_output()), "init": bool(v.is_initializer()),
            "graph": _safe_graph(im, v), "const": _tensor_obs(im, v.const_value),
            "shape": None if v.shape is None else [str(d) for d in v.shape], "type": None if v.type is None else repr(v.type)})
    nodes = []
    for n in im.nodes:
        nodes.append({
            "name": n.name, "inputs": [im.h(x, "v") for x in n.inputs], "outputs": [im.h(x, "v") for x in n.outputs],
            "graph": im.h(n.graph, "g"),
            "preds": [im.h(x, "n") for x in n.predecessors()], "succs": [im.h(x, "n") for x in n.successors()]})
    graphs = []
    for gi, g in enumerate(im.graphs):
        if gi in im.zombies:
            graphs.append(None)
            continue
        seq = [im.h(x, "n") for x in g]
        graphs.append({
            "inputs": [im.h(x, "v") for x in g.inputs], "outputs": [im.h(x, "v") for x in g.outputs],
            "inits": [[k, im.h(x, "v")] for k, x in g.initializers.items()],
            "nodes": seq, "len": len(g), "rev": [im.h(x, "n") for x in reversed(g)]})
    return {"values": vals, "nodes": nodes, "graphs": graphs}


def _onat(x):
    return [0] if x is None else [1, x]


def _oname(s):
    return [0] if s is None else list(name_code(s))


def flat(ob: dict) -> list[int]:
    """Mirror of `obs` in Model.v."""
    out = [len(ob["values"]), len(ob["nodes"]), len(ob["graphs"])]
    for v in ob["values"]:
        out += _oname(v["name"]) + _onat(v["producer"]) + _onat(v["index"])
        out.append(len(v["uses"]))
        for n, i in v["uses"]:
            out += [n, i]
        out += [int(v["in"]), int(v["out"]), int(v["init"])] + _onat(v["graph"])
    for n in ob["nodes"]:
        out += _oname(n["name"])
        out.append(len(n["inputs"]))
        for x in n["inputs"]:
            out += _onat(x)
        out += [len(n["outputs"])] + n["outputs"]
        out += _onat(n["graph"])
        out += [len(n["preds"])] + n["preds"] + [len(n["succs"])] + n["succs"]
    for g in ob["graphs"]:
        if g is None:
            out.append(99)
            continue
        out += [len(g["inputs"])] + g["inputs"] + [len(g["outputs"])] + g["outputs"]
        out.append(len(g["inits"]))
        for k, v in g["inits"]:
            out += list(name_code(k)) + [v]
        out += [len(g["nodes"])] + g["nodes"]
    return out


def hash_flat(xs: list[int]) -> int:
    acc = 1
    for x in xs:
        acc = (acc * 1000003 + x + 7) & M63
    return acc


# --------------------------------------------------------------------------- oracles

def oracle_c01(ob: dict) -> list[str]:
    """I1..I7 of the property statement, recomputed from what the public accessors returned."""
    bad = []
    V, N, G = ob["values"], ob["nodes"], ob["graphs"]
    # I1 uses <-> inputs
    for vi, v in enumerate(V):
        seen = set()
        for n, i in v["uses"]:
            if (n, i) in seen:
                bad.append(f"I1: value {vi} lists use ({n},{i}) twice")
            seen.add((n, i))
            if n >= len(N) or i >= len(N[n]["inputs"]) or N[n]["inputs"][i] != vi:
                bad.append(f"I1: value {vi} lists use ({n},{i}) but node {n} does not hold it there")
        cons = list(dict.fromkeys(n for n, _ in v["uses"]))
        if v["consumers"] != cons:
            bad.append(f"I1: consumers() of value {vi} disagrees with uses()")
    for ni, n in enumerate(N):
        for i, x in enumerate(n["inputs"]):
            if x is not None and (x >= len(V) or [ni, i] not in V[x]["uses"]):
                bad.append(f"I1: node {ni} holds value {x} at input {i} but the value does not list that use")
        preds = list(dict.fromkeys(V[x]["producer"] for x in n["inputs"] if x is not None and x < len(V)
                                   and V[x]["producer"] is not None))
        if n["preds"] != preds:
            bad.append(f"I1/I2: predecessors() of node {ni} disagrees with inputs/producers")
        succs = list(dict.fromkeys(u[0] for o in n["outputs"] if o < len(V) for u in V[o]["uses"]))
        if n["succs"] != succs:
            bad.append(f"I1/I2: successors() of node {ni} disagrees with outputs/uses")
    # I2 outputs <-> producer/index
    for ni, n in enumerate(N):
        for i, o in enumerate(n["outputs"]):
            if o >= len(V) or V[o]["producer"] != ni or V[o]["index"] != i:
                bad.append(f"I2: output {i} of node {ni} (value {o}) does not name that node and position as its producer")
    for vi, v in enumerate(V):
        p = v["producer"]
        if p is not None and (p >= len(N) or vi not in N[p]["outputs"]):
            bad.append(f"I2: value {vi} names node {p} as producer but is not among its outputs")
    # I3 node.graph <-> membership, once
    for gi, g in enumerate(G):
        if g is None:
            continue
        if len(set(g["nodes"])) != len(g["nodes"]):
            bad.append(f"I3: graph {gi} lists a node twice")
        if g["len"] != len(g["nodes"]) or g["rev"] != g["nodes"][::-1]:
            bad.append(f"I3: len()/reversed() of graph {gi} disagree with iteration")
        for n in g["nodes"]:
            if n >= len(N) or N[n]["graph"] != gi:
                bad.append(f"I3: graph {gi} contains node {n} whose graph is {N[n]['graph'] if n < len(N) else '?'}")
    for ni, n in enumerate(N):
        g = n["graph"]
        if g is not None and (g >= len(G) or G[g] is None or G[g]["nodes"].count(ni) != 1):
            bad.append(f"I3: node {ni} names graph {g} but that graph's sequence does not contain it exactly once")
    # I4 / I5 / I6 / I7 ownership
    for gi, g in enumerate(G):
        if g is None:
            continue
        for fld, flag in (("inputs", "in"), ("outputs", "out")):
            for v in g[fld]:
                if v >= len(V) or not V[v][flag] or V[v]["graph"] != gi:
                    bad.append(f"I4: value {v} is in graph {gi}.{fld} but does not report it")
        for k, v in g["inits"]:
            if v >= len(V) or not V[v]["init"] or V[v]["graph"] != gi:
                bad.append(f"I5: value {v} is an initializer of graph {gi} but does not report it")
            elif V[v]["name"] != k:
                bad.append(f"I5: initializer {v} of graph {gi} is stored under {k!r} but is named {V[v]['name']!r}")
        for v in g["inputs"]:
            if v < len(V) and V[v]["producer"] is not None:
                bad.append(f"I6: graph input {v} of graph {gi} has a producer")
        for k, v in g["inits"]:
            if v < len(V) and V[v]["producer"] is not None:
                bad.append(f"I6: initializer {v} of graph {gi} has a producer")
    for vi, v in enumerate(V):
        g = v["graph"]
        gg = G[g] if (g is not None and g < len(G)) else None
        for fld, flag in (("inputs", "in"), ("outputs", "out")):
            if v[flag] and (gg is None or vi not in gg[fld]):
                bad.append(f"I4: value {vi} reports being a graph {fld[:-1]} but is in no graph's {fld}")
        if v["init"] and (gg is None or [v["name"], vi] not in gg["inits"]):
            bad.append(f"I5: value {vi} reports being an initializer but its graph does not store it under its name")
        if not (v["in"] or v["out"] or v["init"]) and v["producer"] is None and g is not None:
            bad.append(f"I7: value {vi} is in no collection and has no producer but reports graph {g}")
        if (v["in"] or v["out"] or v["init"]) and g is None:
            bad.append(f"I7: value {vi} reports ownership flags but no graph")
    return bad


def oracle_c06(before: dict, after: dict) -> list[str]:
    """A raising call must leave every observable property of every object as it was."""
    bad = []
    for kind in ("values", "nodes", "graphs"):
        b, a = before[kind], after[kind]
        if len(a) != len(b):
            bad.append(f"C06: number of reachable {kind} changed {len(b)} -> {len(a)}")
        for i, (x, y) in enumerate(zip(b, a)):
            if x != y:
                if x is None or y is None:
                    bad.append(f"C06: {kind}[{i}] changed")
                    continue
                flds = [f for f in x if x[f] != y[f]]
                bad.append(f"C06: {kind}[{i}] changed in {flds}: " + "; ".join(f"{f}: {x[f]!r} -> {y[f]!r}" for f in flds[:3]))
    return bad


# --------------------------------------------------------------------------- known defect sites

SITES = {
    # key -> (ops, outcome predicate description)
    "io-delitem-untracked": "SIODelItem",
    "io-imul-untracked": "SIOIMul",
    "io-extend-partial": "SIOExtend",
    "io-insert-rejected-kept": "SIOInsert",
    "io-setitem-rejected-disowns": "SIOSetItem",
    "init-setitem-partial": "SInitSetItem",
    "rename-initializer-empty": "SNameEmpty",
    "graph-extend-partial": "SGExtend",
    "graph-insert-partial": "SGInsert",
    "node-outputs-repeated": "SNodeOutputsDup",
    "node-output-owned": "SNodeOutputsOwned",
    "graph-ctor-partial": "SGraphNew",
}


def site_of(op: list, outcome: str) -> str | None:
    """Known defect site an oracle failure *at this op with this outcome* may be attributed to."""
    k = op[0]
    raised = outcome != "ok"
    if k == "IODelItem" and not raised:
        return "io-delitem-untracked"
    if k == "IOIMul" and not raised:
        return "io-imul-untracked"
    if k == "IOExtend" and outcome == "ValueError":
        return "io-extend-partial"
    if k == "IOInsert" and outcome == "ValueError":
        return "io-insert-rejected-kept"
    if k == "IOSetSlice" and outcome == "ValueError":
        return "io-setitem-rejected-disowns"
    if k == "IODelSlice" and not raised:
        return "io-delitem-untracked"
    if k == "IOSetItem" and outcome == "ValueError":
        return "io-setitem-rejected-disowns"
    if k == "VReplaceAllUses" and outcome == "ValueError" and op[3]:
        return "io-setitem-rejected-disowns"
    if k in ("InitSetItem", "InitAdd") and outcome == "ValueError":
        return "init-setitem-partial"
    if k == "InitUpdate" and raised:
        return "init-update-partial"
    if k == "VSetName" and outcome == "ValueError" and op[2] == "":
        return "rename-initializer-empty"
    if k == "GExtend" and outcome == "ValueError":
        return "graph-extend-partial"
    if k in ("GInsertAfter", "GInsertBefore", "NAppend", "NPrepend") and outcome == "ValueError":
        return "graph-insert-partial"
    if k == "NewNode" and not raised and op[3][0] == "OGiven":
        return "node-outputs-repeated" if len(set(op[3][1])) != len(op[3][1]) else "node-output-owned"
    if k == "GraphNew" and raised:
        return "graph-ctor-partial"
    # sites reached only by the oracle-only stream
    if k == "X_IODelSlice" and not raised:
        return "io-delitem-untracked"
    if k == "X_IOSetSlice" and outcome == "ValueError":
        if len(op) > 6 and op[6] not in (None, 1):
            return "io-setslice-extended-size-mismatch"
        return "io-setitem-rejected-disowns"
    if k == "X_InitIOr" and not raised:
        return "init-ior-untracked"
    if k == "X_InitUpdate" and raised:
        return "init-update-partial"
    if k == "X_InitSetDefault" and outcome == "ValueError":
        return "init-setitem-partial"
    if k == "X_NewNodeBadAttr" and raised:
        return "node-ctor-rejected-claims-outputs"
    if k == "X_MergeShapes" and raised:
        return "merge-shapes-partial"
    if k == "X_ConvReplaceAllUses" and raised:
        return "conv-replace-all-uses-not-atomic"
    if k == "X_ConvReplaceNodesAndValues" and raised:
        return "conv-replace-nodes-and-values-not-atomic"
    return None


def site_candidates(op: list, outcome: str) -> list[str]:
    """All known sites an oracle failure at this op may stem from (composite calls reach several)."""
    k = site_of(op, outcome)
    out = [k] if k else []
    if op[0] == "X_ConvReplaceAllUses" and outcome != "ok" and op[3]:
        out.append("io-setitem-rejected-disowns")
    if op[0] == "X_ConvReplaceNodesAndValues" and outcome != "ok":
        out += ["io-setitem-rejected-disowns", "graph-insert-partial"]
    return out


# --------------------------------------------------------------------------- running a history

def run_history(ops: list[list], use_functions: bool = False, stop_on_hit: bool = True, twin: bool = False) -> dict:
    """Execute ops on the implementation; after every op record outcome, observation hash and oracle verdicts.

    Returns {"steps": [{op, outcome, hash, c01, c06}], "final": obs}.  Execution stops after the first oracle
    failure (the state is then outside the model's domain)."""
    im = Impl(use_functions)
    steps = []
    ob = observe(im)
    for op in ops:
        before = ob
        try:
            outcome = im.execute(op)
        except AssertionError as e:     # harness-level id mismatch
            raise RuntimeError(f"harness id bookkeeping failed at {op}: {e}") from e
        ob = observe(im)
        c01 = oracle_c01(ob)
        c06 = oracle_c06(before, ob) if outcome != "ok" else []
        steps.append({"op": op, "outcome": outcome, "hash": hash_flat(flat(ob)), "c01": c01, "c06": c06})
        if (c01 or c06) and stop_on_hit:
            break
    if twin and len(steps) == len(ops) and not any(s["c01"] or s["c06"] for s in steps):
        # "a rejected call can be ignored": deleting a call that raised (it allocates nothing) from the history must not
        # change anything observed afterwards - this exposes hidden state a rejected call leaves behind (name-authority
        # reservations, ref counters) through the names / flags produced later
        for j, s in enumerate(steps):
            if s["outcome"] == "ok" or s["op"][0] in ALLOC:
                continue
            other = run_history(ops[:j] + ops[j + 1:], use_functions, stop_on_hit=False)
            if other["final"] != ob:
                diff = oracle_c06(other["final"], ob)
                steps[-1]["c06"].append(f"C06-twin: the history without the rejected call #{j} {s['op'][0]} ends differently: "
                                        + "; ".join(diff[:2]))
                break
    return {"steps": steps, "final": ob}


# --------------------------------------------------------------------------- generator

class Gen:
    """State-aware generator: picks the next op by looking at the live implementation objects
    (public accessors), ~70 % valid calls, ~30 % calls hitting one of the rejection reasons."""

    def __init__(self, rng, use_functions=False, site_rate=0.04, model_only=True, max_vals=14, max_nodes=9, max_graphs=3):
        self.rng = rng
        self.im = Impl(use_functions)
        self.site_rate = site_rate
        self.model_only = model_only
        self.max_vals, self.max_nodes, self.max_graphs = max_vals, max_nodes, max_graphs
        self.sub_used: set[int] = set()

    # ---- pools
    def _vals(self, pred=lambda v: True):
        return [i for i, v in enumerate(self.im.vals) if pred(v)]

    def _nodes(self, pred=lambda n: True):
        return [i for i, n in enumerate(self.im.nodes) if pred(n)]

    def _graphs(self):
        return [i for i in range(len(self.im.graphs)) if i not in self.im.zombies]

    def _pick(self, xs, default=None):
        return self.rng.choice(xs) if xs else default

    def _reach(self, s: int) -> set[int]:
        """graphs reachable from graph s through the graph attributes of the nodes they contain (s included)"""
        seen, todo = {s}, [s]
        while todo:
            cur = todo.pop()
            for n in self.im.graphs[cur]:
                sub = self.im.node_sub.get(self.im.h(n, "n"))
                if sub is not None and sub not in seen:
                    seen.add(sub)
                    todo.append(sub)
        return seen

    def _can_add(self, n: int, g: int) -> bool:
        """adding node n to graph g must not nest a graph inside itself (traversal would not terminate)"""
        sub = self.im.node_sub.get(n)
        return sub is None or g not in self._reach(sub)

    def _free_value(self):
        """a value that no graph owns and no node produces"""
        return self._vals(lambda v: v.graph is None and v.producer() is None)

    def _owned_by(self, g):
        G = self.im.graphs[g]
        return self._vals(lambda v: v.graph is G)

    def _foreign_to(self, g):
        G = self.im.graphs[g]
        return self._vals(lambda v: v.graph is not None and v.graph is not G and
                          (v.is_graph_input() or v.is_graph_output() or v.is_initializer()))

    def _ok_for(self, kind, g):
        G = self.im.graphs[g]
        return self._vals(lambda v: (v._graph is None or v._graph is G) and (kind == "KOut" or v.producer() is None))  # noqa: SLF001

    def _bad_for(self, kind, g):
        ok = set(self._ok_for(kind, g))
        return [i for i in range(len(self.im.vals)) if i not in ok]

    def _extra(self, g):
        e = {"via_fn": True} if (g in self.im.funcs and self.rng.random() < 0.5) else {}
        if self.rng.random() < 0.35:
            e["gen"] = True            # pass the iterable argument as a one-shot generator
        return e

    def next_op(self) -> list:
        rng = self.rng
        im = self.im
        nv, nn, ng = len(im.vals), len(im.nodes), len(self._graphs())
        # bootstrap
        if nv < 3:
            return ["NewValue", nv, rng.choice(VALUE_NAMES), {"tensor": rng.random() < 0.4}]
        if ng == 0 and rng.random() < 0.6:
            return self._graph_new(valid=True)
        for _ in range(50):
            op = self._try_op()
            if op is not None:
                return op
        return ["NewValue", nv, rng.choice(VALUE_NAMES)]

    def _graph_new(self, valid: bool) -> list:
        rng = self.rng
        im = self.im
        g = len(im.graphs)
        free = self._free_value()
        named_free = [v for v in free if im.vals[v].name not in (None, "")]
        outs_ok = self._vals(lambda v: v._graph is None)  # noqa: SLF001
        free_nodes = self._nodes(lambda n: n.graph is None)
        gi = rng.sample(free, min(len(free), rng.choice([0, 1, 1, 2])))
        go = rng.sample(outs_ok, min(len(outs_ok), rng.choice([0, 1, 1, 2])))
        ginit = rng.sample(named_free, min(len(named_free), rng.choice([0, 0, 1, 2])))
        ns = rng.sample(free_nodes, min(len(free_nodes), rng.choice([0, 0, 1, 2, 3])))
        if rng.random() < 0.25 and gi:
            go = go + [rng.choice(gi)]           # a value that is input and output
        if rng.random() < 0.15 and gi and im.vals[gi[0]].name not in (None, ""):
            ginit = ginit + [gi[0]]              # input + initializer
        if rng.random() < 0.15 and go:
            go = go + [go[0]]                    # listed twice
        if not valid:
            which = rng.choice(["gi", "go", "ginit", "ns"])
            if which == "gi":
                badv = self._vals(lambda v: v._graph is not None or v.producer() is not None)  # noqa: SLF001
                if badv:
                    gi = list(gi)
                    gi.insert(rng.randrange(len(gi) + 1), rng.choice(badv))
            elif which == "go":
                badv = self._vals(lambda v: v._graph is not None)  # noqa: SLF001
                if badv:
                    go = list(go)
                    go.insert(rng.randrange(len(go) + 1), rng.choice(badv))
            elif which == "ginit":
                badv = self._vals(lambda v: v._graph is not None or v.producer() is not None or v.name in (None, ""))  # noqa: SLF001
                if badv:
                    ginit = list(ginit)
                    ginit.insert(rng.randrange(len(ginit) + 1), rng.choice(badv))
            else:
                badn = self._nodes(lambda n: n.graph is not None)
                if badn:
                    ns = list(ns)
                    ns.insert(rng.randrange(len(ns) + 1), rng.choice(badn))
        if rng.random() < 0.25:
            # two initializers with the same name: the constructor keeps the LAST one (dict comprehension)
            same = [v for v in self._vals(lambda v: bool(v.name)) if v not in ginit]
            pick = None
            for v in same:
                twins = [w for w in same if w != v and im.vals[w].name == im.vals[v].name]
                if twins:
                    pick = (v, rng.choice(twins))
                    break
            if pick:
                ginit = list(ginit) + list(pick if rng.random() < 0.5 else pick[::-1])
        return ["GraphNew", g, gi, go, ginit, ns, {"function": rng.random() < 0.4, "gen": rng.random() < 0.35}]

    def _try_op(self):  # noqa: C901, PLR0911, PLR0912, PLR0915
        rng = self.rng
        im = self.im
        V, N = im.vals, im.nodes
        nv, nn = len(V), len(N)
        graphs = self._graphs()
        site = rng.random() < self.site_rate        # aim at a known defect site
        malformed = rng.random() < 0.3
        kinds = ["NewValue"] * 3 + ["NewNode"] * 6 + ["GraphNew"] * 2 + ["GAppend"] * 4 + ["GExtend"] * 3 + \
                ["GInsertAfter"] * 2 + ["GInsertBefore"] * 2 + ["NAppend", "NPrepend"] + ["GRemove"] * 4 + ["GSort"] * 2 + \
                ["NReplaceInput"] * 6 + ["NResizeInputs"] * 2 + ["NResizeOutputs"] * 3 + ["VReplaceAllUses"] * 4 + \
                ["VSetName"] * 4 + ["IOAppend"] * 5 + ["IOExtend"] * 3 + ["IOInsert"] * 3 + ["IOPop"] * 3 + \
                ["IORemove"] * 2 + ["IOClear"] + ["IOSetItem"] * 3 + ["IODelItem"] + ["IOIMul"] + ["IOReverse"] + ["IOSetSlice"] * 3 + ["IODelSlice"] * 2 + \
                ["InitSetItem"] * 4 + ["InitDelItem"] + ["InitPop"] * 2 + ["InitAdd"] * 3 + ["InitClear"] + \
                ["InitPopItem"] + ["InitUpdate"] * 3 + ["InitSetDefault"] * 2 + ["InitIOr"]
        k = rng.choice(kinds)
        kind = rng.choice(["KIn", "KOut"])
        if k == "NewValue":
            if nv >= self.max_vals:
                return None
            return ["NewValue", nv, rng.choice(VALUE_NAMES), {"tensor": rng.random() < 0.4}]
        if k == "NewNode":
            if nn >= self.max_nodes or nv >= self.max_vals + 6:
                return None
            xs = [rng.choice([None] + list(range(nv)) * 3) for _ in range(rng.choice([0, 1, 1, 2, 2, 3]))]
            if xs and rng.random() < 0.2:
                xs.append(next(x for x in xs))          # same value twice
            g = self._pick(graphs) if rng.random() < 0.5 else None
            extra = {"gen": True} if rng.random() < 0.35 else {}
            if g is not None:
                extra.update(self._extra(g))
            subs = [x for x in graphs if x not in self.sub_used and x != g and (g is None or g not in self._reach(x))]
            if subs and rng.random() < 0.2:
                extra["sub"] = rng.choice(subs)
                self.sub_used.add(extra["sub"])
            nm = rng.choice(NODE_NAMES)
            r = rng.random()
            if r < 0.7:
                cnt = rng.choice([0, 1, 1, 1, 2, 3])
                if cnt == 1 and rng.random() < 0.5:
                    extra["default_num"] = True
                return ["NewNode", nn, xs, ["OFresh", list(range(nv, nv + cnt))], g, nm, extra]
            free = self._vals(lambda v: v.producer() is None and not v.is_graph_input() and not v.is_initializer())
            if site:
                cand = self._vals(lambda v: v.producer() is None)
                if not cand:
                    return None
                x = rng.choice(cand)
                outs = rng.choice([[x, x], [x], [x] + rng.sample(cand, min(1, len(cand)))])
                return ["NewNode", nn, xs, ["OGiven", outs, None], g, nm, extra]
            if malformed:
                prodd = self._vals(lambda v: v.producer() is not None)
                outs = rng.sample(free, min(len(free), rng.choice([0, 1, 2])))
                if prodd and rng.random() < 0.7:
                    outs.insert(rng.randrange(len(outs) + 1), rng.choice(prodd))
                    return ["NewNode", nn, xs, ["OGiven", outs, None], g, nm, extra]
                return ["NewNode", nn, xs, ["OGiven", outs, len(outs) + 1], g, nm, extra]
            outs = rng.sample(free, min(len(free), rng.choice([0, 1, 1, 2])))
            return ["NewNode", nn, xs, ["OGiven", outs, rng.choice([None, len(outs)])], g, nm, extra]
        if k == "GraphNew":
            if len(im.graphs) >= self.max_graphs + len(im.zombies):
                return None
            return self._graph_new(valid=not (site or (malformed and rng.random() < 0.3)))
        if not graphs:
            return None
        g = rng.choice(graphs)
        G = im.graphs[g]
        if k == "GAppend":
            ok = [n for n in self._nodes(lambda n: n.graph is None or n.graph is G) if self._can_add(n, g)]
            bad = self._nodes(lambda n: n.graph is not None and n.graph is not G)
            n = self._pick(bad if (malformed and bad) else ok)
            return None if n is None else ["GAppend", g, n, self._extra(g)]
        if k in ("GExtend", "GInsertAfter", "GInsertBefore", "NAppend", "NPrepend"):
            ok = [n for n in self._nodes(lambda n: n.graph is None or n.graph is G) if self._can_add(n, g)]
            bad = self._nodes(lambda n: n.graph is not None and n.graph is not G)
            if not ok:
                return None
            ns = [rng.choice(ok) for _ in range(rng.choice([1, 1, 2, 3]))]
            if rng.random() < 0.7:
                ns = list(dict.fromkeys(ns))
            refs = list(im.h(x, "n") for x in G)
            lone = [n for n in self._nodes(lambda n: n.graph is None) if self._can_add(n, g)]
            if malformed and k != "GExtend" and rng.random() < 0.5:
                # reference node that is not in this graph + acceptable (preferably still unnamed, graph-less) new nodes
                outside = self._nodes(lambda n: n.graph is not G)
                if outside:
                    ref = rng.choice(outside)
                    cand = [n for n in lone if n != ref] or [n for n in ok if n != ref]
                    if cand:
                        new = list(dict.fromkeys(rng.choice(cand) for _ in range(rng.choice([1, 2, 3]))))
                        if k in ("NAppend", "NPrepend"):
                            gr = im.h(N[ref].graph, "g")         # node.append inserts into the reference node's own graph
                            if gr is not None:
                                new = [n for n in new if self._can_add(n, gr) and N[n].graph is None]
                                if not new:
                                    return None
                            return [k, ref, new]
                        return [k, g, ref, new, {}]
            if site and bad:
                ns.insert(rng.randrange(len(ns) + 1), rng.choice(bad))      # offending node at every position
            elif site and k != "GExtend":
                outside = self._nodes(lambda n: n.graph is not G)
                if not outside:
                    return None
                return [k if k.startswith("G") else "GInsertAfter", g, rng.choice(outside), ns, {}]
            if k == "GExtend":
                return ["GExtend", g, ns, self._extra(g)]
            if not refs:
                return None
            ref = rng.choice(refs)
            if k in ("NAppend", "NPrepend"):
                if malformed:
                    lone = self._nodes(lambda n: n.graph is None)
                    if lone:
                        return [k, rng.choice(lone), ns]
                return [k, ref, ns]
            extra = self._extra(g)
            if len(ns) == 1 and rng.random() < 0.5:
                extra["single"] = True
            return [k, g, ref, ns, extra]
        if k == "GSort":
            return ["GSort", g, "?"]
        if k == "GRemove":
            inside = self._nodes(lambda n: n.graph is G)
            outside = self._nodes(lambda n: n.graph is not G)
            if not inside:
                return None
            ns = rng.sample(inside, min(len(inside), rng.choice([1, 1, 1, 2, 3])))
            if malformed and outside:
                ns.insert(rng.randrange(len(ns) + 1), rng.choice(outside))
            if rng.random() < 0.1:
                ns.append(ns[0])
            extra = self._extra(g)
            if len(ns) == 1 and rng.random() < 0.5:
                extra["single"] = True
            return ["GRemove", g, ns, rng.random() < 0.6, extra]
        if k == "NReplaceInput":
            cand = self._nodes(lambda n: len(n.inputs) > 0)
            if not cand:
                return None
            n = rng.choice(cand)
            ln = len(N[n].inputs)
            i = rng.choice([-1, ln, ln + 1]) if malformed and rng.random() < 0.5 else rng.randrange(ln)
            return ["NReplaceInput", n, i, rng.choice([None] + list(range(nv)) * 4)]
        if k == "NResizeInputs":
            if not nn:
                return None
            n = rng.randrange(nn)
            ln = len(N[n].inputs)
            return ["NResizeInputs", n, rng.choice([-1, 0, ln, ln + 1, ln + 2, max(ln - 1, 0), max(ln - 2, 0)])]
        if k == "NResizeOutputs":
            if not nn:
                return None
            n = rng.randrange(nn)
            ln = len(N[n].outputs)
            kk = rng.choice([-2, -1, 0, ln, ln + 1, ln + 2, max(ln - 1, 0), max(ln - 2, 0)])
            if kk > ln and nv + (kk - ln) > self.max_vals + 8:
                return None
            return ["NResizeOutputs", n, kk, list(range(nv, nv + max(0, kk - ln)))]
        if k == "VReplaceAllUses":
            used = self._vals(lambda v: len(v.uses()) > 0 or v.is_graph_output())
            v = self._pick(used if rng.random() < 0.8 else list(range(nv)))
            if v is None:
                return None
            r = rng.randrange(nv)
            rgo = rng.random() < 0.6
            if site or (malformed and rng.random() < 0.5):
                outsv = self._vals(lambda v: v.is_graph_output() and len(v.uses()) > 0) or \
                    self._vals(lambda v: v.is_graph_output())
                if outsv:
                    v = rng.choice(outsv)
                    badr = self._vals(lambda x: x._graph is not None and x._graph is not V[v]._graph)  # noqa: SLF001
                    if badr:
                        return ["VReplaceAllUses", v, rng.choice(badr), True]
            elif V[v].is_graph_output() and rgo:
                okr = self._vals(lambda x: x._graph is None or x._graph is V[v]._graph)  # noqa: SLF001
                if okr:
                    r = rng.choice(okr)
            return ["VReplaceAllUses", v, r, rgo]
        if k == "VSetName":
            inits = self._vals(lambda v: v.is_initializer())
            v = self._pick(inits) if (inits and rng.random() < 0.5) else rng.randrange(nv)
            nm = rng.choice(VALUE_NAMES)
            if V[v].is_initializer():
                if site:
                    nm = ""
                elif nm == "":
                    nm = "u1"
            return ["VSetName", v, nm]
        if k.startswith("IO"):
            lst = G.inputs if kind == "KIn" else G.outputs
            ln = len(lst)
            ok = self._ok_for(kind, g)
            bad = self._bad_for(kind, g)
            if k == "IOAppend":
                v = self._pick(bad if (malformed and bad) else ok)
                return None if v is None else ["IOAppend", kind, g, v, self._extra(g)]
            if k == "IOExtend":
                if not ok:
                    return None
                vs = [rng.choice(ok) for _ in range(rng.choice([0, 1, 2, 2, 3]))]
                back = [v for v in bad if lst._ref_counter.get(V[v]) is not None]  # noqa: SLF001  (left this list earlier)
                if malformed and back and vs and rng.random() < 0.6:
                    vs.insert(rng.randrange(1, len(vs) + 1), rng.choice(back))
                    return ["IOExtend", kind, g, vs, self._extra(g)]
                if site and bad:
                    if not vs:
                        vs = [rng.choice(ok)]
                    vs.insert(rng.randrange(1, len(vs) + 1), rng.choice(bad))
                elif malformed and bad:
                    vs.insert(0, rng.choice(bad))      # rejected at position 0: nothing done yet
                return ["IOExtend", kind, g, vs, self._extra(g)]
            if k == "IOInsert":
                i = rng.choice([0, 0, 1, -1, ln, ln + 2, -ln - 2])
                if site and bad:
                    return ["IOInsert", kind, g, i, rng.choice(bad)]
                v = self._pick(ok)
                return None if v is None else ["IOInsert", kind, g, i, v]
            if k == "IOPop":
                if ln == 0 and not malformed:
                    return None
                i = rng.choice([-1, 0, ln - 1, -ln]) if ln and not malformed else rng.choice([ln, -ln - 1, 0])
                return ["IOPop", kind, g, i]
            if k == "IORemove":
                if ln and not malformed:
                    return ["IORemove", kind, g, im.h(rng.choice(list(lst)), "v")]
                return ["IORemove", kind, g, rng.randrange(nv)]
            if k == "IOClear":
                return ["IOClear", kind, g]
            if k == "IOSetItem":
                if ln == 0 and not malformed:
                    return None
                i = rng.choice([ln, -ln - 1]) if (malformed and rng.random() < 0.5) or ln == 0 else rng.choice([0, ln - 1, -1, -ln])
                if site and bad and ln:
                    return ["IOSetItem", kind, g, rng.choice([0, ln - 1, -1]), rng.choice(bad)]
                v = self._pick(ok)
                return None if v is None else ["IOSetItem", kind, g, i, v]
            if k == "IODelItem":
                if site and ln:
                    return ["IODelItem", kind, g, rng.choice([0, -1, ln - 1])]
                return ["IODelItem", kind, g, rng.choice([ln, -ln - 1, ln + 3])]     # IndexError only
            if k == "IOSetSlice":
                a = rng.randrange(0, ln + 2)
                e = rng.choice([a, rng.randrange(0, ln + 3), ln])
                cur = [im.h(x, "v") for x in lst]
                pick = (ok + cur[a:e] * 2) or ok
                if not pick:
                    return None
                vs = [rng.choice(pick) for _ in range(rng.choice([0, 1, 2, 2, 3]))]
                if rng.random() < 0.3 and vs:
                    vs.append(vs[0])                        # multiplicity change
                if malformed and bad:
                    vs.insert(rng.randrange(len(vs) + 1), rng.choice(bad))
                return ["IOSetSlice", kind, g, a, e, vs]
            if k == "IODelSlice":
                a = rng.randrange(0, ln + 2)
                return ["IODelSlice", kind, g, a, rng.choice([a, rng.randrange(0, ln + 3), ln])]
            if k == "IOIMul":
                if site:
                    return ["IOIMul", kind, g, rng.choice([0, 2, 2, 3, -1, 1])]
                return None
            if k == "IOReverse":
                return ["IOReverse", kind, g]
        if k.startswith("Init"):
            keys = list(G.initializers.keys())
            if k in ("InitSetItem", "InitAdd"):
                okv = self._vals(lambda v: (v._graph is None or v._graph is G) and v.producer() is None)  # noqa: SLF001
                badv = self._vals(lambda v: not ((v._graph is None or v._graph is G) and v.producer() is None))  # noqa: SLF001
                if site and badv:
                    v = rng.choice(badv)
                    key = V[v].name if V[v].name else rng.choice(KEYS[1:])
                    if k == "InitAdd" and V[v].name:
                        return ["InitAdd", g, v]
                    return ["InitSetItem", g, key, v]
                named_bad = [v for v in badv if V[v].name]
                if malformed and named_bad and rng.random() < 0.5:
                    v = rng.choice(named_bad)
                    # rejected without any mutation only when nothing is renamed and no entry with that key exists
                    if V[v].producer() is not None or V[v].name not in keys:
                        return ["InitSetItem", g, V[v].name, v] if k == "InitSetItem" else ["InitAdd", g, v]
                    return None
                if not okv:
                    return None
                v = rng.choice(okv)
                if k == "InitAdd":
                    return ["InitAdd", g, v]
                r = rng.random()
                if r < 0.7:
                    key = V[v].name if V[v].name else rng.choice(KEYS[1:])
                elif r < 0.85:
                    key = rng.choice(KEYS)
                else:
                    key = ""
                return ["InitSetItem", g, key, v]
            if k == "InitPopItem":
                return ["InitPopItem", g]
            if k == "InitIOr":
                named = self._vals(lambda v: bool(v.name))
                return ["InitIOr", g, rng.sample(named, min(len(named), rng.choice([0, 1, 2])))]
            if k in ("InitUpdate", "InitSetDefault"):
                okv = self._vals(lambda v: (v._graph is None or v._graph is G) and v.producer() is None)  # noqa: SLF001
                badv = self._vals(lambda v: not ((v._graph is None or v._graph is G) and v.producer() is None))  # noqa: SLF001
                if k == "InitSetDefault":
                    pool = (badv if (malformed and badv) else okv)
                    if not pool:
                        return None
                    v = rng.choice(pool)
                    key = rng.choice(keys) if (keys and rng.random() < 0.4) else (V[v].name if V[v].name else rng.choice(KEYS[1:]))
                    return ["InitSetDefault", g, key or "u1", v]
                if not okv:
                    return None
                chosen = list(dict.fromkeys(rng.choice(okv) for _ in range(rng.choice([0, 1, 2, 2, 3]))))
                kvs, used = [], set()
                for v in chosen:
                    key = V[v].name if V[v].name else rng.choice(KEYS[1:])
                    if key in used:
                        continue
                    used.add(key)
                    kvs.append([key, v])
                if malformed and kvs:
                    r = rng.random()
                    at = rng.randrange(0, len(kvs) + 1)
                    if r < 0.4 and badv:
                        v = rng.choice(badv)
                        key = V[v].name if V[v].name else "u3"
                        if key not in used:
                            kvs.insert(at, [key, v])                  # offending entry at every position
                    elif r < 0.6:
                        kvs.insert(at, [None, rng.choice(okv)])       # None key -> TypeError
                    elif r < 0.8:
                        v = kvs[0][1]
                        if "u9" not in used:
                            kvs.insert(rng.randrange(1, len(kvs) + 1), ["u9", v])   # the same value under a second key
                    else:
                        if "" not in used:
                            kvs.insert(at, ["", rng.choice(okv)])
                return ["InitUpdate", g, kvs]
            if k in ("InitDelItem", "InitPop"):
                key = rng.choice(keys) if (keys and not malformed) else rng.choice(KEYS)
                return [k, g, key]
            if k == "InitClear":
                return ["InitClear", g]
        return None

    def history(self, length: int) -> dict:
        """Generate and execute `length` ops (stops early after an oracle failure)."""
        steps = []
        ob = observe(self.im)
        for _ in range(length):
            op = self.next_op()
            before = ob
            outcome = self.im.execute(op)
            ob = observe(self.im)
            c01 = oracle_c01(ob)
            c06 = oracle_c06(before, ob) if outcome != "ok" else []
            steps.append({"op": op, "outcome": outcome, "hash": hash_flat(flat(ob)), "c01": c01, "c06": c06})
            if c01 or c06:
                break
        return {"steps": steps, "final": ob}


# --------------------------------------------------------------------------- Coq printer

def _vl(xs):
    return clist(cnat(x) for x in xs)


def op_term(op: list) -> str:  # noqa: C901, PLR0911, PLR0912
    k = op[0]
    if k == "NewValue":
        return f"NewValue {cnat(op[1])} {coname(op[2])}"
    if k == "NewNode":
        _, n, xs, ospec, g, nm, _extra = op
        o = (f"(OFresh {_vl(ospec[1])})" if ospec[0] == "OFresh"
             else f"(OGiven {_vl(ospec[1])} {copt(ospec[2], cnat)})")
        return f"NewNode {cnat(n)} {clist(copt(x, cnat) for x in xs)} {o} {copt(g, cnat)} {coname(nm)}"
    if k == "GraphNew":
        _, g, gi, go, ginit, ns, _extra = op
        return f"GraphNew {cnat(g)} {_vl(gi)} {_vl(go)} {_vl(ginit)} {_vl(ns)}"
    if k == "GAppend":
        return f"GAppend {cnat(op[1])} {cnat(op[2])}"
    if k == "GExtend":
        return f"GExtend {cnat(op[1])} {_vl(op[2])}"
    if k in ("GInsertAfter", "GInsertBefore"):
        return f"{k} {cnat(op[1])} {cnat(op[2])} {_vl(op[3])}"
    if k in ("NAppend", "NPrepend"):
        return f"{k} {cnat(op[1])} {_vl(op[2])}"
    if k == "GRemove":
        return f"GRemove {cnat(op[1])} {_vl(op[2])} {common.cbool(op[3])}"
    if k == "GSort":
        out = "None" if op[2] is None else "(Some " + clist(f"({cnat(g)}, {_vl(ns)})" for g, ns in op[2]) + ")"
        return f"GSort {cnat(op[1])} {out}"
    if k == "NReplaceInput":
        return f"NReplaceInput {cnat(op[1])} {cZ(op[2])} {copt(op[3], cnat)}"
    if k == "NResizeInputs":
        return f"NResizeInputs {cnat(op[1])} {cZ(op[2])}"
    if k == "NResizeOutputs":
        return f"NResizeOutputs {cnat(op[1])} {cZ(op[2])} {_vl(op[3])}"
    if k == "VReplaceAllUses":
        return f"VReplaceAllUses {cnat(op[1])} {cnat(op[2])} {common.cbool(op[3])}"
    if k == "VSetName":
        return f"VSetName {cnat(op[1])} {coname(op[2])}"
    if k in ("IOAppend", "IORemove"):
        return f"{k} {op[1]} {cnat(op[2])} {cnat(op[3])}"
    if k == "IOExtend":
        return f"IOExtend {op[1]} {cnat(op[2])} {_vl(op[3])}"
    if k in ("IOInsert", "IOSetItem"):
        return f"{k} {op[1]} {cnat(op[2])} {cZ(op[3])} {cnat(op[4])}"
    if k in ("IOPop", "IODelItem", "IOIMul"):
        return f"{k} {op[1]} {cnat(op[2])} {cZ(op[3])}"
    if k == "IOSetSlice":
        return f"IOSetSlice {op[1]} {cnat(op[2])} {cnat(op[3])} {cnat(op[4])} {_vl(op[5])}"
    if k == "IODelSlice":
        return f"IODelSlice {op[1]} {cnat(op[2])} {cnat(op[3])} {cnat(op[4])}"
    if k in ("IOClear", "IOReverse"):
        return f"{k} {op[1]} {cnat(op[2])}"
    if k == "InitSetItem":
        return f"InitSetItem {cnat(op[1])} {cname(op[2])} {cnat(op[3])}"
    if k in ("InitDelItem", "InitPop"):
        return f"{k} {cnat(op[1])} {cname(op[2])}"
    if k == "InitAdd":
        return f"InitAdd {cnat(op[1])} {cnat(op[2])}"
    if k == "InitClear":
        return f"InitClear {cnat(op[1])}"
    if k == "InitPopItem":
        return f"InitPopItem {cnat(op[1])}"
    if k == "InitUpdate":
        return f"InitUpdate {cnat(op[1])} " + clist(f"({coname(key)}, {cnat(v)})" for key, v in op[2])
    if k == "InitSetDefault":
        return f"InitSetDefault {cnat(op[1])} {cname(op[2])} {cnat(op[3])}"
    if k == "InitIOr":
        return f"InitIOr {cnat(op[1])}"
    raise ValueError(f"op outside the model: {k}")


CASE_HEADER = """From Coq Require Import ZArith List Bool Uint63.
From IRV Require Import Base.Exn C01.Model C01.Tie.
Import ListNotations.
"""


def case_term(steps: list[dict]) -> str:
    ops = clist("(" + op_term(s["op"]) + ")" for s in steps)
    exp = clist(f"({s['hash']}%uint63, " + ("Ok tt" if s["outcome"] == "ok" else f"Raise {s['outcome']}") + ")" for s in steps)
    return f"({ops},\n   {exp})"


def tie_cfg() -> str:
    """The configuration the tie runs the model with: `current_cfg` of Model.v.  For validating a proposed fix on a
    scratch worktree before it lands (development only) VERIF_C01_FIXED=SIOInsert,SIOExtend,... overrides sites."""
    import os
    ov = [x for x in os.environ.get("VERIF_C01_FIXED", "").split(",") if x]
    if not ov:
        return "current_cfg"
    return "(fun s => match s with " + " | ".join(ov) + " => true | _ => current_cfg s end)"


def case_file(histories: list[list[dict]]) -> str:
    """Prints, per history, (1 + first disagreeing step | 0, 1 + first step hitting a defect site | 0)."""
    return (CASE_HEADER + "Definition cases : list (list op * list exp_step) :=\n  "
            + clist(case_term(h) for h in histories).replace("; ([", ";\n  ([") + ".\n"
            f"Eval vm_compute in (map (verdict {tie_cfg()}) cases).\n")


def parse_verdicts(out: str) -> list[tuple[int | None, int | None]]:
    m = re.search(r"=\s*(\[.*?\]|nil)\s*:\s*list", out, re.S)
    if not m:
        raise ValueError("no verdict list in coq output:\n" + out[-2000:])
    pairs = re.findall(r"\(\s*(\d+),\s*(\d+)\s*\)", m.group(1))
    return [(int(a) - 1 if int(a) else None, int(b) - 1 if int(b) else None) for a, b in pairs]


def model_obs_file(ops: list[list], upto: int) -> str:
    """Diagnostics: the model's observation and outcome after ops[:upto+1]."""
    return (CASE_HEADER + "Definition ops : list op := " + clist("(" + op_term(o) + ")" for o in ops[:upto + 1]) + ".\n"
            "Eval vm_compute in (let h := run current_cfg ops empty_heap in (obs h, snd (step current_cfg (run current_cfg (removelast ops) empty_heap) (last ops (IOClear KIn 0))))).\n")


def all_container_histories(max_len: int):
    """Exhaustive histories over a tiny universe for the tracked containers.

    Prefix: values a(0) b(1) c(2); node 0 producing value 3; graph 0 with inputs [a] outputs [a]; graph 1 with
    input c and initializer 'u1' (value 4).  Then every sequence of <= max_len ops from the alphabet below."""
    prefix = [["NewValue", 0, "u0"], ["NewValue", 1, None], ["NewValue", 2, "u2"],
              ["NewNode", 0, [0], ["OFresh", [3]], None, None, {}],
              ["NewValue", 4, "u1"],
              ["GraphNew", 0, [0], [0], [], [], {}],
              ["GraphNew", 1, [2], [], [4], [], {}]]
    alpha = []
    for kind in ("KIn", "KOut"):
        alpha += [["IOAppend", kind, 0, 0, {}], ["IOAppend", kind, 0, 1, {}], ["IOAppend", kind, 0, 2, {}],
                  ["IOAppend", kind, 0, 3, {}],
                  ["IOInsert", kind, 0, 0, 1], ["IOInsert", kind, 0, -1, 2], ["IOInsert", kind, 0, 5, 3],
                  ["IOPop", kind, 0, -1], ["IOPop", kind, 0, 0], ["IORemove", kind, 0, 0], ["IORemove", kind, 0, 1],
                  ["IOClear", kind, 0],
                  ["IOSetItem", kind, 0, 0, 1], ["IOSetItem", kind, 0, -1, 2], ["IOSetItem", kind, 0, 0, 0],
                  ["IOSetItem", kind, 0, 1, 3],
                  ["IODelItem", kind, 0, 0], ["IOIMul", kind, 0, 2], ["IOIMul", kind, 0, 0],
                  ["IOExtend", kind, 0, [1, 1], {}], ["IOExtend", kind, 0, [1, 2], {}], ["IOExtend", kind, 0, [2, 1], {}],
                  ["IOReverse", kind, 0], ["IOSetSlice", kind, 0, 0, 1, [0, 0]], ["IOSetSlice", kind, 0, 0, 2, [0]],
                  ["IOSetSlice", kind, 0, 1, 1, [1, 2]], ["IODelSlice", kind, 0, 0, 1], ["IODelSlice", kind, 0, 0, 5]]
    alpha += [["InitSetItem", 0, "u3", 1], ["InitSetItem", 0, "u0", 0], ["InitSetItem", 0, "u1", 4],
              ["InitSetItem", 0, "u9", 3], ["InitAdd", 0, 0], ["InitAdd", 0, 1], ["InitPop", 0, "u0"],
              ["InitDelItem", 0, "u3"], ["InitClear", 0], ["InitPopItem", 0], ["InitSetDefault", 0, "u0", 0],
              ["InitSetDefault", 0, "u0", 1], ["InitUpdate", 0, [["u0", 0], ["u1", 4]]], ["InitUpdate", 0, [["u0", 0], ["u7", 1]]], ["VSetName", 0, "u3"], ["VSetName", 0, ""],
              ["VSetName", 1, "u0"], ["VSetName", 0, None]]
    for ln in range(1, max_len + 1):
        for combo in itertools.product(alpha, repeat=ln):
            yield prefix + [list(o) for o in combo]


# --------------------------------------------------------------------------- oracle-only stream (ops outside the Coq model)

def gen_oracle_only(rng, length: int) -> list[dict]:
    """History mixing model ops with calls the model does not cover (slices, sort, dict extras, Graph.sort,
    convenience functions).  Stops at the first op that may hit a defect site (site_of != None) or that fails an oracle."""
    g = Gen(rng, use_functions=True, site_rate=0.0)
    steps = []
    ob = observe(g.im)
    for _ in range(length):
        im = g.im
        graphs = g._graphs()  # noqa: SLF001
        nv = len(im.vals)
        op = None
        if graphs and nv >= 3 and rng.random() < 0.35:
            gi = rng.choice(graphs)
            G = im.graphs[gi]
            kind = rng.choice(["KIn", "KOut"])
            lst = G.inputs if kind == "KIn" else G.outputs
            ok = g._ok_for(kind, gi)  # noqa: SLF001
            bad = g._bad_for(kind, gi)  # noqa: SLF001
            named_ok = [v for v in g._vals(lambda v: (v._graph is None or v._graph is G) and v.producer() is None and v.name)]  # noqa: SLF001
            c = rng.choice(["setslice", "delslice", "sort", "ior", "gsort",
                            "conv_rau", "conv_rename", "conv_rnv", "register"])
            if c == "setslice" and ok:
                a = rng.randrange(len(lst) + 1)
                b = rng.randrange(a, len(lst) + 1)
                vs = [rng.choice(ok) for _ in range(rng.choice([0, 1, 2]))]
                if bad and rng.random() < 0.3:
                    vs.insert(rng.randrange(len(vs) + 1), rng.choice(bad))
                op = ["X_IOSetSlice", kind, gi, a, b, vs]
            elif c == "delslice":
                a = rng.randrange(len(lst) + 1)
                op = ["X_IODelSlice", kind, gi, a, rng.randrange(a, len(lst) + 1)]
            elif c == "sort":
                op = ["X_IOSort", kind, gi]
            elif c == "popitem":
                op = ["X_InitPopItem", gi]
            elif c == "update" and named_ok:
                op = ["X_InitUpdate", gi, rng.sample(named_ok, min(len(named_ok), 2))]
            elif c == "setdefault" and named_ok:
                v = rng.choice(named_ok)
                op = ["X_InitSetDefault", gi, im.vals[v].name, v]
            elif c == "ior" and named_ok:
                op = ["X_InitIOr", gi, rng.sample(named_ok, min(len(named_ok), rng.choice([1, 2]))), {"attr": rng.random() < 0.5}]
            elif c == "gsort":
                op = ["X_GSort", gi]
            elif c == "conv_rau":
                k = rng.choice([1, 2])
                op = ["X_ConvReplaceAllUses", [rng.randrange(nv) for _ in range(k)], [rng.randrange(nv) for _ in range(k)],
                      rng.random() < 0.7]
            elif c == "conv_rename":
                k = rng.choice([1, 2, 3])
                op = ["X_ConvRenameValues", [rng.randrange(nv) for _ in range(k)], [rng.choice(KEYS) for _ in range(k)]]
            elif c == "conv_rnv":
                inside = g._nodes(lambda n: n.graph is G)  # noqa: SLF001
                free = g._nodes(lambda n: n.graph is None)  # noqa: SLF001
                if inside and free:
                    old = rng.choice(inside)
                    new = rng.choice(free)
                    ov = [im.h(x, "v") for x in im.nodes[old].outputs][:1]
                    nvv = [im.h(x, "v") for x in im.nodes[new].outputs][:1]
                    if len(ov) == len(nvv):
                        op = ["X_ConvReplaceNodesAndValues", gi, old, [old], [new], ov, nvv]
            elif c == "register" and named_ok:
                op = ["X_RegisterInitializer", gi, rng.choice(named_ok)]
        if op is None:
            op = g.next_op()
        before = ob
        outcome = im.execute(op)
        ob = observe(im)
        c01 = oracle_c01(ob)
        c06 = oracle_c06(before, ob) if outcome != "ok" else []
        steps.append({"op": op, "outcome": outcome, "hash": 0, "c01": c01, "c06": c06})
        if c01 or c06 or site_of(op, outcome) is not None:
            break
    return steps


# --------------------------------------------------------------------------- shrinking

ALLOC = {"NewValue", "NewNode", "GraphNew", "NResizeOutputs"}


def shrink_history(ops: list[list], which: str, twin: bool = False) -> list[list]:
    """Greedy removal of non-allocating ops while the last remaining op still fails oracle `which`."""
    def fails(cand):
        try:
            st = run_history(cand, twin=twin)["steps"]
        except Exception:  # noqa: BLE001
            return False
        return bool(st) and len(st) == len(cand) and bool(st[-1][which])
    cur = list(ops)
    changed = True
    while changed:
        changed = False
        for i in range(len(cur) - 2, -1, -1):
            if cur[i][0] in ALLOC:
                continue
            cand = cur[:i] + cur[i + 1:]
            if fails(cand):
                cur, changed = cand, True
    return cur


# --------------------------------------------------------------------------- the check shared by C01 and C06

TRUST = [
    "Coq 8.16.1 kernel (coqc; vm_compute and primitive 63-bit integers in case files only)",
    "harness/props/_core_ops.py: generator, executor (allocation-order registry), observation through public accessors, "
    "flat encoding + hash mirrored in C01/Tie.v, Coq term printer",
    "onnx_ir._core.frozenset rebound to an insertion-ordered set inside Graph.remove (iteration order of a frozenset of "
    "nodes is address dependent)",
    "modelled not verified: CPython dict insertion order (uses, initializers), collections.UserList/UserDict/Counter "
    "inherited methods, tuple/list slicing",
]


def load_corpus(prop: str) -> list[list[list]]:
    import json
    import os
    d = os.path.join(common.CORPUS, prop)
    out = []
    if os.path.isdir(d):
        for fn in sorted(os.listdir(d)):
            if fn.endswith(".json"):
                with open(os.path.join(d, fn)) as f:
                    out.append(json.load(f)["ops"])
    return out


def run_check(ck, which: str) -> None:  # noqa: C901, PLR0912, PLR0915
    """which = 'c01' | 'c06': which oracle's failures this property reports."""
    import json
    import logging
    logging.disable(logging.WARNING)
    ck.trust(*TRUST)
    ck.assumptions += ["onnx_ir.DEBUG is False (the _check_invariance hooks of the tracked lists are no-ops)",
                       "values carry no const_value in modelled histories (Value.name also renames the backing tensor)"]
    ck.coverage["rule"] = ("C01: histories on which at least one op mutates a relationship shared by two objects; "
                           "C06: steps on which a call raises" if which == "c01" else
                           "steps on which a public editing call raises (rejected edit)")
    ck.coverage["ops_in_model"] = sorted({"NewValue", "NewNode", "GraphNew", "GAppend", "GExtend", "GInsertAfter", "GInsertBefore",
                                          "NAppend", "NPrepend", "GRemove", "GSort (outcome supplied by the implementation, installation modelled)", "NReplaceInput", "NResizeInputs", "NResizeOutputs",
                                          "VReplaceAllUses", "VSetName", "IOAppend", "IOExtend", "IOInsert", "IOPop", "IORemove",
                                          "IOClear", "IOSetItem", "IODelItem", "IOSetSlice (plain)", "IODelSlice (plain)", "IOIMul", "IOReverse", "InitSetItem", "InitDelItem",
                                          "InitPop", "InitAdd", "InitClear", "InitPopItem", "InitUpdate", "InitSetDefault", "InitIOr", "Function forwards (routed through Function objects)"})
    ck.coverage["multi_graph_stream"] = ("nested graphs (2-8 permuted If-like bodies, one cyclic scope) + Graph.sort on top/nested "
                                         "graphs; rename_values / replace_all_uses_with spanning >= 2 graphs with the invalid "
                                         "element in a later graph")
    ck.coverage["ops_oracle_only"] = ["IOSetSlice/IODelSlice with step or negative bounds", "IOSort", "VSetName to a non-str / unencodable name", "Value.merge_shapes", "InitIOr written on the attribute", "Node(...) rejected for its attributes",
                                      "GRegisterInitializer (with the twin comparison: deleting a rejected call changes nothing later)",
                                      "GRegisterInitializer", "ConvReplaceAllUses", "ConvRenameValues",
                                      "ConvReplaceNodesAndValues"]
    ck.prove()
    rng = ck.rng
    known_keys = {k["key"] for k in ck._known if k.get("status") == "known"}  # noqa: SLF001
    what = {k["key"]: k["what"] for k in ck._known}  # noqa: SLF001
    # an earlier op of the same history that hit a site recorded under the sibling property (C01 <-> C06) corrupts the
    # state; later failures of that history are consequences of that recorded defect
    sibling = {k["key"]: k["what"] for k in common.load_known()
               if k.get("property") in ("C01", "C06") and k.get("status") == "known"}

    # ---- 1. histories: corpus, random (valid + malformed streams), exhaustive small scope for the containers
    hists: list[list[dict]] = []
    tags: list[str] = []
    corpus_oracle_only = []
    for ops in load_corpus("C01") + load_corpus("C06"):
        if any(o[0].startswith("X_") for o in ops):
            corpus_oracle_only.append(ops)           # contains calls outside the Coq model: oracle only (step 4b)
            continue
        hists.append(run_history(ops)["steps"])
        tags.append("corpus")
    n_rand = 300 if not ck.thorough else 3000
    for i in range(n_rand):
        g = Gen(rng, use_functions=(i % 3 == 0), site_rate=(0.04 if i % 4 else 0.15))
        hists.append(g.history(rng.randrange(5, 61 if not ck.thorough else 151))["steps"])
        tags.append("random")
    for _ in range(120 if not ck.thorough else 1500):
        hists.append(run_history(gen_rejections(rng))["steps"])
        tags.append("rejection-shapes")
    for _ in range(60 if not ck.thorough else 800):
        hists.append(run_history(gen_nested_sort(rng))["steps"])          # Graph.sort on nests with one cyclic scope
        tags.append("nested-sort")
    ex_len = 2 if not ck.thorough else 3
    n_ex = 0
    for ops in all_container_histories(ex_len):
        if ex_len == 3 and len(ops) == 10 and rng.random() > 0.12:
            continue
        if ex_len == 2 and len(ops) == 9 and rng.random() > 0.5:
            continue            # quick tier: every single op, a seeded half of the op x op pairs (thorough: all pairs)
        hists.append(run_history(ops)["steps"])
        tags.append("exhaustive")
        n_ex += 1
    ck.coverage["exhaustive_container_histories"] = n_ex
    for st in hists:
        ck.count(len(st))
        for s in st:
            ck.hist("ops", s["op"][0])
            ck.hist("outcomes", s["outcome"])
            if s["outcome"] != "ok":
                ck.hist("rejections", s["op"][0] + ":" + s["outcome"])
                if which == "c06":
                    ck.nontriv((s["op"], s["hash"]))
        if which == "c01" and len(st) >= 5:
            ck.nontriv([s["op"] for s in st])
    for st in hists[:3]:
        ck.sample({"ops": [s["op"] for s in st][:12], "outcomes": [s["outcome"] for s in st][:12]})

    # ---- 2. the model inside Coq: outcome + observation hash after every op, first defect-site hit
    chunks = [hists[i:i + 300] for i in range(0, len(hists), 300)]
    import concurrent.futures as cf
    with cf.ThreadPoolExecutor(max_workers=4) as ex:      # at most 4 coqc at a time
        futs = [ex.submit(ck.coq_eval, case_file(c), f"cases_{i}", 900) for i, c in enumerate(chunks)]
        results = [f.result() for f in futs]
    verdicts: list[tuple[int | None, int | None]] = []
    for (rc, out), c in zip(results, chunks):
        if rc != 0:
            raise RuntimeError("case file did not compile:\n" + out[-3000:])
        v = parse_verdicts(out)
        if len(v) != len(c):
            raise RuntimeError(f"verdict count {len(v)} != cases {len(c)}")
        verdicts += v
    ck.coverage["traces_validated_against_impl"] = len(hists)
    ck.coverage["histories_hitting_a_defect_site"] = sum(1 for _, k in verdicts if k is not None)
    n_mis = 0
    for st, (d, k), tag in zip(hists, verdicts, tags):
        if d is not None:
            n_mis += 1
            if n_mis <= 3:
                ops = [s["op"] for s in st]
                rc, out = ck.coq_eval(model_obs_file(ops, d), f"diag_{n_mis}")
                ck.broken("correspondence:core-heap-model",
                          json.dumps({"stream": tag, "ops": ops[:d + 1], "diverging_step": d, "op": st[d]["op"],
                                      "impl_outcome": st[d]["outcome"],
                                      "impl_obs": flat(run_history(ops[:d + 1], stop_on_hit=False)["final"]),
                                      "model": " ".join(out.split())[-1500:]}, default=str))
    # ---- 3. oracle verdicts on the modelled histories
    reported: set[str] = set()

    def report(ops, idx, step, hit_step):
        fails = step[which]
        for key in site_candidates(step["op"], step["outcome"]) if hit_step is not None else []:
            if key in known_keys:
                ck.known_finding(key, what[key])
                return
        if hit_step is not None and hit_step is not step:
            for key in site_candidates(hit_step["op"], hit_step["outcome"]):
                if key in sibling:
                    ck.known_finding(key, sibling[key] + " (later failure in a history that hit this site earlier)")
                    return
        sig = step["op"][0] + ":" + step["outcome"] + ":" + re.sub(r"\d+", "#", fails[0].split(": ", 2)[1] if fails[0].count(": ") >= 2 else fails[0])[:60]
        if sig in reported:
            return
        reported.add(sig)
        tw = any(f.startswith("C06-twin") for f in fails)
        small = shrink_history(ops[:idx + 1], which, twin=tw)
        fin = run_history(small, twin=tw)["steps"]
        ck.violation({"kind": "oracle_" + which, "ops": small, "failing_op": small[-1],
                      "outcome": fin[-1]["outcome"] if fin else None,
                      "failures": (fin[-1][which] if fin else fails)[:6], "broken": ck.broken_items[:2]})

    for st, (d, k) in zip(hists, verdicts):
        ops = [s["op"] for s in st]
        for i, s in enumerate(st):
            if s[which]:
                report(ops, i, s, st[k] if (k is not None and i >= k) else None)
                break
    # ---- 4. oracle-only stream
    n_oo = 150 if not ck.thorough else 3000
    for _ in range(n_oo):
        st = gen_oracle_only(rng, rng.randrange(5, 41))
        ck.count(len(st))
        for s in st:
            ck.hist("ops", s["op"][0])
        if st and st[-1][which]:
            report([s["op"] for s in st], len(st) - 1, st[-1], st[-1])
    # ---- 4b. rejected edits spanning several graphs: nested sort with one cyclic scope, multi-graph convenience calls
    n_mg = 300 if not ck.thorough else 3000
    for i in range(-len(corpus_oracle_only), n_mg):
        if i < 0:
            ops = corpus_oracle_only[i]
        gen = (gen_slices, gen_multi_rename, gen_refused_names, gen_multi_rau, gen_slices,
               gen_register_rejected, gen_multi_rename, gen_refused_names, gen_merge_shapes, gen_bad_node)[i % 10]
        if i >= 0:
            ops = gen(rng)
        st = run_history(ops, twin=(gen is gen_register_rejected or i < 0))["steps"]
        ck.count(len(st))
        if len(st) == len(ops):
            last = st[-1]
            ck.hist("multi_graph_edits", last["op"][0] + ":" + last["outcome"])
            if last["outcome"] != "ok" and which == "c06":
                ck.nontriv((last["op"], len(ops), i))
        for j, s in enumerate(st):
            if s[which]:
                report(ops, j, s, s)
                break
            if any(c in sibling for c in site_candidates(s["op"], s["outcome"])):
                break          # a recorded defect site was (possibly latently) hit: later state is not trusted
    # ---- 5. known findings are replayed on every run
    for kf in ck._known:  # noqa: SLF001
        if kf.get("status") != "known":
            continue
        st = run_history(kf["witness"])["steps"]
        if st and len(st) == len(kf["witness"]) and st[-1][which]:
            ck.known_finding(kf["key"], kf["what"])
        else:
            ck.broken(f"known-finding-stale:{kf['key']}",
                      "the recorded witness no longer fails on the implementation: the model (current_cfg in "
                      "coq/theories/C01/Model.v) reproduces a defect the code no longer has")
    # ---- 6. something broken, nothing found yet: search harder with the oracle
    if ck.broken_items and not ck.violations:
        for i in range(600 if not ck.thorough else 6000):
            g = Gen(rng, use_functions=(i % 2 == 0), site_rate=0.0)
            st = g.history(rng.randrange(5, 61))["steps"]
            ck.count(len(st))
            if st and st[-1][which] and not (set(site_candidates(st[-1]["op"], st[-1]["outcome"])) & known_keys):
                report([s["op"] for s in st], len(st) - 1, st[-1], None)
                break


def print_broken(ck) -> None:
    """Name what is broken on stdout (the replay file of a no-failing-input-found VIOLATION may be gone later)."""
    for b in ck.broken_items:
        print(f"[{ck.prop}] broken: {b['name']}: {b['detail'][:160]!r}", flush=True)


def replay_file(rp: dict, which: str) -> int:
    import json
    ops = rp.get("ops")
    if ops is None:
        print("replay names a broken obligation/correspondence, no concrete history:",
              json.dumps(rp.get("broken"), indent=1)[:3000])
        return 1
    st = run_history(ops, stop_on_hit=False, twin=True)["steps"]
    bad = [(i, s["op"], s["outcome"], s[which]) for i, s in enumerate(st) if s[which]]
    print(json.dumps({"ops": ops, "failures": bad[:5]}, indent=1, default=str))
    return 1 if bad else 0


# --------------------------------------------------------------------------- rejected edits that span several graphs (oracle-only)

class _B:
    """op-list builder keeping the allocation counters the executor expects."""

    def __init__(self):
        self.ops, self.nv, self.nn, self.ng = [], 0, 0, 0

    def value(self, name):
        self.ops.append(["NewValue", self.nv, name])
        self.nv += 1
        return self.nv - 1

    def node(self, inputs, fresh=1, given=None, sub=None):
        extra = {} if sub is None else {"sub": sub}
        if given is not None:
            self.ops.append(["NewNode", self.nn, inputs, ["OGiven", given, None], None, None, extra])
            outs = given
        else:
            outs = list(range(self.nv, self.nv + fresh))
            self.ops.append(["NewNode", self.nn, inputs, ["OFresh", outs], None, None, extra])
            self.nv += fresh
        self.nn += 1
        return self.nn - 1, outs

    def graph(self, gi, go, ginit, ns):
        self.ops.append(["GraphNew", self.ng, gi, go, ginit, ns, {}])
        self.ng += 1
        return self.ng - 1


def gen_nested_sort(rng) -> list[list]:
    """A nest of graphs: a top graph with 2-8 If-like nodes whose bodies are acyclic but randomly permuted (one body
    may hold a further nested body); exactly one scope contains a use-def cycle (or none: 1 in 6); Graph.sort() is
    called on the top graph or on a nested graph."""
    b = _B()
    x, cond = b.value("u0"), b.value("u1")
    k = rng.randrange(2, 9)
    deep = rng.randrange(k) if rng.random() < 0.5 else None       # this body holds a nested body
    scopes = ["top"] + [f"b{i}" for i in range(k)] + (["deep"] if deep is not None else [])
    cyc = rng.choice(scopes) if rng.random() < 5 / 6 else None

    def body(tag, extra_nodes):
        nodes, prev = list(extra_nodes), x
        for _ in range(rng.randrange(2, 5)):
            n, (o,) = b.node([prev, rng.choice([None, x])][: rng.choice([1, 2])])
            nodes.append(n)
            prev = o
        if cyc == tag:
            va, vb = b.value(None), b.value(None)
            na, _ = b.node([vb], given=[va])
            nb, _ = b.node([va], given=[vb])
            nodes += [na, nb]
        perm = nodes[:]
        for _ in range(5):
            rng.shuffle(perm)
            if perm != nodes:
                break
        return perm, prev

    gids = {}
    if_nodes = []
    for i in range(k):
        extra = []
        if deep == i:
            perm, out = body("deep", [])
            gids["deep"] = b.graph([], [out], [], perm)
            n, _ = b.node([cond], fresh=0, sub=gids["deep"])
            extra = [n]
        perm, out = body(f"b{i}", extra)
        gids[f"b{i}"] = b.graph([], [out], [], perm)
        n, _ = b.node([cond], fresh=1, sub=gids[f"b{i}"])
        if_nodes.append(n)
    perm, out = body("top", if_nodes)
    gids["top"] = b.graph([x, cond], [out], [], perm)
    r = rng.random()
    if r < 0.55 or cyc is None:
        target = "top"
    elif r < 0.8:
        target = cyc
    elif r < 0.9 and cyc == "deep":
        target = f"b{deep}"
    else:
        target = rng.choice(scopes)
    b.ops.append(["GSort", gids[target], "?"])
    return b.ops


def gen_multi_rename(rng) -> list[list]:
    """rename_values over the initializers of 2-4 graphs (a top graph and If-like bodies); with probability 3/4 the
    request is invalid, the offending pair sitting in a LATER graph of the rename set (every position)."""
    b = _B()
    m = rng.randrange(2, 5)
    cond = b.value("u1")
    inits: list[list[int]] = []
    names: dict[int, str] = {}
    for j in range(m):
        vs = []
        for i in range(rng.randrange(2, 4)):
            v = b.value(f"u{10 * (j + 1) + i}")
            names[v] = f"u{10 * (j + 1) + i}"
            vs.append(v)
        inits.append(vs)
    bodies = []
    for j in range(m - 1):
        n, (o,) = b.node([inits[j][0], inits[j][1]])
        bodies.append(b.graph([], [o], inits[j], [n]))
    ifs = [b.node([cond], fresh=1, sub=g)[0] for g in bodies]
    n, (o,) = b.node([inits[m - 1][0]])
    b.graph([cond], [o], inits[m - 1], [n, *ifs])
    order = list(range(m))
    rng.shuffle(order)
    pairs: list[tuple[int, str]] = []
    first_of_later = None
    fresh = 100
    for pos, j in enumerate(order):
        chosen = rng.sample(inits[j], rng.randrange(1, len(inits[j])))
        if pos == 1:
            first_of_later = len(pairs)
        for v in chosen:
            pairs.append((v, f"u{fresh}"))
            fresh += 1
    if rng.random() < 0.2 and len(pairs) >= 2:        # a valid cross-graph swap of targets inside one graph
        pass
    if rng.random() < 0.75:
        at = rng.randrange(first_of_later, len(pairs))
        v = pairs[at][0]
        j = next(j for j in range(m) if v in inits[j])
        untouched = [w for w in inits[j] if w not in [p[0] for p in pairs]]
        kind = rng.choice(["collide", "empty", "same-target"])
        if kind == "collide" and untouched:
            pairs[at] = (v, names[untouched[0]])
        elif kind == "same-target" and any(p[0] in inits[j] and p[0] != v for p in pairs):
            other = next(p for p in pairs if p[0] in inits[j] and p[0] != v)
            pairs[at] = (v, other[1])
        else:
            pairs[at] = (v, "")
    b.ops.append(["X_ConvRenameValues", [p[0] for p in pairs], [p[1] for p in pairs]])
    return b.ops


def gen_multi_rau(rng) -> list[list]:
    """replace_all_uses_with(values, replacements, replace_graph_outputs=True) over outputs of two graphs, the
    replacement of the LATER pair being owned by a third graph (rejected after the earlier pair was replaced)."""
    b = _B()
    x = b.value("u0")
    outs = []
    for _ in range(2):
        n, (o,) = b.node([x])
        n2, _ = b.node([o])
        b.graph([], [o], [], [n, n2])
        outs.append(o)
    ok = b.value("u2")
    foreign = b.value("u3")
    b.graph([foreign], [], [], [])
    r = rng.random()
    if r < 0.4:
        # unequal lengths (also a single value against several replacements): rejected, although the common prefix
        # consists of values that have consumers / are graph outputs and could be replaced
        spare = [b.value(None) for _ in range(3)]
        vs, reps = rng.choice([(outs, [ok]), (outs, [ok, spare[0], spare[1]]), (outs[0], [ok, spare[0]]),
                               ([outs[0]], [ok, spare[0], spare[1]]), (outs, ok), ([x, outs[0]], [ok])])
        b.ops.append(["X_ConvReplaceAllUses", vs, reps, rng.random() < 0.7])
        return b.ops
    if r < 0.6:
        # position 0: a real replacement of a value that has consumers and is no graph output; position k > 0: a graph
        # OUTPUT mapped to ITSELF with replace_graph_outputs=False (Value.replace_all_uses_with rejects it)
        extra = [b.value(None) for _ in range(2)]
        mid = [(extra[0], extra[1])] if rng.random() < 0.5 else []
        pairs = [(x, ok)] + mid + [(rng.choice(outs), None)]
        pairs = [(v, (v if rep is None else rep)) for v, rep in pairs]
        if rng.random() < 0.3:
            pairs.append((extra[1], extra[0]))
        b.ops.append(["X_ConvReplaceAllUses", [p[0] for p in pairs], [p[1] for p in pairs], False])
        return b.ops
    reps = [ok, foreign] if r < 0.85 else [ok, b.value(None)]
    b.ops.append(["X_ConvReplaceAllUses", outs, reps, True])
    return b.ops


# --------------------------------------------------------------------------- rejection shapes (model ops: go through the Coq tie)

def gen_rejections(rng) -> list[list]:
    """A two-graph scene followed by ONE call built to be rejected, the offending element at every position of a
    multi-element argument, chosen so that a partial mutation would be visible (unnamed graph-less new nodes,
    consumers present, values backed by tensors)."""
    b = _B()
    T = {"tensor": True}

    def val(name, tensor=False):
        b.ops.append(["NewValue", b.nv, name] + ([T] if tensor else []))
        b.nv += 1
        return b.nv - 1

    a, w, w2, f = val("u0", True), val("u1", True), val("u2", True), val("u3", True)
    n0, (o0,) = b.node([a])
    n1, (o1,) = b.node([o0, w])
    n2, (o2,) = b.node([o0])
    g0 = b.graph([a], [o0, o1], [w, w2], [n0, n1, n2])          # o0 is a graph output with two consumers
    m0, (p0,) = b.node([f])
    g1 = b.graph([f], [p0], [], [m0])
    free = [b.node([o1])[0] for _ in range(3)]                   # graph-less, unnamed, outputs unnamed
    lone = b.node([])[0]
    shape = rng.choice(["insert-ref", "insert-ref", "insert-foreign", "extend-foreign", "io-extend", "io-insert", "io-setitem", "io-setslice", "io-returning", "io-returning",
                        "rau", "rau", "rename", "rename", "init-set", "init-update", "init-update", "remove-safe", "resize-outputs", "ctor-dup-init", "ctor-dup-init"])
    k = rng.randrange(1, 4)
    if shape == "insert-ref":
        op = [rng.choice(["GInsertBefore", "GInsertAfter"]), g0, rng.choice([m0, lone]), free[:k], {}]
    elif shape == "insert-foreign":
        ns = free[:k]
        ns.insert(rng.randrange(len(ns) + 1), m0)
        op = [rng.choice(["GInsertBefore", "GInsertAfter"]), g0, rng.choice([n0, n1, n2]), ns, {}]
    elif shape == "extend-foreign":
        ns = free[:k]
        ns.insert(rng.randrange(len(ns) + 1), m0)
        op = ["GExtend", g0, ns, {}]
    elif shape in ("io-extend", "io-insert", "io-setitem", "io-setslice"):
        kind = rng.choice(["KIn", "KOut"])
        okv = [val(None) for _ in range(k)]
        bad = f if kind == "KOut" or rng.random() < 0.5 else o2      # foreign, or (inputs only) produced
        if shape == "io-extend":
            vs = list(okv)
            vs.insert(rng.randrange(len(vs) + 1), bad)
            op = ["IOExtend", kind, g0, vs, {}]
        elif shape == "io-setslice":
            vs = list(okv)
            vs.insert(rng.randrange(len(vs) + 1), bad)
            op = ["IOSetSlice", kind, g0, rng.choice([0, 1]), rng.choice([1, 2, 5]), vs]
        elif shape == "io-insert":
            op = ["IOInsert", kind, g0, rng.choice([0, 1, -1, 5]), bad]
        else:
            op = ["IOSetItem", kind, g0, rng.choice([0, -1]), bad]
    elif shape == "io-returning":
        kind = rng.choice(["KIn", "KOut"])
        ex = val("u5")                                                # belongs to g0's list, leaves it, is adopted by g1
        b.ops.append(["IOAppend", kind, g0, ex, {}])
        if rng.random() < 0.5:
            b.ops.append(["IOAppend", kind, g0, ex, {}])              # listed twice, removed twice
            b.ops.append(["IORemove", kind, g0, ex])
        b.ops.append(rng.choice([["IOPop", kind, g0, -1], ["IORemove", kind, g0, ex]]))
        b.ops.append(["IOAppend", rng.choice(["KIn", "KOut"]), g1, ex, {}])
        okv = [val(None) for _ in range(k)]
        vs = list(okv)
        vs.insert(rng.randrange(1, len(vs) + 1), ex)                  # position >= 1: something acceptable comes first
        n_cur = {"KIn": 1, "KOut": 2}[kind]
        op = rng.choice([["IOExtend", kind, g0, vs, {}], ["IOSetSlice", kind, g0, n_cur, n_cur, vs],
                         ["IOSetSlice", kind, g0, 0, 1, vs]])
    elif shape == "rau":
        op = ["VReplaceAllUses", rng.choice([o0, o1]), rng.choice([f, p0]), True]
    elif shape == "rename":
        op = ["VSetName", w, rng.choice([None, "", "u2"])]
    elif shape == "init-set":
        v = rng.choice([o2, f, p0])
        op = rng.choice([["InitSetItem", g0, "u7", v], ["InitSetItem", g0, "u1", v], ["InitAdd", g0, v]])
    elif shape == "ctor-dup-init":
        # Graph(inputs, outputs, nodes, initializers=[..., ok, ..., bad]) with ok.name == bad.name: the dict built from the
        # initializers keeps the LAST of a repeated name, so that is the one that must be validated
        okv, twin_free = val("u6", True), val("u6")
        nb, (bad_prod,) = b.node([a])                    # produced value ...
        b.ops.append(["VSetName", bad_prod, "u6"])       # ... with the same name
        foreign6 = val("u6")
        b.ops.append(["IOAppend", "KOut", g1, foreign6, {}])       # owned by another graph, same name
        bad = rng.choice([bad_prod, foreign6])
        gi2, go2 = [val(None)], [val("u9")]
        extra_ok = [val(f"u{30 + i}") for i in range(k - 1)]
        order = rng.choice([[okv, bad], [okv] + extra_ok + [bad], [twin_free, okv, bad], extra_ok + [bad, okv]])   # last: accepted
        op = ["GraphNew", b.ng, gi2, go2, order, [free[0]], {}]
    elif shape == "init-update":
        okv = [val(f"u{20 + i}", rng.random() < 0.5) for i in range(k)]
        kvs = [[f"u{20 + i}", v] for i, v in enumerate(okv)]
        badk = rng.choice([["u3", f], ["u8", o2], [None, val(None)], ["", val(None)], ["u9", okv[0]]])
        kvs.insert(rng.randrange(1, len(kvs) + 1), badk)              # position >= 1: earlier entries are acceptable
        op = ["InitUpdate", g0, kvs]
    elif shape == "remove-safe":
        ns = [n2, n1][:k] + [n0]                                     # n0's output is a graph output / still consumed
        rng.shuffle(ns)
        op = ["GRemove", g0, ns, True, {}]
    else:
        op = ["NResizeOutputs", n0, 0, []]
    b.ops.append(op)
    return b.ops


# --------------------------------------------------------------------------- slices with multiplicity changes, refused names (oracle-only)

def gen_slices(rng) -> list[list]:
    """Slice assignment / deletion on the tracked lists (plain, empty and extended slices; repeated values on either
    side so that multiplicities change: [a] -> [a, a], [a, a] -> [a]) followed by removals (pop/remove/del/clear)."""
    b = _B()
    pool = []
    for nm in ("u0", "u1", "u2", None):
        b.ops.append(["NewValue", b.nv, nm])
        pool.append(b.nv)
        b.nv += 1
    kind = rng.choice(["KIn", "KOut"])
    init = [rng.choice(pool) for _ in range(rng.randrange(0, 5))]
    if rng.random() < 0.6 and init:
        init.append(init[0])                                   # a repeated value from the start
    g = b.graph(init if kind == "KIn" else [], init if kind == "KOut" else [], [], [])
    cur = list(init)
    for _ in range(rng.randrange(2, 7)):
        n = len(cur)
        r = rng.random()
        if r < 0.45:
            a = rng.randrange(0, n + 1)
            e = rng.randrange(a, n + 1) if rng.random() < 0.8 else a       # empty slice = pure insertion
            old = cur[a:e]
            mode = rng.choice(["dup", "dedup", "fresh", "same"])
            if mode == "dup" and (old or cur):
                x = rng.choice(old or cur)
                vs = old + [x] * rng.choice([1, 2])
            elif mode == "dedup" and old:
                vs = list(dict.fromkeys(old))[: rng.choice([1, len(old)])]
            elif mode == "same":
                vs = list(old)
            else:
                vs = [rng.choice(pool) for _ in range(rng.randrange(0, 4))]
            if rng.random() < 0.35 and n >= 1:                             # extended slice
                step = rng.choice([2, 2, 3, -1, -1, -2, 100, -100, 0])
                if step > 0:
                    a, e = rng.randrange(0, 2), n
                elif rng.random() < 0.5:
                    a, e = None, None                                          # lst[::-1], lst[::-2]
                else:
                    a, e = n - 1, rng.choice([None, 0])                       # lst[n-1:0:-1]
                size = len(cur[a:e:step]) if step else 1
                vs = [rng.choice(pool) for _ in range(size)]
                r2 = rng.random()
                if r2 < 0.2:
                    vs = vs + [rng.choice(pool)]                           # one too many: list refuses the assignment
                elif r2 < 0.4 and vs:
                    vs = vs[:-1]                                           # one too few
                op = ["X_IOSetSlice", kind, g, a, e, vs, step]
                if step and len(vs) == size:
                    cur[a:e:step] = vs
            else:
                op = ["IOSetSlice", kind, g, a, e, vs]
                cur[a:e] = vs
        elif r < 0.6:
            a = rng.randrange(0, n + 1)
            e = rng.randrange(a, n + 1)
            if rng.random() < 0.35 and n >= 1:
                step = rng.choice([2, -1, -2, 3, 100])
                lo, hi = (0, n) if step > 0 else (None, None)
                op = ["X_IODelSlice", kind, g, lo, hi, step]
                del cur[lo:hi:step]
            else:
                op = ["IODelSlice", kind, g, a, e]
                del cur[a:e]
        elif r < 0.7 and n:
            op = ["IOPop", kind, g, rng.choice([-1, 0])]
            cur.pop(op[3])
        elif r < 0.8 and n:
            op = ["IORemove", kind, g, rng.choice(cur)]
            cur.remove(op[3])
        elif r < 0.88 and n:
            i = rng.randrange(n)
            op = ["IODelItem", kind, g, i]
            del cur[i]
        elif r < 0.94:
            op = ["IOClear", kind, g]
            cur = []
        else:
            op = ["IOAppend", kind, g, rng.choice(pool), {}]
            cur.append(op[3])
        b.ops.append(op)
    return b.ops


REFUSED_NAMES = ["\ud800", "w\udfff", 5, 2.5]


def gen_refused_names(rng) -> list[list]:
    """Initializers (and plain values) whose const_value is a proto-backed TensorProtoTensor (serde.deserialize_tensor),
    renamed to something the tensor's own name setter refuses (lone surrogate -> UnicodeEncodeError, non-string ->
    TypeError); ordinary renames in between."""
    b = _B()
    P = {"tensor": "proto"}
    vals = []
    for nm in ("u0", "u1", "u2"):
        b.ops.append(["NewValue", b.nv, nm, P])
        vals.append(b.nv)
        b.nv += 1
    b.ops.append(["NewValue", b.nv, "u3", {"tensor": True}])
    plain = b.nv
    b.nv += 1
    g = b.graph([], [vals[2]], vals[:2] + ([plain] if rng.random() < 0.5 else []), [])
    for _ in range(rng.randrange(1, 4)):
        v = rng.choice(vals)
        if rng.random() < 0.7:
            b.ops.append(["X_VSetNameRaw", v, rng.choice(REFUSED_NAMES)])
        else:
            b.ops.append(["VSetName", v, rng.choice(["u5", "u6", "u1", None])])
    b.ops.append(["InitPop", g, "u0"] if rng.random() < 0.3 else ["X_VSetNameRaw", rng.choice(vals[:2]), rng.choice(REFUSED_NAMES)])
    return b.ops


def gen_register_rejected(rng) -> list[list]:
    """Graph.register_initializer with values named like generated names (val_<k>): accepted calls and calls rejected
    for every reason (owned by another graph, produced by a node, no tensor, name taken, unnamed), followed by nodes
    with unnamed outputs added to the same graph, whose generated names must not depend on the rejected calls."""
    b = _B()
    T = {"tensor": True}

    def val(name, tensor=True):
        b.ops.append(["NewValue", b.nv, name] + ([T] if tensor else []))
        b.nv += 1
        return b.nv - 1

    x = val("u0", False)
    g0 = b.graph([x], [], [], [])
    g1 = b.graph([], [], [], [])
    cands = []
    for k in rng.sample(range(0, 5), 3):
        kind = rng.choice(["foreign", "produced", "no-tensor", "ok", "ok"])
        if kind == "produced":
            n, (o,) = b.node([x])
            b.ops.append(["VSetName", o, f"val_{k}"])
            cands.append(o)
        else:
            v = val(f"val_{k}", tensor=(kind != "no-tensor"))
            if kind == "foreign":
                b.ops.append(["IOAppend", rng.choice(["KIn", "KOut"]), g1, v, {}])
            cands.append(v)
    for v in cands:
        b.ops.append(["X_RegisterInitializer", g0, v])
    for _ in range(rng.randrange(2, 4)):                      # unnamed outputs named by g0's name authority
        cnt = rng.choice([1, 2])
        outs = list(range(b.nv, b.nv + cnt))
        b.ops.append(["NewNode", b.nn, [x], ["OFresh", outs], g0, None, {}])
        b.nv += cnt
        b.nn += 1
    return b.ops


def gen_bad_node(rng) -> list[list]:
    """Node(inputs, attributes=<rejected>, outputs=[given values]): the call raises; inputs and outputs must be untouched."""
    b = _B()
    vals = []
    for nm in ("u0", "u1", None):
        b.ops.append(["NewValue", b.nv, nm])
        vals.append(b.nv)
        b.nv += 1
    n, (o,) = b.node([vals[0]])
    if rng.random() < 0.5:
        b.graph([vals[0]], [o], [], [n])
    outs = rng.sample(vals[1:], rng.choice([1, 2]))
    b.ops.append(["X_NewNodeBadAttr", [rng.choice([vals[0], o, None]) for _ in range(rng.randrange(0, 3))], outs,
                  rng.choice(["object", "int-mapping", "mixed"])])
    return b.ops


DIMS = [None, 1, 3, 4, 5, "N", "M"]


def gen_merge_shapes(rng) -> list[list]:
    """Value.merge_shapes on values with (frozen or not) shapes: compatible merges, rank mismatch, and a conflicting
    concrete dimension at every position after dimensions that the merge would refine."""
    b = _B()
    rank = rng.randrange(1, 5)
    shape = [rng.choice(DIMS) for _ in range(rank)]
    b.ops.append(["NewValue", b.nv, "u0", {"shape": shape, "frozen": rng.random() < 0.3}])
    v = b.nv
    b.nv += 1
    for _ in range(rng.randrange(1, 4)):
        r = rng.random()
        if r < 0.1:
            other = None
        elif r < 0.2:
            other = [rng.choice(DIMS) for _ in range(rank + rng.choice([-1, 1]))] if rank > 1 else [1, 1]
        else:
            other = [d if (isinstance(d, int) and rng.random() < 0.6) else rng.choice([d, 5, 3, "N", None]) for d in shape]
            if rng.random() < 0.5:
                ints = [i for i, d in enumerate(shape) if isinstance(d, int)]
                if ints:
                    k = rng.choice(ints)
                    other[k] = shape[k] + 1                           # conflict at position k
                    for j in range(k):                                # earlier positions get refined first
                        if not isinstance(shape[j], int):
                            other[j] = rng.choice([5, 3, "M"])
        b.ops.append(["X_MergeShapes", v, other])
    return b.ops

"""C10 — external tensor reads never escape the model directory (fail closed).

Decided by: Coq theorems (coq/theories/C10/Property.v) about an executable model (C10/Model.v) of
ExternalTensor.path/_check_path_containment/_load/numpy/__array__/tobytes/tofile/release/invalidate, the
base_dir setter, _io.load + external_data.set_base_dir, over a file-system model (tree Dir | File ino nlink
bytes | Link target) with a POSIX resolver `kwalk` and SEPARATE transcriptions of CPython 3.12 posixpath
(join, split, dirname, normpath, abspath, realpath/_joinrealpath with its `seen` cache and loop fallback).
Tied to /repo on every run by a correspondence check: generated directory trees are materialised under
ck.scratch, the real ExternalTensor is driven through generated histories, and the observations (check
outcome, open attempts, inode read, bytes/exception per step) are embedded in case files that Coq evaluates
against the model (`run`); os.path.{normpath,join,dirname,abspath,realpath}, os.stat/lstat and ir.load are
compared with the model's functions on the same strings / trees in the same case files.

THEOREMS (all proved, all "Closed under the global context"; fs, cwd, base, loc, histories unbounded)
  C10_realpath_agrees_resolve   kernel resolves u to rp  ->  os.path.realpath(u) = rendering of rp
                                (simulation of _joinrealpath against kwalk by strong induction on the kernel's
                                symlink-nesting fuel; the `seen`-cache is sound; the "symlink loop" fallback and
                                the lstat-failed fallback are impossible when the kernel resolves the path —
                                minimal-fuel argument).  Component level (upaths / real paths).
  C10_prefix_with_sep_iff_component_prefix   STRING level: on renderings "/"+"/".join(names) the test
                                `p == b or p.startswith(b + sep)` (root special case included) <-> component-wise
                                prefix; Example sibling_needs_sep shows "/a/bc" vs "/a/b" passes without "+ sep".
                                Also at string level: render (parse s) = s, split/join round trips (StrPrefix.v).
  C10_contained_relative_loc    for a relative location the resolvability of base_dir follows from the open succeeding
                                (base_resolves_if_relative_loc), so the theorem needs no hypothesis on the base.
  C10_contained / C10_contained_any   base <> "" & check = Ok & kernel resolves base to rb & open(join(base,
                                loc)) reaches rp  ->  rb is a component prefix of rp, the node there is the regular
                                file read (inode, bytes) and st_nlink <= 1.  (Only layers 2+3 of the check are
                                needed; layer 1 — lexical — is modelled and tied but adds nothing to the theorem.)
  C10_every_entry_checked       each of numpy/__array__/tobytes/tofile/serialize emits nothing | check |
                                check-ok,open-failed | check-ok,open,read, the check being on the CURRENT
                                base_dir/location.
  C10_fail_closed               check raises -> no open, no read; without cached data the result is that
                                exception and the tensor is unchanged.
  C10_history_reads_contained   for every history of SetBase/entry points/Release/Invalidate, every read event is
                                contained in the base_dir in force at that step.
  C10_world_history_reads_contained   the same over histories in which the WORLD changes between calls (`World fs cwd`:
                                the file system was modified and/or the process changed directory): every read is
                                contained w.r.t. the file system and cwd in force at that call.  Tied by world-changing
                                history events (file -> symlink out / hard link, directory swapped for a symlinked
                                look-alike, chdir with a relative base) applied to a private copy of the world, with a
                                fresh lstat snapshot after each; the oracle's reference (which directory base_dir
                                denotes, which inodes have which paths / st_nlink) is taken at the time of each call.
  (load tie: spellings include model files that are themselves symlinks — into a sibling directory, through a
   symlinked directory, chains, absolute target — with a same-named data file of distinct content in each directory;
   the base must be the directory holding the ENTRY that was named, and the bytes read must be that directory's.)
  C10_call_structure_sound / C10_reading_methods_checked / C10_every_read_path_checked   (deepening round)
                                "every read entry point goes through the check" as a theorem about the call structure
                                EXTRACTED FROM THE SOURCE on every run (generate(): fail-closed ast extraction into
                                Gen/C10Gen.v of every ExternalTensor method that can reach the data file and of the
                                external_data helpers; statement language SCheck/SOpen/SMut/SCall/branches/loops,
                                C10/CallModel.v).  The checker `flow` is proved sound for ALL statement trees and ALL
                                runs (CallProofs.flow_sound: loops unbounded, exceptions anywhere): every open is
                                dominated in the same call by a passing check with no store to base_dir/location in
                                between; the extracted methods are accepted by vm_compute.  A new unchecked fast path
                                breaks this obligation (r2m3: m_tobytes rejected by the checker; r4m3: np.fromfile(
                                tensor.path) rejected by the extraction).  Tied to the implementation: the C/O events of
                                every observed call must be a trace of the extracted method (`accepts`, in Coq).
  C10_check_model_equals_source / C10_path_and_load_base_equal_source / C10_contained_source_check   (2nd deepening round)
                                _check_path_containment is translated STATEMENT BY STATEMENT on every run (extract_check:
                                fail-closed ast -> Gallina over the string-level operations of C10/CheckDsl.v) into
                                Gen/C10Gen.gen_check, together with the `path` property (gen_path) and load()'s base_dir
                                expression (gen_load_base); generation fails unless the base_dir getter/setter, location,
                                __init__ are plain field accesses, load() is the straight line proto/model/base_dir/
                                set_base_dir(graph)/for-functions/return and set_base_dir assigns unconditionally.
                                Theorem: the hand model `check` (about which containment is proved) EQUALS gen_check for
                                every fs/cwd/base/loc (cwd names without '/'), via parse(render u) = u on everything
                                posixpath produces (C10/Canon.v) and a no-slash invariant of the realpath walk; the
                                containment theorem is restated for the translated check.  Seeded edits of the check:
                                m2 m3 r2m1 r3m2 r3m3 r5m1 rejected by the translation, m1 breaks the equivalence proof,
                                r2m2 r5m2 (load) r4m1 (setter) r4m2 r5m3 (set_base_dir) rejected by the structure checks.
  C10_load_traversal_complete   wherever a tensor can sit in a model (independent inductive `occ_model`: initializers of the
                                main graph / nested subgraphs at any depth, TENSOR/TENSORS attributes of any node, main
                                graph or model-local function) load()'s traversal (model of _all_tensors +
                                RecursiveGraphIterator + the functions loop, C10/Traverse.v) gives it the base directory.
                                Tied by generated nested models (names repeat on purpose) saved, ir.load-ed and walked.
  C10_load_sets_base            every tensor of a loaded model (graph AND model-local functions) gets
                                dirname(p) or "." — never "" — for every spelling p;
  C10_load_base_is_model_dir    and the kernel resolves that string to the directory holding the model file's
                                entry (symlinked dirs, "..", "//", relative, bare name -> cwd).
  C10_empty_base_unchecked      base_dir "" accepts every location (why load() must never leave it empty).
Levels: check/within are executed on rendered STRINGS exactly as the code does; posixpath functions are defined
on the split form (leading-slash count, rest.split("/")) and validated at string level by the tie
(render (f (parse s)) = os.path.f(s)); the model passes realpath's result to stat as a upath (no render/parse
round trip) and keys the `seen` dict by upath.

READINGS of the English (weaker reading taken where ambiguous)
  * "absolute paths ... raise": an absolute location that resolves INSIDE the base is accepted by the code;
    the property's core is containment, so only absolute locations leading outside must raise.
  * cached data: after a successful load, numpy()/tobytes() return the cached bytes without a new check, also
    after base_dir was changed; the property is read as being about reads that touch the file system
    ("raises before any byte is read"); the model has the caches and the theorems are about read events.
  * "regular file": the code has no S_ISREG test; in the model (dirs, regular files, symlinks) open+read
    succeeds only on regular files.  FIFOs/devices under the model directory are outside the alphabet of the
    property's quantifier and not modelled (tofile would read from them).
  * inside = non-strict component prefix of the kernel-resolved base.
  * the kernel's symlink bound kf is a universally quantified parameter of every theorem (any nesting bound, incl. 40).
  * names: the model's strings are code points; worlds contain non-ASCII and case-variant names (DA vs da, dé, a
    fullwidth letter); '/' never occurs inside a multi-byte UTF-8 sequence, so splitting agrees with the kernel's.
  * a base_dir the kernel cannot resolve (non-existent component followed by "..", a file, ...): with a relative
    location nothing can be opened (C10_contained_relative_loc); with an absolute location the code compares
    against os.path.realpath(base_dir) (non-strict).  The oracle takes that as "the resolved base" in this corner
    (found by the thorough tier: base "da/nothing/..", location "<abs>/da/sub/f2" is read and lies inside da);
    the theorems assume a resolvable base for absolute locations.
MODELLED-NOT-VERIFIED: TOCTOU between check and open; non-POSIX normcase; Linux's 40-links-per-walk ELOOP rule
  (model: nesting bound; they differ only on chains > 40); permissions; non-ASCII / NUL in names (os.lstat raises
  ValueError -> still fails closed); mmap/np.frombuffer/copy_file_range (bytes = file[off:off+n]); RecursionError
  of realpath on very deep link nests (model: budget pf, excluded by hypothesis).

FINDINGS
  * fixed f7de2c5 (orchestrator): ir.load("m.onnx") gave base_dir "" (bare name)   -> corpus 20, 23
  * fixed b3a8816 (found here, proposed_fixes/C10-load-function-tensors.diff): load() did not visit tensors in
    attributes of nodes inside model.functions -> base_dir "" -> unchecked reads    -> corpus 22
  Both are status "fixed" in known_findings.d/C10.json; their witnesses run as ordinary corpus cases.

ORACLE (independent of os.path.realpath/normpath): every file has unique content bytes and its canonical
paths come from an lstat walk; the base's canonical directory is found by (st_dev, st_ino).  For each step: every
opened inode is a regular file of the world with st_nlink == 1 whose only path lies under the base's canonical
directory; returned fresh bytes belong to such a file; an open() is preceded by a passing check in the same
call; a raising check is followed by no open (interpreter-wide audit hook catches opens that bypass
_core.open); after ir.load every tensor's base_dir is non-empty and is the model's directory (samefile), and
no tensor with an escaping location can be read.

MUTANTS of /repo tried in a scratch worktree (all reported VIOLATION with a concrete shrunk replay):
  M1 check 2 without "+ os.sep"            -> lsib (symlink to ../dab/f1, prefix sibling)      [correspondence+oracle]
  M2 nlink > 2                             -> da/hsecret hard link of outside/secret           [correspondence+oracle]
  M3 check 2 with abspath, not realpath    -> symlink out of base                               [correspondence+oracle]
  M4 tofile without the check              -> "open() without a passing containment check"     [oracle, events]
  M5 load: dirname(path) without or "."    -> bare-name load replay                             [load oracle + load_base row]
  M6 check skipped for relative base_dir   -> cwd da, base ".", loc ../outside/secret           [correspondence+oracle]
  M7 _load opens before checking           -> open before check                                 [oracle, events]
  M8 "+ os.sep" dropped in both layers     -> ../dab/f1                                         [correspondence+oracle]
  M9 realpath(path) replaced by join(base_real, normpath(location)) -> symlink out              [correspondence+oracle]
  M10 load() without the loop over model.functions (revert of b3a8816) -> function tensor base_dir ""  [load oracle + load_base row]
  seeded C10-m3 (check memoised per tensor in a `_checked_path` slot): missed by the first version (histories never
      changed the file system between reads of one tensor object); caught since the world-changing events were added:
      e.g. base W/da, loc f1: tofile ; da/f1 replaced by a symlink to W/outside/secret ; tofile -> canary bytes
      [correspondence + oracle, concrete shrunk replay].
  seeded C10-r6m1 (link count checked on the descriptor after self.raw was assigned) and C10-r6m3 (tofile returns early for
      size 0 before the check): first seen only as translation rejections.  The tracer's wrapper of the check now passes
      arguments through (it had changed the mutant's behaviour); histories retry every accessor on the same tensor object
      after a rejection and use zero-size tensors on rejected locations; the oracle has the "must raise" clause (what
      join(base, location) denotes for the kernel, by inode, is outside / multiply linked => the call raises, size 0
      included) and flags bytes served from a cache filled by a read that had to be rejected.
  seeded C10-r5m3 (set_base_dir honours a `basepath` external_data entry kept in tensor.meta): missed at first (no model
      file carried extra external_data entries); now the loaded models of the load tie and of the traversal tie carry
      basepath (absolute / with .. / benign / empty), checksum and unknown keys; the base must be exactly the model
      directory whatever the entries say (Traverse.base_after_load_ignores_entries) and the bytes must be the model
      directory's w.bin [traversal correspondence + oracle, concrete shrunk model spec].
  seeded C10-r4m1 (base_dir setter stores normpath(value)): first seen only as row/trace mismatches; now caught with
      input by (a) load() spellings with ".." after a symlinked directory (lsub -> da/sub: "lsub/../m.onnx" is
      da/m.onnx, the collapsed base "." reads <root>/w.bin) and (b) tensor histories whose setbase goes through such
      a path; the oracle's reference directory is computed from the base string GIVEN to the API, never read back
      from the tensor.
  seeded C10-r2m2 (load: dirname(realpath(path))): first seen only as a load_base row mismatch (no failing input);
      with symlinked model files in the load tie: pub/m.onnx -> ../da/m.onnx reads da/w.bin instead of pub/w.bin
      [load oracle, concrete replay].
  Also: applying the function-tensor fix made the (then "known") finding stale -> reported as broken, as designed.
  Model corrections made because the tie disagreed (model was wrong, not the code): tofile with 0 bytes to copy
  never raises for a short file (thorough tier); generator kept inside the modelled tree (no /etc/hostname).
"""

from __future__ import annotations

import io
import json
import os
import shutil
import stat as statmod
import sys

import numpy as np

from harness import common
from harness.common import REPO, cN, clist, copt

KF = 45      # kernel symlink nesting bound used by the model (Linux: 40 links per walk)
PF = 1500    # budget of the model's realpath walk (iterations + recursion)

NAMES_D = ["da", "db", "dab", "dc", "sub", "DA", "d\u00e9"]
NAMES_F = ["f1", "f2", "f3", "wt.bin", "F1", "\uff461", "w \u03b2.bin"]
NAMES_L = ["l1", "l2", "l3", "l4", "ldir"]
W = "{W}"   # placeholder of the world's absolute path inside plans / cases


# =========================================================================== worlds

def gen_world(rng) -> list:
    """A plan: list of creation steps relative to the world root.  Always contains a canary outside
    every plausible base, prefix-sibling directories, in/out symlinks, symlinked dirs, hard links, loops."""
    plan = []
    dirs = [""]
    files = []   # (rel, fid)
    fid = [0]

    def rel(d, n):
        return n if d == "" else d + "/" + n

    taken = set()

    def add_dir(d, n):
        p = rel(d, n)
        if p in taken:
            return None
        taken.add(p)
        plan.append(["dir", p])
        dirs.append(p)
        return p

    def add_file(d, n, length=None):
        p = rel(d, n)
        if p in taken:
            return None
        taken.add(p)
        fid[0] += 1
        ln = rng.choice([0, 1, 4, 6, 8, 9, 12]) if length is None else length
        plan.append(["file", p, fid[0], ln])
        files.append((p, fid[0]))
        return p

    # fixed skeleton (so every run has the interesting shapes) ...
    add_dir("", "da")
    add_dir("", "dab")            # prefix sibling of da
    add_dir("", "outside")
    add_file("outside", "secret", 8)
    add_file("dab", "f1", 6)
    add_file("da", "f1", 8)
    add_dir("da", "sub")
    add_file("da/sub", "f2", 5)
    # names that differ only by case / are not ASCII: a case-folding or byte/str confusion would merge them
    add_dir("", "DA")
    add_file("DA", "f1", 8)
    add_dir("da", "d\u00e9")
    add_file("da/d\u00e9", "F1", 4)
    add_dir("", "dz")
    taken.add("dz/f1")
    plan.append(["symlink", "dz/f1", "../outside/secret"])
    for lp, tgt in (("da/lsib", "../dab/f1"), ("da/lout", "../outside/secret"), ("da/ldirout", "../outside"),
                    ("da/lin", "sub/f2"), ("da/loop1", "loop2"), ("da/loop2", "loop1"), ("lbase", "da"), ("lsub", "da/sub"),
                    ("da/sub/labs", W + "/da/f1")):
        if rng.random() < 0.85:
            taken.add(lp)
            plan.append(["symlink", lp, tgt])
    if rng.random() < 0.85:
        taken.add("da/hsecret")
        plan.append(["hardlink", "da/hsecret", "outside/secret"])
    # ... plus random growth
    for _ in range(rng.randrange(2, 9)):
        d = rng.choice(dirs)
        if d.count("/") < 3 and rng.random() < 0.4:
            add_dir(d, rng.choice(NAMES_D))
        else:
            add_file(d, rng.choice(NAMES_F))
    # symlinks
    nlinks = rng.randrange(3, 10)
    for _ in range(nlinks):
        d = rng.choice(dirs)
        n = rng.choice(NAMES_L)
        p = rel(d, n)
        if p in taken:
            continue
        kind = rng.random()
        depth = 0 if d == "" else d.count("/") + 1
        if kind < 0.25 and files:        # to a file, relative
            tgt_rel = rng.choice(files)[0]
            tgt = "../" * depth + tgt_rel
        elif kind < 0.45:                # to a dir, relative
            tgt_rel = rng.choice(dirs)
            tgt = ("../" * depth + tgt_rel) or "."
        elif kind < 0.6:                 # absolute, inside the world
            tgt = W + "/" + rng.choice([f[0] for f in files] + dirs[1:])
        elif kind < 0.75:                # loop / chain through other link names
            tgt = rng.choice(NAMES_L) + rng.choice(["", "", "/f1", "/.."])
        elif kind < 0.85:                # dangling / odd
            tgt = rng.choice(["nothing", "../nothing/x", "/nonexistent_zz/q", ".", "..", "./", "f1/", "da//sub"])
        else:                            # grammar soup
            tgt = gen_soup(rng, dirs, files)
            if tgt == "":
                tgt = "."
        taken.add(p)
        plan.append(["symlink", p, tgt])
    # hard links: outside -> inside, inside -> inside
    for _ in range(rng.randrange(0, 3)):
        src = rng.choice(files)[0]
        d = rng.choice(dirs)
        p = rel(d, rng.choice(["h1", "h2"]))
        if p in taken:
            continue
        taken.add(p)
        plan.append(["hardlink", p, src])
    return plan


def gen_soup(rng, dirs, files) -> str:
    comps = []
    for _ in range(rng.randrange(0, 6)):
        comps.append(rng.choice([".", "..", "..", "", "da", "dab", "sub", "f1", "f2", "l1", "l2", "ldir", "outside",
                                 "secret", "h1", "nothing"]))
    s = "/".join(comps)
    r = rng.random()
    if r < 0.15:
        s = "/" + s
    elif r < 0.2:
        s = "//" + s
    elif r < 0.3:
        s = W + "/" + s
    if rng.random() < 0.15:
        s += "/"
    return s


def materialise(plan: list, root: str) -> None:
    os.makedirs(root)     # parents too
    for st in plan:
        p = os.path.join(root, st[1])
        try:
            if st[0] == "dir":
                os.mkdir(p)
            elif st[0] == "file":
                with open(p, "wb") as f:
                    f.write(bytes([st[2]]) * st[3])
            elif st[0] == "symlink":
                os.symlink(st[2].replace(W, root), p)
            elif st[0] == "hardlink":
                os.link(os.path.join(root, st[2]), p)
        except OSError:
            pass  # e.g. a parent that is a symlink to nowhere; the snapshot reads what really exists


def apply_mutation(root: str, mut: list) -> str | None:
    """World-changing events between two reads of the same tensor.  Returns the new cwd (relative) for chdir."""
    k = mut[0]
    if k == "chdir":
        return mut[1]
    p = os.path.join(root, mut[1])
    if k in ("symlink", "hardlink"):
        if os.path.isdir(p) and not os.path.islink(p):
            shutil.rmtree(p)
        elif os.path.lexists(p):
            os.remove(p)
        if k == "symlink":
            os.symlink(mut[2].replace(W, root), p)
        else:
            os.link(os.path.join(root, mut[2]), p)
    elif k == "swapdir":
        # the directory is moved away and a symlink to a look-alike directory (canary files) takes its place
        tgt = os.path.join(root, mut[2])
        os.makedirs(tgt, exist_ok=True)
        for i, n in enumerate(sorted(os.listdir(p))):
            if os.path.isfile(os.path.join(p, n)) and not os.path.islink(os.path.join(p, n)):
                with open(os.path.join(tgt, n), "wb") as f:
                    f.write(bytes([230 + i % 20]) * 8)
        os.rename(p, p + "_old")
        os.symlink(tgt, p)
    else:
        raise AssertionError(mut)
    return None


class Snapshot:
    """The world as it really is on disk (lstat walk), as a Coq `node` literal rooted at "/"."""

    def __init__(self, root: str):
        self.root = root
        self.ino_id: dict[tuple, int] = {}       # (dev, ino) of regular files -> small id
        self.file_paths: dict[int, list] = {}    # id -> canonical paths
        self.file_nlink: dict[int, int] = {}
        self.file_fid: dict[int, int] = {}       # id -> content byte (0 if empty)
        self.dir_path: dict[tuple, str] = {}     # (dev, ino) of dirs -> canonical path
        self.nentries = 0
        comps = [c for c in root.split("/") if c]
        # directories above the world: only the next component is modelled
        self.term = self._above("/", comps)

    def _above(self, cur: str, comps: list) -> str:
        st = os.lstat(cur)
        self.dir_path[(st.st_dev, st.st_ino)] = cur
        if not comps:
            return self._dir(cur, st)
        nxt = os.path.join(cur, comps[0])
        return f"(Dir {cN(st.st_nlink)} [({s_lit(comps[0])}, {self._above(nxt, comps[1:])})])"

    def _dir(self, path: str, st) -> str:
        self.dir_path[(st.st_dev, st.st_ino)] = path
        ents = []
        for n in sorted(os.listdir(path)):
            p = os.path.join(path, n)
            s = os.lstat(p)
            self.nentries += 1
            if statmod.S_ISDIR(s.st_mode):
                ents.append(f"({s_lit(n)}, {self._dir(p, s)})")
            elif statmod.S_ISLNK(s.st_mode):
                ents.append(f"({s_lit(n)}, Link {s_lit(os.readlink(p))})")
            else:
                key = (s.st_dev, s.st_ino)
                i = self.ino_id.setdefault(key, len(self.ino_id) + 1)
                self.file_paths.setdefault(i, []).append(p)
                self.file_nlink[i] = s.st_nlink
                with open(p, "rb") as f:
                    data = f.read()
                self.file_fid[i] = data[0] if data else 0
                ents.append(f"({s_lit(n)}, File {cN(i)} {cN(s.st_nlink)} {bytes_lit(data)})")
        return f"(Dir {cN(st.st_nlink)} {clist(ents)})"


def s_lit(x: str) -> str:
    if all(32 <= ord(c) < 127 and c not in '"\\' for c in x):
        return f'(s "{x}")'
    # non-ASCII (or quote/backslash): the model's strings are code points, written out as numbers
    return "(" + clist(cN(ord(c)) for c in x) + " : str)"


def bytes_lit(b: bytes) -> str:
    if len(b) > 0 and all(x == b[0] for x in b):
        return f"(repeat {cN(b[0])} {len(b)})"
    return clist(cN(x) for x in b)


# =========================================================================== cases

OPS = ["numpy", "array", "tobytes", "tofile", "serialize"]


def spell_base(rng, world_dirs: list, links_to_dirs: list, d=None, plain=False) -> tuple[str, str]:
    """(cwd relative to the world, base spelling).  Spellings: absolute, relative with chdir, trailing
    separator, through symlinks, '.', non-normalised, non-existent, a file."""
    if d is None:
        d = rng.choice(world_dirs) if rng.random() < 0.5 else rng.choice(["da", "da", "da/sub", ""])
    k = rng.random() * (0.55 if plain else 1.0)
    cwd = ""
    if k < 0.25:
        base = W + "/" + d if d else W
    elif k < 0.45:                      # relative to a cwd that is an ancestor / the dir itself / elsewhere
        parts = d.split("/") if d else []
        cut = rng.randrange(0, len(parts) + 1)
        cwd = "/".join(parts[:cut])
        base = "/".join(parts[cut:]) or "."
    elif k < 0.55:                      # sibling cwd
        cwd = rng.choice(world_dirs)
        up = 0 if cwd == "" else cwd.count("/") + 1
        base = "../" * up + (d or ".")
    elif k < 0.7 and links_to_dirs:     # through a symlink
        base = W + "/" + rng.choice(links_to_dirs)
    elif k < 0.8:                       # non-normalised
        base = W + "/" + (d + "/" if d else "") + rng.choice(["./", "sub/..", "/", "//", ".//."])
    elif k < 0.87:
        base = W + "//" + d
    elif k < 0.92:
        base = W + "/" + rng.choice(["nothing", "da/f1", "da/nothing/.."])
    else:
        base = "/" + W.strip("/") + "/" + d if rng.random() < 0.5 else "//" + W.strip("/") + "/" + d
    if rng.random() < 0.2 and not base.endswith("/"):
        base += "/"
    if plain and rng.random() < 0.25:
        cands = [l for l in links_to_dirs if os.path.basename(l) != ""]
        if cands:
            base = W + "/" + rng.choice(cands)
            cwd = ""
    return cwd, base


def gen_loc(rng, base_dir_rel: str, world_dirs, world_files, world_links) -> str:
    """Location strings over {., .., names, //, absolute roots, trailing /}; mostly aimed."""
    k = rng.random()
    depth = 0 if base_dir_rel in ("", None) else base_dir_rel.count("/") + 1
    allnames = world_files + world_links + world_dirs[1:]
    if k < 0.42:       # a real entry below (or not below) the base, spelled relative to it, with noise
        b = base_dir_rel or ""
        below = [x for x in world_files + world_links if b == "" or x.startswith(b + "/")]
        tgt = rng.choice(below) if below and rng.random() < 0.8 else rng.choice(allnames)
        if b and tgt.startswith(b + "/"):
            s = tgt[len(b) + 1:]
        elif b == "":
            s = tgt
        else:
            s = "../" * depth + tgt
        comps = s.split("/")
        out = []
        for c in comps:
            r = rng.random()
            if r < 0.1:
                out.append(".")
            elif r < 0.18:
                out += ["sub", ".."]
            elif r < 0.25:
                out.append("")
            out.append(c)
        s = "/".join(out)
    elif k < 0.55:     # escapes
        s = rng.choice(["../outside/secret", "../../outside/secret", "../dab/f1", "../da/f1", "../DA/f1", "d\u00e9/F1", "d\u00e9/f1",
                        "D\u00c9/F1", "../Da/f1", "../" * (depth + 6) + "nonexistent_zz/hostname",
                        "sub/../../outside/secret", "..", "../", ".", "", "../" + (base_dir_rel or "da").split("/")[-1] + "/f1",
                        "../" + (base_dir_rel or "da").split("/")[-1] + "b/f1"])
    elif k < 0.68:     # absolute
        s = W + "/" + rng.choice(allnames)
        if rng.random() < 0.3:
            s = "/" + s
    elif k < 0.82:     # through links
        s = rng.choice(world_links or ["l1"]) + rng.choice(["", "", "/f1", "/sub/f2", "/..", "/../outside/secret", "/"])
    else:
        s = gen_soup(rng, world_dirs, world_files)
    return s


def gen_ops(rng) -> list:
    r = rng.random()
    if r < 0.6:
        return [[rng.choice(OPS)]]
    n = rng.randrange(2, 6)
    ops = []
    for _ in range(n):
        q = rng.random()
        if q < 0.55:
            ops.append([rng.choice(OPS)])
        elif q < 0.7:
            ops.append(["release"])
        elif q < 0.9:
            ops.append(["setbase", None])   # filled by the caller
        else:
            ops.append(["invalidate"])
    return ops


# =========================================================================== implementation side

class Tracer:
    """Observe the check and every open() performed by _core during one entry-point call."""

    def __init__(self):
        self.events = []
        self.audit_on = False
        self.audit_paths = []
        self.root = None

    def install(self):
        from onnx_ir import _core
        tr = self
        orig_check = _core.ExternalTensor._check_path_containment
        self._orig_check = orig_check

        def check(self_t, *a, **k):
            try:
                orig_check(self_t, *a, **k)
            except Exception as e:  # noqa: BLE001
                tr.events.append(["C", os.fspath(self_t.base_dir), os.fspath(self_t.location), common.exn_name(e)])
                raise
            tr.events.append(["C", os.fspath(self_t.base_dir), os.fspath(self_t.location), "ok"])

        _core.ExternalTensor._check_path_containment = check
        import builtins

        def traced_open(path, *a, **k):
            tr.events.append(["O", os.fspath(path)])
            f = builtins.open(path, *a, **k)
            st = os.fstat(f.fileno())
            tr.events.append(["R", (st.st_dev, st.st_ino)])
            return f

        _core.open = traced_open
        self._core = _core

    def uninstall(self):
        self._core.ExternalTensor._check_path_containment = self._orig_check
        if "open" in self._core.__dict__:
            del self._core.open


_AUDIT = {"on": False, "paths": [], "root": None}
_AUDIT_INSTALLED = [False]


def _audit(event, args):
    if _AUDIT["on"] and event == "open":
        p = args[0]
        if isinstance(p, (str, bytes)):
            p = os.fsdecode(p)
            _AUDIT["paths"].append(p)


def ensure_audit():
    if not _AUDIT_INSTALLED[0]:
        sys.addaudithook(_audit)
        _AUDIT_INSTALLED[0] = True


def run_impl(case: dict, root: str, tracer: Tracer, snap0: "Snapshot | None" = None) -> list:
    """Run one tensor history on the real ExternalTensor.  Returns per step
    {"events": [...], "res": ["ok", bytes] | ["raise", name], "audit_opens": n}."""
    import onnx_ir as ir
    from onnx_ir import external_data as ed
    from onnx_ir import serde
    sub = lambda s: s.replace(W, root)  # noqa: E731
    old = os.getcwd()
    os.chdir(os.path.join(root, case["cwd"]))
    out = []
    snap = snap0 if snap0 is not None else Snapshot(root)
    cwd_rel = case["cwd"]
    base_given = sub(case["base"])
    try:
        t = ir.ExternalTensor(sub(case["loc"]), case["off"], case["len"], ir.DataType.UINT8,
                              shape=ir.Shape([case["n"]]), name="t", base_dir=sub(case["base"]))
        for op in case["ops"]:
            tracer.events = []
            _AUDIT["paths"] = []
            # the property's reference point, taken when the call is made: which directory base_dir denotes NOW
            b_now = base_given        # the string handed to the public API (constructor / setter), not read back
            cb_now = None
            if b_now:
                cb_now = canon_dir(snap, b_now)
                if cb_now is None:
                    # base_dir the kernel cannot resolve: Python's non-strict resolution (see docstring, readings)
                    cb_now = os.path.realpath(b_now)
            # does the tensor object already hold data of an earlier read? (state of the object, observed before the call)
            had_cache = (t.raw is not None) or (getattr(t, "_array", None) is not None)
            tgt_now = None
            if b_now:
                try:
                    st_t = os.stat(os.path.join(b_now, sub(case["loc"])))
                    tgt_now = [(st_t.st_dev, st_t.st_ino), statmod.S_ISDIR(st_t.st_mode)]
                except (OSError, ValueError):
                    tgt_now = None
            _AUDIT["on"] = True
            try:
                k = op[0]
                if k == "numpy":
                    r = ["ok", t.numpy().tobytes()]
                elif k == "array":
                    r = ["ok", np.asarray(t.__array__()).tobytes()]
                elif k == "tobytes":
                    r = ["ok", bytes(t.tobytes())]
                elif k == "tofile":
                    if op[-1] == "real":
                        dst = os.path.join(os.path.dirname(root), "dst.bin")
                        with open(dst, "wb") as f:
                            _AUDIT["paths"] = []
                            t.tofile(f)
                        with open(dst, "rb") as f:
                            r = ["ok", f.read()]
                    else:
                        b = io.BytesIO()
                        t.tofile(b)
                        r = ["ok", b.getvalue()]
                elif k == "serialize":
                    mem = ed.convert_tensors_from_external([t])[0]
                    r = ["ok", bytes(serde.serialize_tensor(mem).raw_data)]
                elif k == "world":
                    _AUDIT["on"] = False
                    for mut in op[1]:
                        try:
                            nc = apply_mutation(root, mut)
                            if nc is not None:
                                os.chdir(os.path.join(root, nc))
                        except OSError:
                            pass           # the snapshot / getcwd below record whatever really happened
                    snap = Snapshot(root)
                    tracer.events = []
                    r = ["ok", b""]
                elif k == "setbase":
                    t.base_dir = sub(op[1])
                    base_given = sub(op[1])
                    r = ["ok", b""]
                elif k == "release":
                    t.release()
                    r = ["ok", b""]
                elif k == "invalidate":
                    t.invalidate()
                    r = ["ok", b""]
                else:
                    raise AssertionError(k)
            except Exception as e:  # noqa: BLE001
                r = ["raise", common.exn_name(e)]
            finally:
                _AUDIT["on"] = False
            # opens seen by the interpreter-wide audit hook that did not go through _core.open
            traced = [e[1] for e in tracer.events if e[0] == "O"]
            stray = [p for p in _AUDIT["paths"] if p not in traced and not p.endswith("dst.bin")]
            out.append({"events": list(tracer.events), "res": r, "stray_opens": stray if k != "world" else [],
                        "snap": snap, "cwd": os.getcwd(), "base": b_now, "cb": cb_now, "tgt": tgt_now, "had_cache": had_cache})
            tracer.events = []
        t.release()
    finally:
        os.chdir(old)
    return out


# =========================================================================== oracle (the property itself)

def canon_dir(snap: Snapshot, path: str):
    """Canonical location of a directory by (dev, ino) — no os.path.realpath involved."""
    try:
        st = os.stat(path)
    except OSError:
        return None
    return snap.dir_path.get((st.st_dev, st.st_ino))


def oracle(case: dict, obs: list, snap_unused, root: str) -> list:
    """Property statement on the observations: bytes come only from a singly-linked regular file inside the
    resolved base; a failing check means nothing was opened; every open was preceded by a passing check."""
    bad = []
    base = case["base"].replace(W, root)
    tainted = False       # the tensor's cache was filled by a read that should have been rejected
    for i, (op, o) in enumerate(zip(case["ops"], obs)):
        snap, cwd = o["snap"], o["cwd"]      # the world in force at this call
        cached = bool(o.get("had_cache"))    # the object held mapped data before this call (whichever accessor loaded it,
        #                                      also one that raised after mapping, e.g. serialize / numpy on a short file)
        if not cached:
            tainted = False                  # released (explicitly, or by serialize)
        if op[0] == "setbase":
            base = op[1].replace(W, root)
            continue
        if op[0] in ("release", "invalidate", "world"):
            continue
        ev = o["events"]
        if o["stray_opens"]:
            bad.append(f"step {i} {op[0]}: file opened outside the checked path: {o['stray_opens'][:2]}")
        checks = [e for e in ev if e[0] == "C"]
        reads = [e for e in ev if e[0] == "R"]
        opens = [e for e in ev if e[0] == "O"]
        if opens:
            first_open = ev.index(opens[0])
            prior = [e for e in ev[:first_open] if e[0] == "C"]
            if not prior or prior[-1][3] != "ok":
                bad.append(f"step {i} {op[0]}: open() without a passing containment check before it")
        if any(c[3] != "ok" for c in checks) and opens:
            bad.append(f"step {i} {op[0]}: the check raised but a file was opened")
        if o["base"] == "":
            continue        # no boundary defined (documented behaviour of the code)
        cb = o["cb"]        # canonical directory base_dir denoted when this call was made
        nbad0 = len(bad)
        # "every other location raises": what join(base_dir, location) denotes for the kernel right now is a file
        # with several links / a file or directory outside the base  ==>  the accessor must raise (also for a tensor
        # of size 0).  numpy/tobytes of a tensor that already holds data of an earlier accepted read are exempt.
        if o.get("tgt") is not None and not (cached and op[0] in ("numpy", "array", "tobytes", "serialize")):
            key, is_dir = o["tgt"]
            if is_dir:
                dp = snap.dir_path.get(key)
                outside = dp is None or cb is None or not (dp == cb or dp.startswith(cb.rstrip("/") + "/"))
                why = f"the directory {dp}"
            else:
                fid_ = snap.ino_id.get(key)
                outside = fid_ is None or cb is None or snap.file_nlink[fid_] != 1 or not all(
                    p_.startswith(cb.rstrip("/") + "/") for p_ in snap.file_paths[fid_])
                why = f"{snap.file_paths.get(fid_)} (st_nlink {snap.file_nlink.get(fid_)})"
            if outside and o["res"][0] != "raise":
                bad.append(f"step {i} {op[0]}: location denotes {why}, not a singly-linked file inside {cb}, "
                           f"but the call did not raise (returned {o['res'][1]!r})")
        for r in reads:
            i_d = snap.ino_id.get(r[1])
            if i_d is None:
                bad.append(f"step {i} {op[0]}: opened something that is not a regular file of the world: {r[1]}")
                continue
            if snap.file_nlink[i_d] != 1:
                bad.append(f"step {i} {op[0]}: read a file with {snap.file_nlink[i_d]} hard links")
            paths = snap.file_paths[i_d]
            if cb is None or not all(p == cb or p.startswith(cb.rstrip("/") + "/") for p in paths):
                bad.append(f"step {i} {op[0]}: read {paths} which is outside the resolved base {cb}")
        if o["res"][0] == "ok" and o["res"][1] and not reads:
            # cached bytes: allowed only if they were read under the same base earlier
            pass
        if o["res"][0] == "ok" and o["res"][1] and not reads and tainted:
            bad.append(f"step {i} {op[0]}: returned {o['res'][1]!r} from the cache left behind by a read that had to be rejected")
        if o["res"][0] == "ok" and o["res"][1] and reads:      # fresh bytes (cached ones: see readings)
            b = o["res"][1]
            fids = set(b)
            if len(fids) != 1:
                bad.append(f"step {i} {op[0]}: returned bytes are not from one file: {b!r}")
            else:
                fid = next(iter(fids))
                owners = [k for k, v in snap.file_fid.items() if v == fid]
                if not owners:
                    bad.append(f"step {i} {op[0]}: returned bytes of an unknown file")
                elif reads:
                    for k in owners:
                        if snap.file_nlink[k] != 1 or cb is None or not all(
                                p.startswith(cb.rstrip("/") + "/") for p in snap.file_paths[k]):
                            bad.append(f"step {i} {op[0]}: returned bytes of {snap.file_paths[k]} (canary / outside {cb})")
        if reads and len(bad) > nbad0:
            tainted = True                     # if this call left data in the object, it is data that had to be rejected
    return bad


# =========================================================================== Coq case files

CASE_HEADER = """From Coq Require Import NArith List Bool String Ascii.
From IRV Require Import Base.Exn C10.Model C10.CallModel Gen.C10Gen.
Import ListNotations.
(* call structure extracted from the source vs the events observed in one call: (method id, trace) *)
Definition meth (i : N) : stm :=
  match i with 0%%N => m_numpy | 1%%N => m_array | 2%%N => m_tobytes | 3%%N => m_tofile | _ => ed_to_memory end.
Definition cagree (r : N * list cev) : bool := accepts (meth (fst r)) (snd r).
Definition s (x : string) : str := map (fun a => N.of_nat (nat_of_ascii a)) (list_ascii_of_string x).
Definition kf := %d%%nat.
Definition pf := %d%%nat.
Inductive oev := OC (b l : str) (r : res unit) | OO | OR (ino : N).
Definition oev_eqb (a b : oev) : bool :=
  match a, b with
  | OC b1 l1 r1, OC b2 l2 r2 => str_eqb b1 b2 && str_eqb l1 l2 && res_eqb (fun _ _ => true) r1 r2
  | OO, OO => true
  | OR i, OR j => N.eqb i j
  | _, _ => false
  end.
Definition proj (e : event) : oev :=
  match e with EvCheck b l r => OC b l r | EvOpen _ _ => OO | EvRead _ i => OR i end.
Definition step_eqb (a b : list oev * res (list N)) : bool :=
  list_eqb oev_eqb (fst a) (fst b) && res_eqb (list_eqb N.eqb) (snd a) (snd b).
(* a tensor history: fs, cwd, base, loc, n, off, len, ops, observed steps *)
Definition hcase := (node * rpath * str * str * N * option N * option N * list wop * list (list oev * res (list N)))%%type.
Definition hagree (c : hcase) : bool :=
  let '(fs, cwd, base, loc, n, off, len, ops, obs) := c in
  match wrun kf pf ops fs cwd (fresh base loc n off len) with
  | Some l => list_eqb step_eqb (map (fun x => (map proj (snd (fst x)), snd x)) l) obs
  | None => false
  end.
(* os.path functions on strings: (function id, cwd, fs, arg1, arg2, expected) *)
Definition frow := (N * node * rpath * str * str * str)%%type.
Definition fagree (r : frow) : bool :=
  let '(f, fs, cwd, a, b, e) := r in
  match f with
  | 0%%N => str_eqb (render (py_normpath (parse a))) e
  | 1%%N => str_eqb (render (py_join (parse a) (parse b))) e
  | 2%%N => str_eqb (render (py_dirname (parse a))) e
  | 3%%N => str_eqb (render (py_abspath cwd (parse a))) e
  | 4%%N => match py_realpath kf fs cwd pf (parse a) with Some p => str_eqb (render p) e | None => false end
  | 5%%N => str_eqb (load_base a) e
  | 6%%N => str_eqb (render (parse a)) e
  | _ => false
  end.
(* kernel: (follow, fs, cwd, path, expected) ; expected: None = OSError,
   Some (0, canonical dir path, nlink) | Some (1, [ino], nlink) | Some (2, link target, _) *)
Definition krow := (bool * node * rpath * str * option (N * str * N))%%type.
Definition kagree (r : krow) : bool :=
  let '(fo, fs, cwd, p, e) := r in
  match kstr kf fs cwd (parse p) fo, e with
  | None, None => true
  | Some (rp, Dir k _), Some (0%%N, d, k') => str_eqb (render (1, match rp with [] => [[]] | _ => rp end)) d && N.eqb k k'
  | Some (_, File i k _), Some (1%%N, [j], k') => N.eqb i j && N.eqb k k'
  | Some (_, Link t), Some (2%%N, t', _) => str_eqb t t'
  | _, _ => false
  end.
""" % (KF, PF)


def c_res_unit(x: str) -> str:
    return "(Ok tt)" if x == "ok" else f"(Raise {x})"


def c_op(op: list, root: str, o: dict | None = None, names: dict | None = None) -> str:
    k = op[0]
    if k == "world":
        return f"World {names[id(o['snap'])]} {c_rpath(o['cwd'])}"
    return "TOp " + _c_top(op, root)


def _c_top(op: list, root: str) -> str:
    k = op[0]
    return {"numpy": "Numpy", "array": "ArrayProto", "tobytes": "ToBytes", "tofile": "ToFile",
            "serialize": "Serialize", "release": "Release", "invalidate": "Invalidate"}.get(k) or \
        f"(SetBase {s_lit(op[1].replace(W, root))})"


def c_obs_step(o: dict, snap_unused=None) -> str:
    snap = o["snap"]
    evs = []
    for e in o["events"]:
        if e[0] == "C":
            evs.append(f"OC {s_lit(e[1])} {s_lit(e[2])} {c_res_unit(e[3])}")
        elif e[0] == "O":
            evs.append("OO")
        else:
            evs.append(f"OR {cN(snap.ino_id.get(e[1], 0))}")
    r = o["res"]
    res = f"(Ok {bytes_lit(r[1])})" if r[0] == "ok" else f"(Raise {r[1]})"
    return f"({clist(evs)}, {res})"


def c_rpath(path: str) -> str:
    return clist(s_lit(c) for c in path.split("/") if c)


def hcase_term(case, obs, root, names, fs0name) -> str:
    cwd = os.path.join(root, case["cwd"]).rstrip("/")
    return "(" + ", ".join([
        fs0name, c_rpath(cwd), s_lit(case["base"].replace(W, root)), s_lit(case["loc"].replace(W, root)),
        cN(case["n"]), copt(case["off"], cN), copt(case["len"], cN),
        clist("(" + c_op(op, root, o, names) + ")" for op, o in zip(case["ops"], obs)),
        clist(c_obs_step(o) for o in obs)]) + ")"


# =========================================================================== one world = one batch of cases

def world_lists(root: str):
    dirs, files, links, links_to_dirs = [""], [], [], []
    for dp, dn, fn in os.walk(root):
        for n in sorted(dn + fn):
            p = os.path.relpath(os.path.join(dp, n), root)
            st = os.lstat(os.path.join(root, p))
            if statmod.S_ISLNK(st.st_mode):
                links.append(p)
                if os.path.isdir(os.path.join(root, p)):
                    links_to_dirs.append(p)
            elif statmod.S_ISDIR(st.st_mode):
                dirs.append(p)
            else:
                files.append(p)
    return sorted(dirs), sorted(files), sorted(links), sorted(links_to_dirs)


def gen_cases(rng, root: str, count: int) -> list:
    dirs, files, links, ltd = world_lists(root)
    cases = []
    for _ in range(count):
        if rng.random() < 0.22:
            mc = gen_mutation_case(rng, dirs, files, links)
            if mc is not None:
                cases.append(mc)
                continue
        if rng.random() < 0.13:
            # a location that must be rejected, read through several accessors in a row on the SAME tensor object
            # (retry after rejection), also as a zero-size tensor
            cwd3, base3 = rng.choice([("", W + "/da"), ("", W + "/da/"), ("da", "."), ("", "da"), ("", W + "/lbase")])
            loc3 = rng.choice(["hsecret", "lout", "lsib", "ldirout/secret", "../outside/secret", W + "/outside/secret",
                               "../dab/f1", "../DA/f1", "sub/../hsecret", "ldirout", ".."])
            k3 = rng.randrange(2, 5)
            ops3 = [[rng.choice(OPS)] for _ in range(k3)]
            if rng.random() < 0.25:
                ops3.insert(rng.randrange(1, len(ops3)), ["release"])
            cases.append({"cwd": cwd3, "base": base3, "loc": loc3, "n": rng.choice([0, 0, 4, 1]), "off": None, "len": None,
                          "ops": ops3})
            continue
        if rng.random() < 0.07:
            # ".." after a symlinked directory: the kernel's parent is not the lexical parent
            # (lsub -> da/sub: lsub/.. is da ; da/ldirout -> ../outside: da/ldirout/.. is the world root)
            b2 = rng.choice([W + "/lsub/..", "lsub/..", W + "/lsub/../", "./lsub/..", "lsub/.././", W + "/da/ldirout/..",
                             "da/ldirout/../", W + "/lsub/../sub/.."])
            loc2 = rng.choice(["outside/secret", "dab/f1", "f1", "sub/f2", "../outside/secret", "da/f1", "./f1"])
            first = rng.choice(["", W + "/da", b2])
            ops2 = ([["setbase", b2]] if first != b2 else []) + [[rng.choice(OPS)]]
            if rng.random() < 0.4:
                ops2 += [["release"], [rng.choice(OPS)]]
            cases.append({"cwd": "", "base": first, "loc": loc2, "n": rng.choice([1, 3, 4]), "off": None, "len": None,
                          "ops": ops2})
            continue
        cwd, base = spell_base(rng, dirs, ltd, plain=rng.random() < 0.5)
        # where the base really is (relative to the world), for aiming locations
        brel = None
        try:
            old = os.getcwd()
            os.chdir(os.path.join(root, cwd))
            try:
                rp = os.path.realpath(base.replace(W, root))
            finally:
                os.chdir(old)
            if rp == root or rp.startswith(root + "/"):
                brel = os.path.relpath(rp, root)
                brel = "" if brel == "." else brel
        except OSError:
            pass
        loc = gen_loc(rng, brel, dirs, files, links)
        if rng.random() < 0.5 and brel is not None:
            # straight case: a file (or link) really below the base, lightly disguised
            below = [x for x in files if brel == "" or x.startswith(brel + "/")]
            if not below or rng.random() < 0.25:
                below = [x for x in files + links if brel == "" or x.startswith(brel + "/")]
            if below:
                tgt = rng.choice(below)
                loc = tgt if brel == "" else tgt[len(brel) + 1:]
                if rng.random() < 0.3:
                    loc = rng.choice(["./", "sub/../", ".//"]) + loc
        n = rng.choice([0, 1, 1, 3, 4, 4, 5, 6, 8, 9])
        off = rng.choice([None, None, None, 0, 0, 1, 2, 7])
        ln = rng.choice([None, None, None, 0, n, n, n + 1, 3])
        ops = gen_ops(rng)
        for o in ops:
            if o[0] == "setbase":
                o[1] = rng.choice(["", spell_base(rng, dirs, ltd)[1], base])
            if o[0] == "tofile" and rng.random() < 0.3:
                o.append("real")
        cases.append({"cwd": cwd, "base": base, "loc": loc, "n": n, "off": off, "len": ln, "ops": ops})
    return cases


def gen_mutation_case(rng, dirs, files, links) -> dict | None:
    """op ; the world changes ; the same tensor object is read again."""
    d = rng.choice(["da", "da", "", "da/sub"] + dirs)
    below = [x for x in files if (d == "" or x.startswith(d + "/")) and "/h" not in "/" + x]
    if not below:
        return None
    f = rng.choice(below)
    loc = f if d == "" else f[len(d) + 1:]
    depth = f.count("/")
    kind = rng.choice(["symlink_abs", "symlink_rel", "hardlink", "swapdir", "chdir", "benign", "symlink_abs", "hardlink"])
    cwd, base = "", (W + "/" + d if d else W)
    if kind == "chdir" or rng.random() < 0.3:
        cwd, base = d, rng.choice([".", "./", "../" + d.split("/")[-1] if d else "."])
    if kind == "symlink_abs":
        muts = [["symlink", f, W + "/outside/secret"]]
    elif kind == "symlink_rel":
        muts = [["symlink", f, "../" * depth + "outside/secret"]]
    elif kind == "hardlink":
        muts = [["hardlink", f, "outside/secret" if f != "outside/secret" else "da/f1"]]
    elif kind == "swapdir":
        parent = os.path.dirname(f)
        if not parent:
            muts = [["symlink", f, W + "/outside/secret"]]
        else:
            muts = [["swapdir", parent, "outside/cp"]]
    elif kind == "chdir":
        cwd, base, loc = "da", rng.choice([".", "./"]), "f1"
        muts = [["chdir", rng.choice(["dz", "dz", "dab", "outside"])]]
    else:
        inside = [x for x in below if x != f]
        muts = [["symlink", f, W + "/" + rng.choice(inside)]] if inside else [["chdir", cwd]]
    first = rng.choice(OPS)
    second = rng.choice([[["tofile"]], [["tofile", "real"]], [["release"], ["numpy"]], [["release"], ["tobytes"]],
                         [["release"], ["array"]], [["release"], ["serialize"]], [["numpy"]], [["tobytes"]]])
    if first == "serialize":      # releases by itself
        second = rng.choice([[["tofile"]], [["numpy"]], [["tobytes"]], [["serialize"]]])
    ops = [[first], ["world", muts]] + second
    if rng.random() < 0.3:
        ops += [["world", [["chdir", rng.choice(dirs)]]], [rng.choice(OPS)]]
    return {"cwd": cwd, "base": base, "loc": loc, "n": rng.choice([1, 3, 4]), "off": rng.choice([None, 0, 1]),
            "len": None, "ops": ops}


def function_rows(rng, cases: list, root: str, plan: list) -> tuple[list, list]:
    """(frows, krows) as python tuples with expected values from os.path / os.stat on this world."""
    fr, kr = [], []
    strings = set()
    for c in cases:
        b, l = c["base"].replace(W, root), c["loc"].replace(W, root)
        strings.update([(c["cwd"], b), (c["cwd"], l), (c["cwd"], os.path.join(b, l))])
        fr.append((1, c["cwd"], b, l, os.path.join(b, l)))
    for st in plan:
        if st[0] == "symlink":
            strings.add(("", st[2].replace(W, root)))
    for cwd, x in sorted(strings):
        old = os.getcwd()
        os.chdir(os.path.join(root, cwd))
        try:
            fr.append((0, cwd, x, "", os.path.normpath(x)))
            fr.append((2, cwd, x, "", os.path.dirname(x)))
            fr.append((3, cwd, x, "", os.path.abspath(x)))
            fr.append((4, cwd, x, "", os.path.realpath(x)))
            fr.append((5, cwd, x, "", os.path.dirname(x) or "."))
            fr.append((6, cwd, x, "", x))
            for follow in (True, False):
                try:
                    st = os.stat(x) if follow else os.lstat(x)
                except OSError:
                    kr.append((follow, cwd, x, None))
                    continue
                kr.append((follow, cwd, x, st))
        finally:
            os.chdir(old)
    return fr, kr


def run_world(ck, idx: int, plan: list, cases: list | None, ncases: int, tracer: Tracer):
    """Materialise, run cases on the implementation, return (texts for coq, bookkeeping)."""
    root = os.path.join(ck.scratch, f"w{idx}")
    shutil.rmtree(root, ignore_errors=True)
    materialise(plan, root)
    snap = Snapshot(root)
    if cases is None:
        cases = gen_cases(ck.rng, root, ncases)
    results = []
    for j, c in enumerate(cases):
        if any(o[0] == "world" for o in c["ops"]):
            # the history changes the world: it gets a private copy
            croot = os.path.join(os.path.dirname(root), "m", f"{os.path.basename(root)}_{j}")
            shutil.rmtree(croot, ignore_errors=True)
            materialise(plan, croot)
            obs = run_impl(c, croot, tracer, Snapshot(croot))
        else:
            croot = root
            obs = run_impl(c, root, tracer, snap)
        for o in obs:
            o["root"] = croot
        bad = oracle(c, obs, None, croot)
        results.append((c, obs, bad))
    fr, kr = function_rows(ck.rng, [c for c in cases if not any(o[0] == "world" for o in c["ops"])], root, plan)
    return root, snap, results, fr, kr


def world_text(root, snap, results, fr, kr, idx) -> str:
    fsname = f"fs{idx}"
    t = [f"Definition {fsname} : node := {snap.term}."]
    names = {id(snap): fsname}
    terms = []
    for j, (c, o, _) in enumerate(results):
        for k, st in enumerate(o):
            if id(st["snap"]) not in names:
                names[id(st["snap"])] = f"fs{idx}_{j}_{k}"
                t.append(f"Definition fs{idx}_{j}_{k} : node := {st['snap'].term}.")
        croot = o[0]["root"] if o else root
        terms.append(hcase_term(c, o, croot, names, names[id(o[0]["snap"])] if o else fsname))
    t.append(f"Definition hcases{idx} : list hcase := [\n  " + ";\n  ".join(terms) + "].")
    crows = []
    mid = {"numpy": 0, "array": 1, "tobytes": 2, "tofile": 3, "serialize": 4}
    for c, o, _ in results:
        for op, st in zip(c["ops"], o):
            if op[0] in mid:
                evs = ["ECheckOk" if e[3] == "ok" else "ECheckRaise" for e in st["events"] if e[0] == "C"] if False else \
                    [("ECheckOk" if e[3] == "ok" else "ECheckRaise") if e[0] == "C" else "EOpen"
                     for e in st["events"] if e[0] in ("C", "O")]
                crows.append(f"({cN(mid[op[0]])}, {clist(evs)})")
    t.append(f"Definition crows{idx} : list (N * list cev) := {clist(crows)}.")
    rows = []
    for f, cwd, a, b, e in fr:
        rows.append(f"({cN(f)}, {fsname}, {c_rpath(os.path.join(root, cwd))}, {s_lit(a)}, {s_lit(b)}, {s_lit(e)})")
    t.append(f"Definition frows{idx} : list frow := [\n  " + ";\n  ".join(rows) + "].")
    rows = []
    for follow, cwd, x, st in kr:
        if st is None:
            e = "None"
        elif statmod.S_ISDIR(st.st_mode):
            d = snap.dir_path.get((st.st_dev, st.st_ino))
            if d is None:
                continue
            e = f"(Some (0%N, {s_lit(d)}, {cN(st.st_nlink)}))"
        elif statmod.S_ISLNK(st.st_mode):
            old = os.getcwd()
            os.chdir(os.path.join(root, cwd))
            try:
                e = f"(Some (2%N, {s_lit(os.readlink(x))}, 0%N))"
            finally:
                os.chdir(old)
        else:
            i = snap.ino_id.get((st.st_dev, st.st_ino))
            if i is None:
                continue
            e = f"(Some (1%N, [{cN(i)}], {cN(st.st_nlink)}))"
        rows.append(f"({'true' if follow else 'false'}, {fsname}, {c_rpath(os.path.join(root, cwd))}, {s_lit(x)}, {e})")
    t.append(f"Definition krows{idx} : list krow := [\n  " + ";\n  ".join(rows) + "].")
    return "\n".join(t) + "\n"


def filter_krows(kr, snap):
    out = []
    for follow, cwd, x, st in kr:
        if st is not None and not statmod.S_ISLNK(st.st_mode):
            key = (st.st_dev, st.st_ino)
            if statmod.S_ISDIR(st.st_mode) and key not in snap.dir_path:
                continue
            if statmod.S_ISREG(st.st_mode) and key not in snap.ino_id:
                continue
        out.append((follow, cwd, x, st))
    return out


def batch_text(batch: list) -> str:
    text = CASE_HEADER
    for idx, root, snap, results, fr, kr in batch:
        text += world_text(root, snap, results, fr, kr, idx)
        text += (f"Eval vm_compute in (failing hagree hcases{idx}).\n"
                 f"Eval vm_compute in (failing fagree frows{idx}).\n"
                 f"Eval vm_compute in (failing kagree krows{idx}).\n"
                 f"Eval vm_compute in (failing cagree crows{idx}).\n")
    return text


def eval_worlds(ck, batch: list, tag: str, text: str | None = None) -> list:
    """batch: list of (idx, root, snap, results, fr, kr). Returns per world (hfail, ffail, kfail) index lists."""
    import re
    if text is None:
        text = batch_text(batch)
    rc, out = ck.coq_eval(text, tag)
    if rc != 0:
        raise RuntimeError(f"case file {tag} did not compile:\n{out[-3000:]}")
    lists = re.findall(r"=\s*(\[[^\]]*\]|nil)", out)
    if len(lists) != 4 * len(batch):
        raise RuntimeError(f"case file {tag}: expected {4 * len(batch)} result lists, got {len(lists)}:\n{out[-2000:]}")
    parsed = [[] if l == "nil" else [int(x) for x in re.findall(r"\d+", l)] for l in lists]
    return [tuple(parsed[4 * i:4 * i + 4]) for i in range(len(batch))]


# =========================================================================== onnx_ir.load

def build_model_file(path: str, inside_loc: str, escape_loc: str, with_extras: bool = True, extras_root: str | None = None) -> None:
    """A model whose external tensors sit in every place load() should visit: graph initializer, node
    attribute, subgraph initializer, and a node attribute inside a model-local function."""
    import onnx
    from onnx import TensorProto, helper

    # extra external_data entries a model file can carry (kept in tensor.meta since fb2515e): none of them may move
    # the base directory away from the directory of the model file
    outside_abs = os.path.join(os.path.dirname(os.path.dirname(os.path.abspath(path))), "outside") \
        if extras_root is None else os.path.join(extras_root, "outside")
    extras = {"init_in": [("basepath", "../outside"), ("checksum", "0123abcd")],
              "subinit_in": [("basepath", outside_abs)],
              "func_in": [("basepath", ".."), ("unknown_key", "v")],
              "attr_esc": [("basepath", "."), ("checksum", "ff")],
              "func_esc": [("Basepath", "../outside"), ("base_dir", outside_abs)]}

    def ext(name, loc):
        t = TensorProto()
        t.name = name
        t.data_type = TensorProto.UINT8
        t.dims.extend([2])
        t.data_location = TensorProto.EXTERNAL
        e = t.external_data.add()
        e.key, e.value = "location", loc
        for k, v in extras.get(name, []) if with_extras else []:
            e = t.external_data.add()
            e.key, e.value = k, v
        return t

    fn = helper.make_function(
        "dom", "F", [], ["c"],
        [helper.make_node("Constant", [], ["c"], value=ext("func_in", inside_loc)),
         helper.make_node("Constant", [], ["c2"], value=ext("func_esc", escape_loc))],
        [helper.make_opsetid("", 18)])
    sub = helper.make_graph([helper.make_node("Constant", [], ["sc"], value=ext("subattr_esc", escape_loc))], "sub", [],
                            [helper.make_tensor_value_info("sc", TensorProto.UINT8, [2])],
                            initializer=[ext("subinit_in", inside_loc)])
    g = helper.make_graph(
        [helper.make_node("F", [], ["y"], domain="dom"),
         helper.make_node("If", ["cond"], ["o"], then_branch=sub, else_branch=sub),
         helper.make_node("Constant", [], ["gc"], value=ext("attr_esc", escape_loc))],
        "g", [helper.make_tensor_value_info("cond", TensorProto.BOOL, [])],
        [helper.make_tensor_value_info("y", TensorProto.UINT8, [2])],
        initializer=[ext("init_in", inside_loc), ext("init_esc", escape_loc)])
    m = helper.make_model(g, functions=[fn],
                          opset_imports=[helper.make_opsetid("", 18), helper.make_opsetid("dom", 1)])
    onnx.save(m, path)


def model_tensors(model) -> list:
    """[(where, tensor)] for every ExternalTensor of a loaded model, found by walking the public IR."""
    import onnx_ir as ir
    out = []

    def visit_graph(gr, where):
        for v in gr.initializers.values():
            if isinstance(v.const_value, ir.ExternalTensor):
                out.append((where, v.const_value))
        for n in gr:
            visit_node(n, where)

    def visit_node(n, where):
        for a in n.attributes.values():
            if a.type == ir.AttributeType.TENSOR and isinstance(a.value, ir.ExternalTensor):
                out.append((where, a.value))
            elif a.type == ir.AttributeType.GRAPH:
                visit_graph(a.value, where)
            elif a.type == ir.AttributeType.GRAPHS:
                for g2 in a.value:
                    visit_graph(g2, where)

    visit_graph(model.graph, "graph")
    for f in model.functions.values():
        for n in f:
            visit_node(n, "function")
    seen, uniq = set(), []
    for w, t in out:
        if id(t) not in seen:
            seen.add(id(t))
            uniq.append((w, t))
    return uniq


def load_spellings(rng, d: str, links_to: list) -> list:
    """(cwd rel, spelling) for the model file m.onnx in world dir d."""
    parts = d.split("/") if d else []
    sp = [("", W + "/" + (d + "/" if d else "") + "m.onnx"),
          (d, "m.onnx"),                                  # bare file name
          (d, "./m.onnx"),
          (d, ".//m.onnx"),
          ("", (d + "/" if d else "") + "m.onnx"),
          ("", "/" + W + "/" + (d + "/" if d else "") + "m.onnx"),
          ("", W + "/" + (d + "/" if d else "") + "./m.onnx")]
    if parts:
        sp.append(("/".join(parts[:-1]), parts[-1] + "/m.onnx"))
        sp.append((d, "../" + parts[-1] + "/m.onnx"))
    for l in links_to:
        sp.append(("", W + "/" + l + "/m.onnx"))
        sp.append(("", l + "/m.onnx"))
    return sp


def run_load(root: str, d: str, cwd: str, spelling: str, snap: Snapshot, entry_dir: str | None = None) -> dict:
    """ir.load with one spelling; observations: base_dir of every tensor + what reading it gives."""
    import onnx_ir as ir
    old = os.getcwd()
    os.chdir(os.path.join(root, cwd))
    obs = {"tensors": []}
    try:
        try:
            model = ir.load(spelling.replace(W, root))
        except Exception as e:  # noqa: BLE001
            obs["load_error"] = common.exn_name(e)
            return obs
        # the model's directory = the directory holding the ENTRY that was named (the model file may itself be a
        # symlink into another directory: locations are relative to where the link is, not to where it points)
        want = os.stat(os.path.join(root, d if entry_dir is None else entry_dir))
        for where, t in model_tensors(model):
            b = os.fspath(t.base_dir)
            ent = {"where": where, "name": t.name, "base_dir": b}
            try:
                st = os.stat(b) if b else None
                ent["same_dir"] = bool(st) and (st.st_dev, st.st_ino) == (want.st_dev, want.st_ino)
            except OSError:
                ent["same_dir"] = False
            try:
                ent["read"] = ["ok", bytes(t.tobytes())]
            except Exception as e:  # noqa: BLE001
                ent["read"] = ["raise", common.exn_name(e)]
            t.release()
            obs["tensors"].append(ent)
    finally:
        os.chdir(old)
    return obs


def oracle_load(obs: dict, canary: int, inside_fid: int | None = None) -> list:
    """(where, message) failures: base_dir non-empty and the model's directory for EVERY tensor; no canary bytes."""
    bad = []
    if "load_error" in obs:
        return [("load", "load raised " + obs["load_error"])]
    for e in obs["tensors"]:
        if e["base_dir"] == "":
            bad.append((e["where"], f"{e['name']}: base_dir is empty after load"))
        elif not e["same_dir"]:
            bad.append((e["where"], f"{e['name']}: base_dir {e['base_dir']!r} is not the model's directory"))
        if e["read"][0] == "ok" and canary in e["read"][1]:
            bad.append((e["where"], f"{e['name']}: read canary bytes from outside the model directory"))
        if inside_fid is not None and e["name"].endswith("_in") and e["read"][0] == "ok" \
                and set(e["read"][1]) != {inside_fid}:
            bad.append((e["where"], f"{e['name']}: read the same-named data file of another directory "
                                    f"(bytes {e['read'][1]!r}, expected the model directory's file, content byte {inside_fid})"))
        if e["name"].endswith("_esc") and e["read"][0] == "ok":
            bad.append((e["where"], f"{e['name']}: escaping location was read"))
    return bad


# model files that are themselves symlinks: into a sibling directory, through a symlinked directory, chains;
# every directory has its own w.bin (distinct content byte) so the bytes tell which one was read
LOAD_LINK_PLAN = [["dir", "pub"], ["file", "pub/w.bin", 11, 4], ["dir", "pub2"], ["file", "pub2/w.bin", 12, 4],
                  ["symlink", "pub/m.onnx", "../da/m.onnx"], ["symlink", "pub/m2.onnx", "m.onnx"],
                  ["symlink", "pub2/m.onnx", "../pub/m2.onnx"], ["symlink", "lpub", "pub"],
                  ["symlink", "pub2/abs.onnx", W + "/lbase/m.onnx"]]
LINK_SPELLINGS = [("", W + "/pub/m.onnx", "pub"), ("pub", "m.onnx", "pub"), ("", "pub/m.onnx", "pub"),
                  ("", "lpub/m.onnx", "pub"), ("", W + "/lpub/m2.onnx", "pub"), ("pub", "./m2.onnx", "pub"),
                  ("", "pub2/m.onnx", "pub2"), ("pub2", "m.onnx", "pub2"), ("pub2", "abs.onnx", "pub2"),
                  ("da", "../pub2/abs.onnx", "pub2"), ("", W + "//pub2/../pub/m.onnx", "pub")]
# '..' after a symlinked directory in the model path: lsub -> da/sub, so lsub/../m.onnx IS da/m.onnx (the lexical
# reading would be <root>/m.onnx); <root>/w.bin has its own content byte so a lexically collapsed base is visible
LOAD_DOTDOT_PLAN = [["symlink", "lsub", "da/sub"], ["file", "w.bin", 13, 4], ["symlink", "pub/lsub2", "../da/sub"]]
DOTDOT_SPELLINGS = [("", "lsub/../m.onnx", "da"), ("", W + "/lsub/../m.onnx", "da"), ("", "./lsub/../m.onnx", "da"),
                    ("", "lsub/..//m.onnx", "da"), ("", "lsub/.././m.onnx", "da"), ("pub", "../lsub/../m.onnx", "da"),
                    ("pub", "lsub2/../m.onnx", "da"), ("", W + "/pub/lsub2/../m.onnx", "da"),
                    ("da", "sub/up/sub/../m.onnx", "da"), ("", "/" + W + "/lsub/../m.onnx", "da")]
DIR_FID = {"da": 7, "pub": 11, "pub2": 12}
LOAD_PLAN = [["dir", "da"], ["dir", "da/sub"], ["dir", "outside"], ["file", "outside/secret", 200, 8],
             ["file", "outside/w.bin", 200, 4],
             ["file", "da/w.bin", 7, 4], ["symlink", "lbase", "da"], ["symlink", "da/sub/up", ".."]]


def load_tie(ck, idx: int):
    """Returns (frows for coq [(5, cwd, spelling, '', observed graph base)], failures [(case, bad)])."""
    root = os.path.join(ck.scratch, f"lw{idx}")
    shutil.rmtree(root, ignore_errors=True)
    materialise(LOAD_PLAN + LOAD_LINK_PLAN + LOAD_DOTDOT_PLAN, root)
    snap = Snapshot(root)
    failures, rows, n = [], [], 0
    for d, links in (("da", ["lbase", "da/sub/up"]), ("", []), ("da/sub", [])):
        mp = os.path.join(root, d, "m.onnx")
        esc = ck.rng.choice(["../outside/secret", root + "/outside/secret", "../" * 3 + "outside/secret"]) \
            if d else root + "/../" + os.path.basename(root) + "x"
        if d == "da/sub":
            esc = "../../outside/secret"
        inside = "w.bin" if d == "da" else ("../w.bin" if d == "da/sub" else "da/w.bin")
        build_model_file(mp, inside, esc, extras_root=root)
        spellings = [(c, sp, None) for c, sp in load_spellings(ck.rng, d, links)]
        if d == "da":
            esc = "../outside/secret"          # escapes from da, pub and pub2 alike
            build_model_file(mp, inside, esc, extras_root=root)
            spellings += LINK_SPELLINGS + DOTDOT_SPELLINGS
        for cwd, sp, entry_dir in spellings:
            obs = run_load(root, d, cwd, sp, snap, entry_dir)
            n += 1
            ck.count()
            ck.hist("load_spellings", ("dotdot-after-symlinked-dir:" if (cwd, sp, entry_dir) in DOTDOT_SPELLINGS else
                                       "symlinked-model-file:" if entry_dir else "") +
                    ("bare" if "/" not in sp else ("absolute" if sp.startswith(("/", W)) else "relative")))
            bad = oracle_load(obs, 200, DIR_FID.get(entry_dir or d) if d == "da" else None)
            case = {"kind": "load", "plan": LOAD_PLAN + LOAD_LINK_PLAN + LOAD_DOTDOT_PLAN, "dir": d, "cwd": cwd, "spelling": sp,
                    "inside": inside, "escape": esc.replace(root, W), "entry_dir": entry_dir,
                    "inside_fid": DIR_FID.get(entry_dir or d) if d == "da" else None}
            if bad:
                failures.append((case, bad, obs))
            seen_where = set()
            for e in obs["tensors"]:      # model: load_model gives load_base(p) to graph AND function tensors
                if e["where"] not in seen_where:
                    seen_where.add(e["where"])
                    rows.append((5, cwd, sp.replace(W, root), "", e["base_dir"]))
                    ck.hist("load_tensor_positions", e["where"])
            ck.nontriv(("load", d, cwd, sp))
        os.remove(mp)
    return root, snap, rows, failures, n


def replay_load_case(case: dict, root: str) -> list:
    shutil.rmtree(root, ignore_errors=True)
    materialise(case["plan"], root)
    snap = Snapshot(root)
    build_model_file(os.path.join(root, case["dir"], "m.onnx"), case["inside"], case["escape"].replace(W, root), extras_root=root)
    obs = run_load(root, case["dir"], case["cwd"], case["spelling"], snap, case.get("entry_dir"))
    return oracle_load(obs, 200, case.get("inside_fid"))


# =========================================================================== replay / shrink / search

def run_history_case(item: dict, root: str, tracer: Tracer) -> tuple[list, list]:
    shutil.rmtree(root, ignore_errors=True)
    materialise(item["plan"], root)
    snap = Snapshot(root)
    obs = run_impl(item["case"], root, tracer, snap)
    return obs, oracle(item["case"], obs, None, root)


def shrink_history(item: dict, root: str, tracer: Tracer) -> dict:
    def fails(it):
        try:
            return bool(run_history_case(it, root, tracer)[1])
        except Exception:  # noqa: BLE001
            return False
    cur = json.loads(json.dumps(item))
    # single ops first
    ops = cur["case"]["ops"]
    for i in range(len(ops)):
        for cand in (ops[:i + 1], [o for o in ops[:i] if o[0] in ("setbase", "world")] + [ops[i]], [ops[i]]):
            c2 = json.loads(json.dumps(cur))
            c2["case"]["ops"] = cand
            if len(cand) < len(cur["case"]["ops"]) and fails(c2):
                cur = c2
    changed = True
    while changed:
        changed = False
        for i in range(len(cur["plan"]) - 1, -1, -1):
            c2 = json.loads(json.dumps(cur))
            del c2["plan"][i]
            if fails(c2):
                cur, changed = c2, True
    for key, val in (("off", None), ("len", None)):
        if cur["case"][key] != val:
            c2 = json.loads(json.dumps(cur))
            c2["case"][key] = val
            if fails(c2):
                cur = c2
    return cur


def search(ck, tracer: Tracer) -> bool:
    """After a broken obligation / correspondence: fresh worlds, oracle only."""
    budget = 40 if not ck.thorough else 400
    for i in range(budget):
        plan = gen_world(ck.rng)
        root = os.path.join(ck.scratch, "search")
        shutil.rmtree(root, ignore_errors=True)
        materialise(plan, root)
        snap = Snapshot(root)
        for c in gen_cases(ck.rng, root, 40):
            if any(o[0] == "world" for o in c["ops"]):
                obs, bad = run_history_case({"plan": plan, "case": c}, os.path.join(ck.scratch, "searchm"), tracer)
            else:
                obs = run_impl(c, root, tracer, snap)
                bad = oracle(c, obs, None, root)
            ck.count()
            if bad:
                small = shrink_history({"kind": "history", "plan": plan, "case": c}, os.path.join(ck.scratch, "shrink"), tracer)
                _, bad2 = run_history_case(small, os.path.join(ck.scratch, "shrink"), tracer)
                ck.violation(dict(small, failures=bad2, broken=ck.broken_items))
                return True
    return False


def replay(rp: dict) -> int:
    kind = rp.get("kind")
    root = os.path.join(common.SCRATCH_ROOT, f"replay-C10-{os.getpid()}", "w")
    os.makedirs(os.path.dirname(root), exist_ok=True)
    try:
        if kind == "history":
            tr = Tracer()
            tr.install()
            ensure_audit()
            try:
                obs, bad = run_history_case(rp, root, tr)
            finally:
                tr.uninstall()
            print(json.dumps({"case": rp["case"], "observed": [[o["events"], [o["res"][0], repr(o["res"][1])]] for o in obs],
                              "failures": bad}, indent=1, default=str))
            return 1 if bad else 0
        if kind == "traverse":
            bad = oracle_traverse(rp["spec"], run_traverse(rp["spec"], root))
            print(json.dumps({"spec": rp["spec"], "failures": bad}, indent=1))
            return 1 if bad else 0
        if kind == "load":
            bad = replay_load_case(rp, root)
            print(json.dumps({"case": {k: rp[k] for k in ("dir", "cwd", "spelling", "escape")}, "failures": bad}, indent=1))
            return 1 if bad else 0
        print("replay names a broken obligation/correspondence, no concrete input:",
              json.dumps(rp.get("broken"), indent=1)[:3000])
        return 1
    finally:
        shutil.rmtree(os.path.dirname(root), ignore_errors=True)


# =========================================================================== main

def load_known_key(bad: list) -> str | None:
    """A load failure is the known finding iff every failing tensor is inside a model-local function."""
    return "load-function-tensors" if bad and all(w == "function" for w, _ in bad) else None


def run(ck) -> None:
    import logging
    import warnings
    logging.disable(logging.WARNING)
    warnings.filterwarnings("ignore", message="Ignoring unknown external data key")
    ck.trust("Coq 8.16.1 kernel (coqc; vm_compute in case files; no native_compute)",
             "harness/props/c10.py (world/location generators, lstat snapshot -> Coq node literal, tracer, oracle)",
             "modelled not verified: POSIX path resolution (kwalk: dirs/regular files/symlinks, nesting bound instead of "
             "Linux's 40-links-per-walk), CPython 3.12 posixpath (py_* transcriptions, validated against os.path on every run), "
             "mmap/np.frombuffer/copy_file_range (bytes = file[offset:offset+n])",
             "not modelled: TOCTOU between check and open, non-POSIX normcase, special files (FIFO/device), permissions, "
             "non-ASCII names, embedded NUL")
    ck.assumptions += ["POSIX platform (os.sep == '/', normcase = identity)", "file system unchanged between check and open",
                       "only directories, regular files and symlinks under the model directory"]
    ck.coverage["rule"] = ("nontrivial = a history step whose check passed the lexical layer and was decided by realpath / "
                           "st_nlink / open (i.e. reached symlink, hard-link or kernel resolution), or a load() spelling")
    generate(ck)
    ck.prove()
    tracer = Tracer()
    tracer.install()
    ensure_audit()
    try:
        _run(ck, tracer)
    finally:
        tracer.uninstall()


def _run(ck, tracer: Tracer) -> None:
    os.makedirs(os.path.join(ck.scratch, "m"), exist_ok=True)    # private copies of worlds for world-changing histories
    n_worlds = 10 if not ck.thorough else 300
    per_world = 30 if not ck.thorough else 45
    oracle_fail = []          # (item, bad)
    plans = {}
    batches, batch = [], []
    widx = 0
    # 1. corpus first (each item is its own world)
    corpus_dir = os.path.join(common.CORPUS, "C10")
    corpus_items = []
    if os.path.isdir(corpus_dir):
        for fn in sorted(os.listdir(corpus_dir)):
            with open(os.path.join(corpus_dir, fn)) as f:
                corpus_items.append((fn, json.load(f)))
    for fn, it in corpus_items:
        if it.get("kind") == "history":
            root, snap, results, fr, kr = run_world(ck, widx, it["plan"], [it["case"]], 0, tracer)
            batch.append((widx, root, snap, results, fr[:60], filter_krows(kr, snap)[:60]))
            plans[widx] = it["plan"]
            for c, o, bad in results:
                ck.count()
                if bad:
                    oracle_fail.append(({"kind": "history", "plan": it["plan"], "case": c}, bad))
            widx += 1
        elif it.get("kind") == "load":
            bad = replay_load_case(it, os.path.join(ck.scratch, "corpus_load"))
            ck.count()
            key = load_known_key(bad)
            if bad and not (key and ck.known(key)):
                oracle_fail.append((it, [m for _, m in bad]))
    # 2. generated worlds
    for _ in range(n_worlds):
        plan = gen_world(ck.rng)
        root, snap, results, fr, kr = run_world(ck, widx, plan, None, per_world, tracer)
        kr = filter_krows(kr, snap)
        # keep the function-level rows affordable: all joins, a sample of the rest
        if len(fr) > 260:
            fr = [r for r in fr if r[0] == 1] + ck.rng.sample([r for r in fr if r[0] != 1], 200)
        if len(kr) > 120:
            kr = ck.rng.sample(kr, 120)
        batch.append((widx, root, snap, results, fr, kr))
        plans[widx] = plan
        for c, o, bad in results:
            ck.count()
            _account(ck, c, o)
            if bad:
                oracle_fail.append(({"kind": "history", "plan": plan, "case": c}, bad))
        for r in fr:
            ck.hist("function_rows", ["normpath", "join", "dirname", "abspath", "realpath", "load_base", "parse_render"][r[0]])
        ck.hist("function_rows", "kernel stat/lstat", len(kr))
        ck.count(len(fr) + len(kr))
        if len(batch) >= 3:
            batches.append(batch)
            batch = []
        widx += 1
    # 3. load()
    lroot, lsnap, lrows, lfail, nload = load_tie(ck, 0)
    batch.append((widx, lroot, lsnap, [], lrows, []))
    batches.append(batch)
    # 3b. load(): which tensors get the base directory (C10/Traverse.v)
    traversal_tie(ck)
    # 4. the model, inside Coq
    ntraces = 0
    import concurrent.futures as cf

    texts = [batch_text(b) for b in batches]      # os.chdir is process-wide: build the texts in this thread

    def _ev(arg):
        bi, b = arg
        try:
            return eval_worlds(ck, b, f"cases_{bi}", texts[bi])
        except RuntimeError as e:
            return e
    with cf.ThreadPoolExecutor(max_workers=4) as ex:
        all_res = list(ex.map(_ev, enumerate(batches)))
    for b, res in zip(batches, all_res):
        if isinstance(res, RuntimeError):
            ck.broken("correspondence:case-file", str(res))
            continue
        for (idx, root, snap, results, fr, kr), (hf, ff, kf, cf_) in zip(b, res):
            ntraces += len(results)
            ck.hist("function_rows", "call-structure trace acceptance",
                    sum(1 for c, o, _ in results for op in c["ops"] if op[0] in OPS))
            if cf_:
                flat = [(c, op, st) for c, o, _ in results for op, st in zip(c["ops"], o) if op[0] in OPS]
                for j in cf_[:3]:
                    c, op, st = flat[j]
                    ck.broken("correspondence:call-structure",
                              json.dumps({"kind": "history", "case": c, "plan": plans.get(idx), "op": op,
                                          "events_not_a_trace_of_the_extracted_method": st["events"]}, default=str))
            for j in hf[:3]:
                c, o, bad = results[j]
                ck.broken("correspondence:ExternalTensor-history",
                          json.dumps({"kind": "history", "case": c, "plan": plans.get(idx),
                                      "impl": [[s["events"], [s["res"][0], repr(s["res"][1])]] for s in o]}, default=str))
            for j in ff[:3]:
                name = ["normpath", "join", "dirname", "abspath", "realpath", "load_base", "parse_render"][fr[j][0]]
                ck.broken(f"correspondence:os.path.{name}", json.dumps({"row": fr[j]}, default=str))
            for j in kf[:3]:
                f, cwd, x, st = kr[j]
                ck.broken("correspondence:kernel-resolution", json.dumps({"follow": f, "cwd": cwd, "path": x,
                                                                          "impl": None if st is None else [oct(st.st_mode), st.st_nlink]}))
    ck.coverage["traces_validated_against_impl"] = ntraces
    # 5. known findings: replayed on the implementation on every run
    for k in ck._known:
        if k.get("status") != "known":
            continue
        bad = replay_load_case(k["witness"], os.path.join(ck.scratch, "known"))
        if load_known_key(bad) == k["key"]:
            ck.known_finding(k["key"], k["what"])
        else:
            ck.broken(f"known-finding-stale:{k['key']}",
                      "the recorded witness no longer fails (or fails differently) on the implementation: " + json.dumps(bad))
    for case, bad, obs in lfail:
        key = load_known_key(bad)
        if key and ck.known(key):
            ck.known_finding(key, ck.known(key)["what"])
        else:
            oracle_fail.append((case, [m for w, m in bad if not (w == "function" and ck.known("load-function-tensors"))]
                                or [m for _, m in bad]))
    # 6. oracle failures -> shrink -> VIOLATION
    reported = set()
    for item, bad in oracle_fail:
        sig = tuple(sorted(set(b.split(":", 1)[-1].split("[")[0][:40] for b in bad)))
        if sig in reported or len(ck.violations) >= 4:
            continue
        reported.add(sig)
        if item.get("kind") == "history":
            small = shrink_history(item, os.path.join(ck.scratch, "shrink"), tracer)
            _, bad2 = run_history_case(small, os.path.join(ck.scratch, "shrink"), tracer)
            ck.violation(dict(small, failures=bad2 or bad, broken=ck.broken_items))
        else:
            ck.violation(dict(item, failures=bad, broken=ck.broken_items))
    # 7. something broken but no failing input yet: search
    if ck.broken_items and not ck.violations:
        search(ck, tracer)


def _account(ck, c: dict, obs: list) -> None:
    for op, o in zip(c["ops"], obs):
        ck.hist("ops", op[0])
        if op[0] == "world":
            for m in op[1]:
                ck.hist("world_mutations", m[0])
        r = o["res"]
        ck.hist("outcomes", "bytes" if (r[0] == "ok" and r[1]) else ("ok-empty" if r[0] == "ok" else r[1]))
        ev = o["events"]
        shape = "+".join(e[0] + (":" + ("ok" if e[3] == "ok" else "raise") if e[0] == "C" else "") for e in ev) or "none"
        ck.hist("event_shapes", shape)
        if any(e[0] == "O" for e in ev):
            ck.nontriv((c["base"], c["loc"], c["cwd"], op[0], shape))
    b = c["base"]
    ck.hist("base_spelling", "absolute" if b.startswith(("/", W)) else ("dot" if b in (".", "./") else "relative"))
    if len(ck.coverage["samples"]) < 5 and any(e[0] == "R" for o in obs for e in o["events"]):
        ck.sample({"cwd": c["cwd"], "base": c["base"], "loc": c["loc"], "ops": c["ops"],
                   "impl": [[o["events"], [o["res"][0], repr(o["res"][1])]] for o in obs]})


# =========================================================================== call structure (fail-closed ast extraction)

import ast as _ast

CORE_SRC = os.path.join(REPO, "src", "onnx_ir", "_core.py")
ED_SRC = os.path.join(REPO, "src", "onnx_ir", "external_data.py")
PATH_CONSUMERS = {"open", "fromfile", "memmap", "load", "loadtxt", "copyfile", "copy", "copy2", "sendfile",
                  "read_bytes", "read_text", "mmap", "Path", "FileIO", "BufferedReader", "fopen", "readinto"}
PATH_FIELDS = {"_base_dir", "_location"}
SKIP_METHODS = {"__init__", "path", "base_dir", "location", "_check_path_containment"}


class CallUnsupported(Exception):
    pass


def _is_self_attr(n, names=None):
    return isinstance(n, _ast.Attribute) and isinstance(n.value, _ast.Name) and n.value.id == "self" \
        and (names is None or n.attr in names)


def _mentions_path(n) -> bool:
    return any(_is_self_attr(x, {"path"} | PATH_FIELDS) for x in _ast.walk(n))


def _callee_name(c: _ast.Call) -> str:
    f = c.func
    return f.id if isinstance(f, _ast.Name) else (f.attr if isinstance(f, _ast.Attribute) else "?")


class _MethodTranslator:
    """One method body -> stm term.  Everything that is not recognised and mentions self.path / base_dir /
    location, an open-like call, or a call of a method that (transitively) does, is rejected."""

    def __init__(self, cls: _ast.ClassDef):
        self.cls = cls
        self.methods = {f.name: f for f in cls.body if isinstance(f, _ast.FunctionDef)
                        and not any(isinstance(d, _ast.Attribute) and d.attr == "setter" for d in f.decorator_list)}
        self.dirty = self._dirty_closure()

    def _direct_dirty(self, f) -> bool:
        for n in _ast.walk(f):
            if _is_self_attr(n, {"path"}) or (_is_self_attr(n, PATH_FIELDS) and isinstance(n.ctx, _ast.Store)):
                return True
            if isinstance(n, _ast.Call):
                if _is_self_attr(n.func, {"_check_path_containment"}):
                    return True
                if _callee_name(n) in PATH_CONSUMERS and any(_mentions_path(a) for a in n.args + [k.value for k in n.keywords]):
                    return True
                if isinstance(n.func, _ast.Name) and n.func.id == "open":
                    return True
        return False

    def _dirty_closure(self) -> set:
        dirty = {m for m, f in self.methods.items() if m not in SKIP_METHODS and self._direct_dirty(f)}
        changed = True
        while changed:
            changed = False
            for m, f in self.methods.items():
                if m in dirty or m in SKIP_METHODS:
                    continue
                for n in _ast.walk(f):
                    if isinstance(n, _ast.Call) and _is_self_attr(n.func) and n.func.attr in dirty:
                        dirty.add(m)
                        changed = True
                        break
        return dirty

    # ---- expressions: must be free of anything interesting
    def clean_expr(self, e, where: str, allow_path_in_message=False):
        if e is None:
            return
        for n in _ast.walk(e):
            if _is_self_attr(n, {"path"}) and not allow_path_in_message:
                raise CallUnsupported(f"{where}: self.path used outside open(self.path, 'rb') / an error message: {_ast.unparse(e)[:80]}")
            if isinstance(n, _ast.Call):
                if _is_self_attr(n.func) and (n.func.attr in self.dirty or n.func.attr == "_check_path_containment"):
                    raise CallUnsupported(f"{where}: call of {n.func.attr} inside an expression: {_ast.unparse(e)[:80]}")
                if isinstance(n.func, _ast.Name) and n.func.id == "open":
                    raise CallUnsupported(f"{where}: open() inside an expression: {_ast.unparse(e)[:80]}")
                if _callee_name(n) in PATH_CONSUMERS and any(_mentions_path(a) for a in n.args + [k.value for k in n.keywords]):
                    raise CallUnsupported(f"{where}: path consumer {_callee_name(n)} on the tensor's path: {_ast.unparse(e)[:80]}")
            if isinstance(n, (_ast.Lambda, _ast.NamedExpr)) and _mentions_path(n):
                raise CallUnsupported(f"{where}: {type(n).__name__} mentioning the path")

    def seq(self, stmts, where) -> str:
        raw = [self.stmt(s, where) for s in stmts]
        parts = []
        for p_ in raw:          # consecutive skips collapse into one (a skip is still a point where a raise can end the run)
            if p_ == "SSkip" and parts and parts[-1] == "SSkip":
                continue
            parts.append(p_)
        if not parts:
            return "SSkip"
        out = parts[-1]
        for p in reversed(parts[:-1]):
            out = f"(SSeq {p} {out})"
        return out

    def stmt(self, s, where) -> str:
        if isinstance(s, _ast.Expr):
            v = s.value
            if isinstance(v, _ast.Constant):
                return "SSkip"
            if isinstance(v, _ast.Call) and _is_self_attr(v.func):
                if v.func.attr == "_check_path_containment" and not v.args and not v.keywords:
                    return "SCheck"
                if v.func.attr in self.dirty:
                    for a in v.args + [k.value for k in v.keywords]:
                        self.clean_expr(a, where)
                    return f"(SCall m_{_coq_name(v.func.attr)})"
            self.clean_expr(v, where)
            return "SSkip"
        if isinstance(s, _ast.With):
            opens = 0
            for it in s.items:
                c = it.context_expr
                if isinstance(c, _ast.Call) and isinstance(c.func, _ast.Name) and c.func.id == "open":
                    ok = (len(c.args) == 2 and _is_self_attr(c.args[0], {"path"}) and isinstance(c.args[1], _ast.Constant)
                          and c.args[1].value == "rb" and not c.keywords)
                    if not ok:
                        raise CallUnsupported(f"{where}: open() not of the form open(self.path, 'rb'): {_ast.unparse(c)}")
                    opens += 1
                else:
                    self.clean_expr(c, where)
            body = self.seq(s.body, where)
            for _ in range(opens):
                body = f"(SSeq SOpen {body})"
            return body
        if isinstance(s, _ast.If):
            self.clean_expr(s.test, where)
            return f"(SIf {self.seq(s.body, where)} {self.seq(s.orelse, where)})"
        if isinstance(s, _ast.Return):
            self.clean_expr(s.value, where)
            return "SRet"
        if isinstance(s, _ast.Raise):
            self.clean_expr(s.exc, where, allow_path_in_message=True)
            self.clean_expr(s.cause, where, allow_path_in_message=True)
            return "SRaise"
        if isinstance(s, _ast.Assert):
            self.clean_expr(s.test, where)
            return "SSkip"
        if isinstance(s, (_ast.Assign, _ast.AugAssign, _ast.AnnAssign)):
            targets = s.targets if isinstance(s, _ast.Assign) else [s.target]
            self.clean_expr(s.value, where)
            mut = any(_is_self_attr(x, PATH_FIELDS) for t in targets for x in _ast.walk(t))
            return "SMut" if mut else "SSkip"
        if isinstance(s, (_ast.While, _ast.For)):
            self.clean_expr(s.test if isinstance(s, _ast.While) else s.iter, where)
            return f"(SSeq (SLoop {self.seq(s.body, where)}) {self.seq(s.orelse, where)})"
        if isinstance(s, _ast.Try):
            body = self.seq(s.body, where)
            if any(k in body for k in ("SCheck", "SOpen", "SMut", "SCall", "SRet")):
                raise CallUnsupported(f"{where}: try body with check/open/call/return is outside the supported shape")
            hs = "SSkip"
            for h in s.handlers:
                hs = f"(SIf {self.seq(h.body, where)} {hs})"
            return f"(SSeq {body} (SSeq {hs} (SSeq {self.seq(s.orelse, where)} {self.seq(s.finalbody, where)})))"
        if isinstance(s, (_ast.Pass, _ast.Break, _ast.Continue, _ast.Delete, _ast.Global, _ast.Nonlocal)):
            if isinstance(s, (_ast.Break, _ast.Continue)):
                return "SSkip"      # loops are "zero or more iterations of the body": an early exit is a prefix of one
            return "SSkip"
        # anything else must not mention anything interesting at all
        dump = _ast.unparse(s)
        for n in _ast.walk(s):
            if _is_self_attr(n, {"path"} | PATH_FIELDS) or (isinstance(n, _ast.Call) and (
                    (isinstance(n.func, _ast.Name) and n.func.id == "open") or
                    (_is_self_attr(n.func) and (n.func.attr in self.dirty or n.func.attr == "_check_path_containment")))):
                raise CallUnsupported(f"{where}: unsupported statement {type(s).__name__}: {dump[:80]}")
        return "SSkip"


def _coq_name(m: str) -> str:
    return m.strip("_").replace("__", "_") or "anon"


def extract_calls() -> str:
    """Gen/C10Gen.v: the call structure of every ExternalTensor method that can reach the data file, and of the
    external_data helpers that read external tensors."""
    with open(CORE_SRC, encoding="utf-8") as f:
        core = _ast.parse(f.read())
    cls = next(n for n in core.body if isinstance(n, _ast.ClassDef) and n.name == "ExternalTensor")
    tr = _MethodTranslator(cls)
    # setters other than base_dir must not touch the path fields
    for f in cls.body:
        if isinstance(f, _ast.FunctionDef) and any(isinstance(d, _ast.Attribute) and d.attr == "setter" for d in f.decorator_list):
            if f.name != "base_dir" and any(_is_self_attr(n, PATH_FIELDS) for n in _ast.walk(f)):
                raise CallUnsupported(f"setter {f.name} touches base_dir/location")
    # dependency order
    order, seen = [], set()

    def visit(m, stack=()):
        if m in seen:
            return
        if m in stack:
            raise CallUnsupported(f"recursive call structure through {m}")
        for n in _ast.walk(tr.methods[m]):
            if isinstance(n, _ast.Call) and _is_self_attr(n.func) and n.func.attr in tr.dirty and n.func.attr != m:
                visit(n.func.attr, stack + (m,))
        seen.add(m)
        order.append(m)
    for m in sorted(tr.dirty):
        visit(m)
    lines = ["(* GENERATED by harness/props/c10.py (extract_calls / extract_check) from /repo/src/onnx_ir/_core.py, _io.py and",
             "   external_data.py on every run — do not edit. *)",
             "From Coq Require Import NArith List Bool.", "From IRV Require Import Base.Exn C10.Model C10.CallModel C10.CheckDsl.",
             "Import ListNotations.", ""]
    for m in order:
        body = tr.seq(tr.methods[m].body, f"ExternalTensor.{m}")
        lines.append(f"Definition m_{_coq_name(m)} : stm := {body}.")
    # ---- external_data.py: how the conversion helpers read an external tensor
    with open(ED_SRC, encoding="utf-8") as f:
        ed = _ast.parse(f.read())
    path_uses = []
    for fn in _ast.walk(ed):
        if isinstance(fn, (_ast.FunctionDef, _ast.AsyncFunctionDef)):
            for n in _ast.walk(fn):
                if isinstance(n, _ast.Attribute) and n.attr == "path" and not (isinstance(n.value, _ast.Name) and n.value.id == "os"):
                    path_uses.append((fn.name, n))
                if isinstance(n, _ast.Call):
                    nm = _callee_name(n)
                    if nm in ("fromfile", "memmap", "loadtxt", "read_bytes", "mmap") or (nm == "load" and isinstance(n.func, _ast.Attribute)
                                                                                         and isinstance(n.func.value, _ast.Name) and n.func.value.id in ("np", "numpy")):
                        raise CallUnsupported(f"external_data.{fn.name}: direct file read {nm}(): {_ast.unparse(n)[:80]}")
                    if isinstance(n.func, _ast.Name) and n.func.id == "open":
                        mode = n.args[1].value if len(n.args) > 1 and isinstance(n.args[1], _ast.Constant) else None
                        if mode not in ("wb", "r+b", "w+b", "ab"):
                            raise CallUnsupported(f"external_data.{fn.name}: open() that is not a destination write: {_ast.unparse(n)[:80]}")
    # the only allowed use of <tensor>.path: as an argument of _paths_refer_to_same_file (os.path.samefile: stat only)
    allowed = 0
    for fn in _ast.walk(ed):
        name_only = isinstance(fn, _ast.Call) and (
            (isinstance(fn.func, _ast.Name) and fn.func.id == "_paths_refer_to_same_file") or
            # os.path.<f>(tensor.path): operations on the NAME (realpath/samefile/exists...), no byte is read
            (isinstance(fn.func, _ast.Attribute) and _ast.unparse(fn.func.value) == "os.path"))
        if name_only:
            allowed += sum(1 for a in fn.args if isinstance(a, _ast.Attribute) and a.attr == "path")
    uniq = {}
    for u in path_uses:
        uniq.setdefault(id(u[1]), u)
    real_uses = [u for u in uniq.values() if not (isinstance(u[1].value, _ast.Attribute) and u[1].value.attr == "path")]
    if len(real_uses) != allowed:
        raise CallUnsupported("external_data.py uses <tensor>.path outside _paths_refer_to_same_file()/os.path.*(): " +
                              ", ".join(sorted({u[0] for u in real_uses})))
    # which tensor methods the helpers call
    def tensor_calls(fname: str) -> list:
        fn = next(n for n in _ast.walk(ed) if isinstance(n, _ast.FunctionDef) and n.name == fname)
        out = []
        for n in _ast.walk(fn):
            if isinstance(n, _ast.Call) and isinstance(n.func, _ast.Attribute) and isinstance(n.func.value, _ast.Name) \
                    and n.func.value.id == "tensor" and n.func.attr in tr.methods:
                out.append(n.func.attr)
        return out
    for fname, coq in (("_external_tensor_to_memory_tensor", "ed_to_memory"), ("_write_tensor_at", "ed_write_tensor_at")):
        calls = [c for c in tensor_calls(fname) if c in tr.dirty]
        if not calls:
            raise CallUnsupported(f"external_data.{fname} no longer reads the tensor through its methods")
        term = "SSkip"
        for c in calls:
            term = f"(SIf (SCall m_{_coq_name(c)}) {term})"
        lines.append(f"Definition {coq} : stm := {term}.")
    names = [f"m_{_coq_name(m)}" for m in order] + ["ed_to_memory", "ed_write_tensor_at"]
    lines.append("Definition reading_methods : list stm := " + clist(names) + ".")
    return "\n".join(lines) + "\n", names


def generate(ck) -> bool:
    try:
        text, names = extract_calls()
        text += "\n" + extract_check()
    except (CallUnsupported, SyntaxError, OSError, StopIteration) as e:
        ck.gen_failed("C10Gen", e)
        return False
    ck.gen("C10Gen", text)
    return True


# =========================================================================== load() traversal (C10/Traverse.v)

def gen_tree(rng, depth=0, counter=None) -> dict:
    """A graph spec: {"inits": [tensor], "nodes": [[attr...]]}; tensor = {"id", "ext", "name"}."""
    counter = counter if counter is not None else [0]

    def tensor(init=False):
        counter[0] += 1
        extra = []
        if rng.random() < 0.35:
            extra = rng.choice([[["basepath", "{R}/out"]], [["basepath", "../out"]], [["basepath", ".."]], [["basepath", "sub"]],
                                [["basepath", "."]], [["checksum", "00ff"]], [["whatever", "x"], ["basepath", "md/../../out"]],
                                [["BasePath", "../out"]], [["basepath", ""]]])
        return {"id": counter[0], "ext": rng.random() < 0.75, "extra": extra,
                "name": f"i{counter[0]}" if init else rng.choice(["t0", "t1", "t2", f"u{counter[0]}"])}   # names repeat on purpose
    g = {"inits": [tensor(True) for _ in range(rng.randrange(0, 3))], "nodes": []}
    for _ in range(rng.randrange(0, 4 if depth < 2 else 2)):
        attrs = []
        for _ in range(rng.randrange(0, 4)):
            k = rng.random()
            if k < 0.3:
                attrs.append(["t", tensor()])
            elif k < 0.45:
                attrs.append(["ts", [tensor() for _ in range(rng.randrange(0, 3))]])
            elif k < 0.7 and depth < 3:
                attrs.append(["g", gen_tree(rng, depth + 1, counter)])
            elif k < 0.85 and depth < 3:
                attrs.append(["gs", [gen_tree(rng, depth + 1, counter) for _ in range(rng.randrange(0, 3))]])
            else:
                attrs.append(["i"])
        g["nodes"].append(attrs)
    return g


def gen_model_spec(rng) -> dict:
    counter = [0]
    spec = {"graph": gen_tree(rng, 0, counter), "funcs": []}
    for _ in range(rng.randrange(0, 3)):
        spec["funcs"].append(gen_tree(rng, 1, counter)["nodes"])
    return spec


def _tensor_proto(t: dict, root: str = ""):
    from onnx import TensorProto
    p = TensorProto()
    p.name = t["name"]
    p.doc_string = str(t["id"])
    p.data_type = TensorProto.UINT8
    p.dims.extend([1])
    if t["ext"]:
        p.data_location = TensorProto.EXTERNAL
        e = p.external_data.add()
        e.key, e.value = "location", "w.bin"
        for k, v in t.get("extra", []):
            e = p.external_data.add()
            e.key, e.value = k, v.replace("{R}", root)
    else:
        p.raw_data = b"\x01"
    return p


def _graph_proto(g: dict, name: str, ctr: list, root: str = ""):
    from onnx import helper
    nodes = []
    for attrs in g["nodes"]:
        ctr[0] += 1
        kw = {}
        for j, a in enumerate(attrs):
            if a[0] == "t":
                kw[f"a{j}"] = _tensor_proto(a[1], root)
            elif a[0] == "ts":
                if a[1]:
                    kw[f"a{j}"] = [_tensor_proto(x, root) for x in a[1]]
            elif a[0] == "g":
                kw[f"a{j}"] = _graph_proto(a[1], f"{name}_g{ctr[0]}_{j}", ctr, root)
            elif a[0] == "gs":
                if a[1]:
                    kw[f"a{j}"] = [_graph_proto(x, f"{name}_gs{ctr[0]}_{j}_{k}", ctr, root) for k, x in enumerate(a[1])]
            else:
                kw[f"a{j}"] = 1
        nodes.append(helper.make_node("Xop", [], [f"o{ctr[0]}"], **kw))
    return helper.make_graph(nodes, name, [], [], initializer=[_tensor_proto(t, root) for t in g["inits"]])


def run_traverse(spec: dict, root: str) -> dict:
    """Save the generated model, ir.load it, and look at every tensor with an independent walk of the public IR."""
    import onnx
    from onnx import helper
    import onnx_ir as ir
    shutil.rmtree(root, ignore_errors=True)
    os.makedirs(os.path.join(root, "md", "sub"))
    os.makedirs(os.path.join(root, "out"))
    with open(os.path.join(root, "md", "w.bin"), "wb") as f:
        f.write(b"\x07")
    for other in ("out/w.bin", "md/sub/w.bin", "w.bin"):      # same-named data files elsewhere (canaries)
        with open(os.path.join(root, other), "wb") as f:
            f.write(b"\xc8")
    ctr = [0]
    g = _graph_proto(spec["graph"], "main", ctr, root)
    funcs = []
    for i, body in enumerate(spec["funcs"]):
        fg = _graph_proto({"inits": [], "nodes": body}, f"f{i}", ctr, root)
        funcs.append(helper.make_function("dom", f"F{i}", [], [], list(fg.node), [helper.make_opsetid("", 18)]))
    m = helper.make_model(g, functions=funcs, opset_imports=[helper.make_opsetid("", 18), helper.make_opsetid("dom", 1)])
    path = os.path.join(root, "md", "m.onnx")
    onnx.save(m, path)
    old = os.getcwd()
    os.chdir(root)
    try:
        model = ir.load("md/m.onnx")
        want = os.stat("md")
        seen = {}

        def vt(t):
            if t is None:
                return
            tid = int(t.doc_string) if t.doc_string else -1
            ext = isinstance(t, ir.ExternalTensor)
            ok = False
            if ext and t.base_dir:
                try:
                    st = os.stat(os.fspath(t.base_dir))
                    ok = (st.st_dev, st.st_ino) == (want.st_dev, want.st_ino)
                except OSError:
                    ok = False
            rd = None
            if ext:
                try:
                    rd = bytes(t.tobytes())
                except Exception as e:  # noqa: BLE001
                    rd = common.exn_name(e)
                t.release()
            seen[tid] = {"ext": ext, "base": os.fspath(t.base_dir) if ext else None, "ok": ok, "read": rd}

        def vg(gr):
            for v in gr.initializers.values():
                vt(v.const_value)
            for n in gr:
                vn(n)

        def vn(n):
            for a in n.attributes.values():
                if a.type == ir.AttributeType.TENSOR:
                    vt(a.value)
                elif a.type == ir.AttributeType.TENSORS:
                    for x in a.value:
                        vt(x)
                elif a.type == ir.AttributeType.GRAPH:
                    vg(a.value)
                elif a.type == ir.AttributeType.GRAPHS:
                    for x in a.value:
                        vg(x)
        vg(model.graph)
        for f in model.functions.values():
            for n in f:
                vn(n)
    finally:
        os.chdir(old)
    return seen


def spec_tensors(spec: dict) -> list:
    out = []

    def g(gr):
        out.extend(gr["inits"])
        for attrs in gr["nodes"]:
            n(attrs)

    def n(attrs):
        for a in attrs:
            if a[0] == "t":
                out.append(a[1])
            elif a[0] == "ts":
                out.extend(a[1])
            elif a[0] == "g":
                g(a[1])
            elif a[0] == "gs":
                for x in a[1]:
                    g(x)
    g(spec["graph"])
    for body in spec["funcs"]:
        for attrs in body:
            n(attrs)
    return out


def oracle_traverse(spec: dict, seen: dict) -> list:
    bad = []
    for t in spec_tensors(spec):
        o = seen.get(t["id"])
        if o is None:
            bad.append(f"tensor {t['id']} ({t['name']}) not found in the loaded model")
        elif t["ext"] and not o["ok"]:
            bad.append(f"external tensor {t['id']} ({t['name']}, extra entries {t.get('extra')}): base_dir {o['base']!r} "
                       "is not the model's directory after load")
        elif t["ext"] and isinstance(o.get("read"), bytes) and o["read"] != b"\x07":
            bad.append(f"external tensor {t['id']}: read {o['read']!r}, not the model directory's data file")
    return bad


def _c_tens(t):
    return f"({cN(t['id'])}, {'true' if t['ext'] else 'false'})"


def _c_graph(g) -> str:
    return f"(Graph {clist(_c_tens(t) for t in g['inits'])} {clist(_c_tnode(n) for n in g['nodes'])})"


def _c_tnode(attrs) -> str:
    out = []
    for a in attrs:
        if a[0] == "t":
            out.append(f"ATensor {_c_tens(a[1])}")
        elif a[0] == "ts":
            out.append(f"ATensors {clist(_c_tens(x) for x in a[1])}" if a[1] else "AOther")   # an empty list attribute is not emitted
        elif a[0] == "g":
            out.append(f"AGraph {_c_graph(a[1])}")
        elif a[0] == "gs":
            out.append(f"AGraphs {clist(_c_graph(x) for x in a[1])}" if a[1] else "AOther")
        else:
            out.append("AOther")
    return f"(Node {clist(out)})"


def shrink_traverse(spec: dict, root: str) -> dict:
    def fails(sp):
        try:
            return bool(oracle_traverse(sp, run_traverse(sp, root)))
        except Exception:  # noqa: BLE001
            return False
    cur = json.loads(json.dumps(spec))
    changed = True
    while changed:
        changed = False
        cands = []
        for i in range(len(cur["funcs"])):
            c = json.loads(json.dumps(cur)); del c["funcs"][i]; cands.append(c)
        for i in range(len(cur["graph"]["nodes"])):
            c = json.loads(json.dumps(cur)); del c["graph"]["nodes"][i]; cands.append(c)
        for i in range(len(cur["graph"]["inits"])):
            c = json.loads(json.dumps(cur)); del c["graph"]["inits"][i]; cands.append(c)
        for i, n in enumerate(cur["graph"]["nodes"]):
            for j in range(len(n)):
                c = json.loads(json.dumps(cur)); del c["graph"]["nodes"][i][j]; cands.append(c)
        for c in cands:
            if fails(c):
                cur, changed = c, True
                break
    return cur


def traversal_tie(ck) -> None:
    n = 40 if not ck.thorough else 600
    root = os.path.join(ck.scratch, "trav")
    rows, specs = [], []
    fail = None
    for i in range(n):
        spec = gen_model_spec(ck.rng)
        seen = run_traverse(spec, root)
        ck.count()
        bad = oracle_traverse(spec, seen)
        if bad and fail is None:
            fail = (spec, bad)
        mterm = f"(mkModel {_c_graph(spec['graph'])} {clist(clist(_c_tnode(a) for a in body) for body in spec['funcs'])})"
        for t in spec_tensors(spec):
            o = seen.get(t["id"], {"ok": False})
            rows.append((len(specs), t, bool(o["ok"])))
            ck.hist("traversal_positions", "external" if t["ext"] else "inline")
            for k, _v in (t.get("extra") or []) if t["ext"] else []:
                ck.hist("external_data_extra_entries", k)
        specs.append((spec, mterm))
        if spec["funcs"] or any(a[0] in ("g", "gs") for nn in spec["graph"]["nodes"] for a in nn):
            ck.nontriv(("traverse", json.dumps(spec)))
    text = ("From Coq Require Import NArith List Bool.\nFrom IRV Require Import Base.Exn C10.Traverse.\nImport ListNotations.\n" +
            "\n".join(f"Definition tm{i} : model := {m}." for i, (_, m) in enumerate(specs)) + "\n" +
            "Definition trows : list (model * tens * bool) := " +
            clist(f"(tm{i}, {_c_tens(t)}, {'true' if ok else 'false'})" for i, t, ok in rows).replace("; (", ";\n (") + ".\n" +
            "Eval vm_compute in (failing (fun r => Bool.eqb (gets_base (fst (fst r)) (snd (fst r))) (snd r)) trows).\n")
    try:
        failing = ck.coq_failing(text, "cases_traverse")
    except RuntimeError as e:
        failing = []
        ck.broken("correspondence:case-file-traverse", str(e))
    ck.hist("function_rows", "load traversal (tensor positions)", len(rows))
    for j in failing[:3]:
        i, t, ok = rows[j]
        ck.broken("correspondence:load-traversal", json.dumps({"kind": "traverse", "spec": specs[i][0], "tensor": t, "impl_got_base": ok}))
    if fail is not None:
        small = shrink_traverse(fail[0], root)
        ck.violation({"kind": "traverse", "spec": small, "failures": oracle_traverse(small, run_traverse(small, root)),
                      "broken": ck.broken_items})
    elif failing:
        # the model disagrees but the first pass saw no failing tensor: look harder
        for _ in range(200):
            spec = gen_model_spec(ck.rng)
            bad = oracle_traverse(spec, run_traverse(spec, root))
            ck.count()
            if bad:
                small = shrink_traverse(spec, root)
                ck.violation({"kind": "traverse", "spec": small, "failures": oracle_traverse(small, run_traverse(small, root)),
                              "broken": ck.broken_items})
                break
    shutil.rmtree(root, ignore_errors=True)


# =========================================================================== statement-by-statement translation of the check

IO_SRC = os.path.join(REPO, "src", "onnx_ir", "_io.py")
_EXN_OK = {"ValueError", "TypeError", "OSError", "RuntimeError", "AssertionError"}


class _CheckTranslator:
    """_check_path_containment (and the `path` property, load()'s base_dir expression) -> Gallina over C10/CheckDsl.v.
    Whitelist only; everything else raises CallUnsupported (fail closed)."""

    def __init__(self):
        self.locals: dict[str, str] = {}      # python local -> type
        self.binds: list[tuple[str, str]] = []
        self.fresh = 0

    def lit(self, sval: str) -> str:
        return "(" + clist(cN(ord(c)) for c in sval) + " : str)"

    def expr(self, e) -> tuple[str, str]:
        if isinstance(e, _ast.Name):
            if e.id not in self.locals:
                raise CallUnsupported(f"check: unknown name {e.id}")
            return e.id + "_", self.locals[e.id]
        if _is_self_attr(e, {"_base_dir"}):
            return "base", "str"
        if _is_self_attr(e, {"_location"}):
            return "loc", "str"
        if _is_self_attr(e, {"path"}):
            return "(gen_path base loc)", "str"
        if isinstance(e, _ast.Attribute) and _ast.unparse(e) == "os.sep":
            return "o_sep", "str"
        if isinstance(e, _ast.Constant):
            if isinstance(e.value, bool) or e.value is None:
                raise CallUnsupported("check: constant " + repr(e.value))
            if isinstance(e.value, int) and e.value >= 0:
                return cN(e.value), "N"
            if isinstance(e.value, str):
                return self.lit(e.value), "str"
            raise CallUnsupported("check: constant " + repr(e.value))
        if isinstance(e, _ast.BinOp) and isinstance(e.op, _ast.Add):
            a, ta = self.expr(e.left)
            b, tb = self.expr(e.right)
            if ta == tb == "str":
                return f"({a} ++ {b})", "str"
            raise CallUnsupported("check: + on " + ta + "/" + tb)
        if isinstance(e, _ast.IfExp):
            c = self.cond(e.test)
            a, ta = self.expr(e.body)
            b, tb = self.expr(e.orelse)
            if ta != tb:
                raise CallUnsupported("check: conditional expression of two types")
            return f"(if {c} then {a} else {b})", ta
        if isinstance(e, _ast.BoolOp) and isinstance(e.op, _ast.Or) and len(e.values) == 2:
            # `x or "."` on strings
            a, ta = self.expr(e.values[0])
            b, tb = self.expr(e.values[1])
            if ta == tb == "str":
                return f"(if is_nil {a} then {b} else {a})", "str"
            raise CallUnsupported("check: `or` on non-strings")
        if isinstance(e, _ast.Attribute) and e.attr == "st_nlink":
            raise CallUnsupported("check: os.stat(...).st_nlink outside the try/except OSError form")
        if isinstance(e, _ast.Call):
            fn = _ast.unparse(e.func)
            if e.keywords:
                raise CallUnsupported(f"check: keyword arguments in {fn}")
            args = [self.expr(a) for a in e.args]
            one = len(args) == 1 and args[0][1] == "str"
            if fn == "os.fspath" and one:
                return f"(o_fspath {args[0][0]})", "str"
            if fn == "os.path.normcase" and one:
                return f"(o_normcase {args[0][0]})", "str"
            if fn == "os.path.normpath" and one:
                return f"(o_normpath {args[0][0]})", "str"
            if fn == "os.path.abspath" and one:
                return f"(o_abspath cwd {args[0][0]})", "str"
            if fn == "os.path.dirname" and one:
                return f"(o_dirname {args[0][0]})", "str"
            if fn == "os.path.join" and len(args) == 2 and args[0][1] == args[1][1] == "str":
                return f"(o_join {args[0][0]} {args[1][0]})", "str"
            if fn == "os.path.realpath" and one:
                self.fresh += 1
                v = f"r{self.fresh}_"
                self.binds.append((v, f"o_realpath kf fs cwd pf {args[0][0]}"))
                return v, "str"
            raise CallUnsupported(f"check: call {fn}({len(args)} args) is not in the translated subset")
        raise CallUnsupported("check: expression " + _ast.unparse(e)[:60])

    def cond(self, e) -> str:
        if isinstance(e, _ast.BoolOp):
            op = "&&" if isinstance(e.op, _ast.And) else "||"
            return "(" + f" {op} ".join(self.cond(v) for v in e.values) + ")"
        if isinstance(e, _ast.UnaryOp) and isinstance(e.op, _ast.Not):
            try:
                return f"(negb {self.cond(e.operand)})"
            except CallUnsupported:
                t, ty = self.expr(e.operand)     # `not <string>`
                if ty == "str":
                    return f"(is_nil {t})"
                raise
        if isinstance(e, _ast.Compare) and len(e.ops) == 1:
            a, ta = self.expr(e.left)
            b, tb = self.expr(e.comparators[0])
            op = e.ops[0]
            if ta == tb == "str" and isinstance(op, _ast.NotEq):
                return f"(negb (str_eqb {a} {b}))"
            if ta == tb == "str" and isinstance(op, _ast.Eq):
                return f"(str_eqb {a} {b})"
            if ta == tb == "N" and isinstance(op, _ast.Gt):
                return f"({b} <? {a})%N"
            if ta == tb == "N" and isinstance(op, _ast.Lt):
                return f"({a} <? {b})%N"
            raise CallUnsupported("check: comparison " + _ast.unparse(e))
        if isinstance(e, _ast.Call) and isinstance(e.func, _ast.Attribute) and e.func.attr in ("startswith", "endswith") \
                and len(e.args) == 1 and not e.keywords:
            a, ta = self.expr(e.func.value)
            b, tb = self.expr(e.args[0])
            if ta == tb == "str":
                return f"(o_{e.func.attr} {a} {b})"
        raise CallUnsupported("check: condition " + _ast.unparse(e)[:60])

    def with_binds(self, body: str) -> str:
        for v, call in reversed(self.binds):
            body = f"obind ({call}) (fun {v} =>\n  {body})"
        self.binds = []
        return body

    def stmts(self, body: list) -> str:
        if not body:
            return "Some (Ok tt)"
        s, rest = body[0], body[1:]
        if isinstance(s, _ast.Expr) and isinstance(s.value, _ast.Constant) and isinstance(s.value.value, str):
            return self.stmts(rest)
        if isinstance(s, _ast.If) and not s.orelse and len(s.body) == 1:
            inner = s.body[0]
            c = self.cond(s.test)
            if self.binds:
                raise CallUnsupported("check: realpath inside a condition")
            if isinstance(inner, _ast.Return) and inner.value is None:
                return f"if {c} then Some (Ok tt) else\n  {self.stmts(rest)}"
            if isinstance(inner, _ast.Raise) and isinstance(inner.exc, _ast.Call) and isinstance(inner.exc.func, _ast.Name) \
                    and inner.exc.func.id in _EXN_OK and inner.cause is None:
                for a in inner.exc.args:      # the message: a (f-)string over locals, no calls
                    if any(isinstance(n, _ast.Call) for n in _ast.walk(a)):
                        raise CallUnsupported("check: call inside an exception message")
                return f"if {c} then Some (Raise {inner.exc.func.id}) else\n  {self.stmts(rest)}"
            raise CallUnsupported("check: if-body " + _ast.unparse(inner)[:60])
        if isinstance(s, _ast.Assign) and len(s.targets) == 1 and isinstance(s.targets[0], _ast.Name):
            t, ty = self.expr(s.value)
            name = s.targets[0].id
            self.locals[name] = ty
            k = f"let {name}_ := {t} in\n  "
            binds, self.binds = self.binds, []
            out = k + self.stmts(rest)
            self.binds = binds
            return self.with_binds(out)
        if isinstance(s, _ast.Try) and not s.orelse and not s.finalbody and len(s.body) == 1 and len(s.handlers) == 1:
            a, h = s.body[0], s.handlers[0]
            ok = (isinstance(a, _ast.Assign) and len(a.targets) == 1 and isinstance(a.targets[0], _ast.Name)
                  and isinstance(a.value, _ast.Attribute) and a.value.attr == "st_nlink"
                  and isinstance(a.value.value, _ast.Call) and _ast.unparse(a.value.value.func) == "os.stat"
                  and len(a.value.value.args) == 1 and not a.value.value.keywords
                  and isinstance(h.type, _ast.Name) and h.type.id == "OSError" and len(h.body) == 1
                  and isinstance(h.body[0], _ast.Assign) and len(h.body[0].targets) == 1
                  and isinstance(h.body[0].targets[0], _ast.Name) and h.body[0].targets[0].id == a.targets[0].id)
            if not ok:
                raise CallUnsupported("check: try statement outside the `x = os.stat(p).st_nlink / except OSError: x = c` form")
            p_, ty = self.expr(a.value.value.args[0])
            d, td = self.expr(h.body[0].value)
            if ty != "str" or td != "N" or self.binds:
                raise CallUnsupported("check: try statement operands")
            name = a.targets[0].id
            self.locals[name] = "N"
            return (f"let {name}_ := match o_stat_nlink kf fs cwd {p_} with Some n => n | None => {d} end in\n  "
                    + self.stmts(rest))
        raise CallUnsupported("check: statement " + _ast.unparse(s)[:70])


def _norm_dump(stmts) -> str:
    return "\n".join(_ast.dump(x) for x in stmts
                     if not (isinstance(x, _ast.Expr) and isinstance(x.value, _ast.Constant) and isinstance(x.value.value, str)))


def extract_check() -> str:
    with open(CORE_SRC, encoding="utf-8") as f:
        core = _ast.parse(f.read())
    cls = next(n for n in core.body if isinstance(n, _ast.ClassDef) and n.name == "ExternalTensor")
    fns = [f for f in cls.body if isinstance(f, _ast.FunctionDef)]
    out = []
    # ---- the `path` property
    pth = next(f for f in fns if f.name == "path")
    body = [x for x in pth.body if not (isinstance(x, _ast.Expr) and isinstance(x.value, _ast.Constant))]
    if len(body) != 1 or not isinstance(body[0], _ast.Return):
        raise CallUnsupported("ExternalTensor.path is not a single return")
    tr = _CheckTranslator()
    t, ty = tr.expr(body[0].value)
    if ty != "str" or tr.binds:
        raise CallUnsupported("ExternalTensor.path: unsupported expression")
    out.append("(* ExternalTensor.path : `" + _ast.unparse(body[0].value) + "` *)")
    out.append(f"Definition gen_path (base loc : str) : str := {t}.")
    # ---- base_dir getter/setter, location: plain field accessors (anything else changes what the check sees)
    for f in fns:
        is_setter = any(isinstance(d, _ast.Attribute) and d.attr == "setter" for d in f.decorator_list)
        if f.name == "base_dir":
            want = "self._base_dir = value" if is_setter else "return self._base_dir"
        elif f.name == "location" and not is_setter:
            want = "return self._location"
        else:
            continue
        b = [x for x in f.body if not (isinstance(x, _ast.Expr) and isinstance(x.value, _ast.Constant))]
        if len(b) != 1 or _ast.unparse(b[0]) != want:
            raise CallUnsupported(f"ExternalTensor.{f.name} {'setter' if is_setter else 'getter'} is not `{want}`: "
                                  + "; ".join(_ast.unparse(x) for x in b)[:100])
    init = next(f for f in fns if f.name == "__init__")
    stores = sorted(_ast.unparse(n) for n in _ast.walk(init) if isinstance(n, _ast.Assign)
                    and any(_is_self_attr(t_, PATH_FIELDS) for t_ in n.targets))
    if stores != ["self._base_dir = base_dir", "self._location = location"]:
        raise CallUnsupported("ExternalTensor.__init__ stores base_dir/location differently: " + "; ".join(stores))
    out.append("Definition gen_fields_are_plain : bool := true.   (* base_dir getter/setter, location, __init__: plain stores *)")
    # ---- the check itself
    chk = next(f for f in fns if f.name == "_check_path_containment")
    if chk.args.args != [] and [a.arg for a in chk.args.args] != ["self"]:
        raise CallUnsupported("_check_path_containment takes arguments")
    if chk.decorator_list:
        raise CallUnsupported("_check_path_containment is decorated")
    tr = _CheckTranslator()
    text = tr.stmts(chk.body)
    out.append("(* ExternalTensor._check_path_containment, statement by statement *)")
    out.append("Definition gen_check (kf : nat) (fs : node) (cwd : rpath) (pf : nat) (base loc : str) : option (res unit) :=\n  "
               + text + ".")
    # ---- _io.load: straight-line, base_dir expression translated
    with open(IO_SRC, encoding="utf-8") as f:
        io_ = _ast.parse(f.read())
    ld = next(n for n in io_.body if isinstance(n, _ast.FunctionDef) and n.name == "load")
    body = [x for x in ld.body if not (isinstance(x, _ast.Expr) and isinstance(x.value, _ast.Constant))]
    shape = [type(x).__name__ for x in body]
    if shape != ["Assign", "Assign", "Assign", "Expr", "For", "Return"]:
        raise CallUnsupported("_io.load is no longer the straight line proto/model/base_dir/set_base_dir/for/return: " + str(shape))
    if _ast.unparse(body[3]) != "_external_data.set_base_dir(model.graph, base_dir)":
        raise CallUnsupported("_io.load: " + _ast.unparse(body[3]))
    fr = body[4]
    if not (_ast.unparse(fr.target) == "function" and _ast.unparse(fr.iter) == "model.functions.values()" and len(fr.body) == 1
            and _ast.unparse(fr.body[0]) == "_external_data.set_base_dir(function, base_dir)" and not fr.orelse):
        raise CallUnsupported("_io.load: functions loop changed: " + _ast.unparse(fr)[:100])
    if _ast.unparse(body[5]) != "return model" or _ast.unparse(body[1]) != "model = serde.deserialize_model(proto)":
        raise CallUnsupported("_io.load: model/return changed")
    ba = body[2]
    if not (len(ba.targets) == 1 and _ast.unparse(ba.targets[0]) == "base_dir"):
        raise CallUnsupported("_io.load: third statement is not the base_dir assignment")
    tr = _CheckTranslator()
    tr.locals["path"] = "str"
    t, ty = tr.expr(ba.value)
    if ty != "str" or tr.binds:
        raise CallUnsupported("_io.load: base_dir expression")
    out.append("(* _io.load : base_dir = `" + _ast.unparse(ba.value) + "`; then set_base_dir(model.graph), set_base_dir(f) for every function, return *)")
    out.append(f"Definition gen_load_base (path_ : str) : str := {t}.")
    # ---- external_data.set_base_dir: assigns base_dir, unconditionally, to every ExternalTensor of _all_tensors
    with open(ED_SRC, encoding="utf-8") as f:
        ed = _ast.parse(f.read())
    sb = next(n for n in ed.body if isinstance(n, _ast.FunctionDef) and n.name == "set_base_dir")
    b = [x for x in sb.body if not (isinstance(x, _ast.Expr) and isinstance(x.value, _ast.Constant))]
    want = ("for tensor in _all_tensors(graph, include_attributes=True):\n"
            "    if isinstance(tensor, _core.ExternalTensor):\n        tensor.base_dir = base_dir")
    if len(b) != 1 or _ast.unparse(b[0]) != want:
        raise CallUnsupported("external_data.set_base_dir changed: " + "; ".join(_ast.unparse(x) for x in b)[:160])
    out.append("Definition gen_set_base_dir_is_plain : bool := true.   (* for t in _all_tensors(g, True): if ExternalTensor: t.base_dir = base_dir *)")
    return "\n".join(out) + "\n"

"""C05 — every built-in pass, alone or composed, preserves what the model computes.

(The running log of decisions is kept at the end of this docstring; see LOG.)

Decided by
  * Coq theorems (coq/theories/C05/Property.v) about an executable Gallina model (C05/Model.v): graph IR
    terms (flat table of graphs, values = object identities), a demand-driven denotational semantics `den`
    over UNINTERPRETED operators (Section variables `interp`, `tensor_val`; hypotheses: Identity is the
    identity, Constant returns its attribute, operators are functions of (op id, attributes incl. type,
    body denotations, inputs, #outputs) and monotone in their body denotations, trailing absent inputs are
    ignored), and the passes as functions on terms.
  * Tie (i) structural correspondence: the real pass is run on generated valid models, the IR before/after
    is converted to the term language and `model_agree (pass_model before) after` is evaluated inside Coq
    (fresh identities compared up to renumbering).  Tie (ii) Gen/C05Gen.v: the non-deterministic operator
    set is regenerated from common_subexpression_elimination.py on every run.
  * Oracle (the property itself, public API only): onnx.checker before/after, number/order/type of outputs
    and non-initializer inputs, execution before/after with onnx.reference.ReferenceEvaluator (and
    onnxruntime when it loads both) on random inputs, bitwise NaN-aware comparison; pass sequences <= 4.

Readings of the English
  * "for all inputs": inputs are fed BY POSITION of the non-initializer inputs (OutputFixPass and the inliner
    rename graph inputs; the property speaks of number and order only) — the weaker reading.
  * a pass that raises on a checker-valid model produces no transformed model: reported as a violation of
    kind "pass-raised" (PreconditionError excepted), because the statement quantifies over every valid model.
  * non-deterministic operators are only generated with an explicit seed.
"""

from __future__ import annotations

import ast
import base64
import collections
import json
import os
import random
import struct

import numpy as np

import translate as T
from harness import common
from harness.common import REPO
from harness.props import _c05_gen as G

CSE_SRC = os.path.join(REPO, "src", "onnx_ir", "passes", "common", "common_subexpression_elimination.py")


# --------------------------------------------------------------------------- translation (Gen/C05Gen.v)

_RET_NONDET = ("Return(value=BoolOp(op=And(), values=[Compare(left=Attribute(value=Name(id='node', ctx=Load()), attr='op_type', "
               "ctx=Load()), ops=[In()], comparators=[Name(id='non_deterministic_ops', ctx=Load())]), Call(func=Name(id="
               "'_is_onnx_domain', ctx=Load()), args=[Attribute(value=Name(id='node', ctx=Load()), attr='domain', ctx=Load())], "
               "keywords=[])]))")
_RET_DOMAIN = "Return(value=Compare(left=Name(id='d', ctx=Load()), ops=[Eq()], comparators=[Constant(value='')]))"


def gen_text() -> str:
    mod = T._src(CSE_SRC)
    fn = T.find_function(mod, "_is_non_deterministic_op")
    ops = None
    for st in fn.body:
        if isinstance(st, ast.Assign) and len(st.targets) == 1 and isinstance(st.targets[0], ast.Name) \
                and st.targets[0].id == "non_deterministic_ops":
            ops = T.literal(st.value)
    if ops is None or not all(isinstance(o, str) for o in ops):
        raise T.Unsupported("non_deterministic_ops literal not found in _is_non_deterministic_op")
    if ast.dump(fn.body[-1]) != _RET_NONDET:
        raise T.Unsupported("unexpected shape of _is_non_deterministic_op: " + ast.dump(fn.body[-1]))
    fn2 = T.find_function(mod, "_is_onnx_domain")
    if ast.dump(fn2.body[-1]) != _RET_DOMAIN:
        raise T.Unsupported("unexpected shape of _is_onnx_domain: " + ast.dump(fn2.body[-1]))
    text = T.HEADER + ("(* translated from common_subexpression_elimination.py::_is_non_deterministic_op "
                       "(set literal; predicate = op_type in set and domain == \"\") *)\n")
    text += "Definition nondet_ops : list (list N) :=\n  [" + ";\n   ".join(T.coq_string_codes(o) for o in sorted(ops)) + "].\n"
    return text


def generate(ck) -> bool:
    try:
        text = gen_text()
    except (T.Unsupported, SyntaxError, OSError) as e:
        ck.gen_failed("C05Gen", e)
        return False
    ck.gen("C05Gen", text)
    return True


# --------------------------------------------------------------------------- the passes

def make_pass(name: str):
    from onnx_ir.passes import common as P
    table = {
        "dce": lambda: P.RemoveUnusedNodesPass(),
        "ident": lambda: P.IdentityEliminationPass(),
        "cse": lambda: P.CommonSubexpressionEliminationPass(),
        "cse100": lambda: P.CommonSubexpressionEliminationPass(size_limit=100),
        "dedup": lambda: P.DeduplicateInitializersPass(),
        "dedup8": lambda: P.DeduplicateInitializersPass(size_limit=8),
        "deduph": lambda: P.DeduplicateHashedInitializersPass(),
        "topo": lambda: P.TopologicalSortPass(),
        "namefix": lambda: P.NameFixPass(),
        "lift": lambda: P.LiftConstantsToInitializersPass(),
        "lift0": lambda: P.LiftConstantsToInitializersPass(size_limit=0),
        "liftall": lambda: P.LiftConstantsToInitializersPass(lift_all_constants=True, size_limit=0),
        "liftsub": lambda: P.LiftSubgraphInitializersToMainGraphPass(),
        "rminit": lambda: P.RemoveInitializersFromInputsPass(),
        "addinit": lambda: P.AddInitializersToInputsPass(),
        "inline": lambda: P.InlinePass(),
        "outfix": lambda: P.OutputFixPass(),
        "defattr": lambda: P.AddDefaultAttributesPass(),
        "shape": lambda: P.ShapeInferencePass(),
        "clear": lambda: P.ClearMetadataAndDocStringPass(),
        "rmfunc": lambda: P.RemoveUnusedFunctionsPass(),
        "rmopset": lambda: P.RemoveUnusedOpsetsPass(),
    }
    return table[name]()


PASS_NAMES = ["dce", "ident", "cse", "cse100", "dedup", "dedup8", "deduph", "topo", "namefix", "lift", "lift0", "liftall",
              "liftsub", "rminit", "addinit", "inline", "outfix", "defattr", "shape", "clear", "rmfunc", "rmopset"]
# passes with an executable Gallina model (structural correspondence = model pass output vs implementation)
MODELLED = {"dce", "ident", "cse", "cse100", "dedup", "dedup8", "deduph", "lift", "lift0", "liftall", "liftsub", "rminit",
            "addinit", "outfix", "rmfunc"}
# passes that may only touch what is outside the term language (names, metadata, shapes, opset imports): frame check
FRAME = {"namefix", "shape", "clear", "rmopset"}
RELATIONAL = {"topo"}        # checked against the reorder relation (exact order: property C12)


# --------------------------------------------------------------------------- IR -> term

def cN(n):
    return f"{n}"


def cZ(n):
    return f"({n})%Z" if n < 0 else f"{n}%Z"


def cstr(s: str) -> str:
    return "[" + ";".join(str(ord(c)) for c in s) + "]"


def clist(items):
    return "[" + "; ".join(items) + "]"


def dbl_bits(x: float) -> int:
    return struct.unpack("<Q", struct.pack("<d", float(x)))[0]


class Conv:
    """Persistent identity maps Value/Graph object -> id across the steps of one case."""

    def __init__(self):
        self.vids: dict[int, int] = {}
        self.gids: dict[int, int] = {}
        self.keep = []          # keep objects alive so that id() stays unique
        self.next_v = 1
        self.next_g = 1

    def vid(self, v) -> int:
        k = id(v)
        if k not in self.vids:
            self.vids[k] = self.next_v
            self.next_v += 1
            self.keep.append(v)
        return self.vids[k]

    def gid(self, g) -> int:
        k = id(g)
        if k not in self.gids:
            self.gids[k] = self.next_g
            self.next_g += 1
            self.keep.append(g)
        return self.gids[k]

    # ---- tensors / attributes
    def tensor_payload(self, t):
        import onnx_ir as ir
        dt = int(t.dtype)
        shape = [int(d) if isinstance(d, int) else -1 for d in t.shape]
        if t.dtype == ir.DataType.STRING:
            data = []
            for s in t.string_data():
                data.append(len(s))
                data.extend(bytes(s))
        else:
            data = list(t.tobytes())
        return dt, shape, data

    def attr(self, a):
        import onnx_ir as ir
        AT = ir.AttributeType
        ty = int(a.type)
        if a.is_ref():
            return f"ARef {ty} {cstr(a.ref_attr_name)}"
        if a.type == AT.GRAPH:
            return f"AGraph {self.gid(a.value)}"
        if a.type == AT.GRAPHS:
            return f"AGraphs {clist(str(self.gid(g)) for g in a.value)}"
        v = a.value
        if a.type == AT.INT:
            p = [int(v)]
        elif a.type == AT.INTS:
            p = [int(x) for x in v]
        elif a.type == AT.FLOAT:
            p = [dbl_bits(v)]
        elif a.type == AT.FLOATS:
            p = [dbl_bits(x) for x in v]
        elif a.type == AT.STRING:
            p = list(v.encode("utf-8") if isinstance(v, str) else bytes(v))
        elif a.type == AT.STRINGS:
            p = []
            for s in v:
                b = s.encode("utf-8") if isinstance(s, str) else bytes(s)
                p.append(len(b))
                p.extend(b)
        elif a.type == AT.TENSOR:
            dt, shape, data = self.tensor_payload(v)
            p = [dt, len(shape)] + shape + data
        else:
            p = list(repr(v).encode("utf-8"))
        return f"AData {ty} {clist(cZ(x) for x in p)}"

    def node(self, n):
        attrs = sorted(n.attributes.items())
        at = clist(f"({cstr(k)}, {self.attr(a)})" for k, a in attrs)
        ins = clist("None" if i is None else f"Some {self.vid(i)}" for i in n.inputs)
        outs = clist(str(self.vid(o)) for o in n.outputs)
        return f"mkNode ({cstr(n.domain)}, {cstr(n.op_type)}, {cstr(n.overload)}) {at} {ins} {outs}"

    def graph(self, g, is_function=False):
        ins = clist(str(self.vid(v)) for v in g.inputs)
        inits = []
        if not is_function:
            for v in g.initializers.values():
                t = v.const_value
                if t is None:
                    inits.append(f"({self.vid(v)}, mkTensor (-1)%Z [] [])")
                else:
                    dt, shape, data = self.tensor_payload(t)
                    inits.append(f"({self.vid(v)}, mkTensor {cZ(dt)} {clist(cZ(x) for x in shape)} {clist(cZ(x) for x in data)})")
        nodes = clist(self.node(n) for n in g)
        outs = clist(str(self.vid(v)) for v in g.outputs)
        return f"mkGraph {ins} {clist(inits)} {nodes} {outs}"

    def model(self, m):
        """-> (coq term, info) ; info carries traversal orders and tables the model passes take as parameters."""
        import onnx_ir as ir
        visited_graphs: dict[int, object] = {}
        visited_nodes = set()
        values = []

        def visit_graph(g):
            if id(g) in visited_graphs:
                return
            visited_graphs[id(g)] = g
            self.gid(g)
            for v in g.inputs:
                values.append(v)
            for v in g.initializers.values():
                values.append(v)
            for n in g:
                visited_nodes.add(id(n))
                values.extend(o for o in n.outputs)
                values.extend(i for i in n.inputs if i is not None)
                for a in n.attributes.values():
                    if a.is_ref():
                        continue
                    if a.type == ir.AttributeType.GRAPH:
                        visit_graph(a.value)
                    elif a.type == ir.AttributeType.GRAPHS:
                        for sg in a.value:
                            visit_graph(sg)
            for v in g.outputs:
                values.append(v)

        main = m.graph
        # ids: main first (inputs, initializers, nodes ...), then function bodies
        main_term_first = self.graph(main)          # assigns vids in a deterministic order
        visit_graph(main)
        fgraphs = []
        for f in m.functions.values():
            fg = f._graph if hasattr(f, "_graph") else f.graph
            fgraphs.append((f, fg))
            visit_graph(fg)
        # orphan graphs: graphs of user nodes that are no longer reachable (subgraphs of removed nodes)
        changed = True
        while changed:
            changed = False
            for v in list(values):
                for use in v.uses():
                    un = use.node
                    if id(un) not in visited_nodes and un.graph is not None and isinstance(un.graph, ir.Graph) \
                            and id(un.graph) not in visited_graphs:
                        visit_graph(un.graph)
                        changed = True
        fbody_ids = {id(fg) for _, fg in fgraphs}
        subs = []
        for gk, g in visited_graphs.items():
            if g is main or gk in fbody_ids:
                continue
            subs.append((self.gid(g), g))
        subs.sort(key=lambda p: p[0])
        sub_terms = clist(f"({gi}, {self.graph(g)})" for gi, g in subs)
        fterms = []
        for f, fg in fgraphs:
            defaults = sorted((k, a) for k, a in f.attributes.items() if a.value is not None)
            dt = clist(f"({cstr(k)}, {self.attr(a)})" for k, a in defaults)
            fterms.append(f"mkFunc ({cstr(f.domain)}, {cstr(f.name)}, {cstr(f.overload)}) ({self.graph(fg, True)}) {dt}")
        term = f"mkModel ({main_term_first}) {sub_terms} {clist(fterms)}"

        def gref(g):
            if g is main:
                return "GMain"
            for i, (_, fg) in enumerate(fgraphs):
                if g is fg:
                    return f"GFunc {i}%nat"
            return f"GSub {self.gid(g)}"
        info = {"gref": gref, "main": main, "fgraphs": fgraphs, "subs": subs, "values": values}
        return term, info


def schema_table(m) -> str:
    """op_type -> optional flags of the formal outputs, computed with the calls the pass makes."""
    import onnx
    ver = m.graph.opset_imports.get("", None)
    rows = {}
    if ver is None:
        return "[]"
    import onnx_ir as ir
    nodes = list(ir.traversal.RecursiveGraphIterator(m.graph))
    for f in m.functions.values():
        nodes += list(ir.traversal.RecursiveGraphIterator(f))
    for n in nodes:
        if n.domain != "" or n.op_type in rows:
            continue
        try:
            sch = onnx.defs.get_schema(n.op_type, ver, domain=n.domain)
        except Exception:  # noqa: BLE001
            continue
        flags = []
        for o in sch.outputs:
            if o.option == onnx.defs.OpSchema.FormalParameterOption.Variadic:
                flags = []
                break
            flags.append(o.option == onnx.defs.OpSchema.FormalParameterOption.Optional)
        rows[n.op_type] = flags
    return clist(f"({cstr(k)}, {clist('true' if b else 'false' for b in v)})" for k, v in sorted(rows.items()))


FUEL = "12%nat"


def model_expr(name: str, p, m, conv: Conv, info, before: str, base: int) -> str | None:
    """Coq expression of type `model` : the model pass applied to `before` (a Coq identifier)."""
    import onnx_ir as ir
    gref = info["gref"]
    if name == "dce":
        unnamed = [conv.vid(v) for v in info["values"] if not v.name]
        ops = []
        if "" in m.graph.opset_imports:
            ops.append("GMain")
        for gi, g in info["subs"]:
            if "" in g.opset_imports:
                ops.append(f"GSub {gi}")
        for i, (f, fg) in enumerate(info["fgraphs"]):
            if "" in f.opset_imports:
                ops.append(f"GFunc {i}%nat")
        return f"(dce {schema_table(m)} {clist(str(x) for x in sorted(set(unnamed)))} {clist(ops)} {FUEL} {before})"
    if name == "ident":
        return f"(identity_elim {FUEL} {before})"
    if name in ("cse", "cse100"):
        return f"(fst (cse {cZ(p.size_limit)} {before} {base}))"
    if name in ("dedup", "dedup8", "deduph"):
        order = [gref(g) for g in m.graphs()]
        return f"(dedup_inits {cZ(p.size_limit)} {clist(order)} {before})"
    if name in ("lift", "lift0", "liftall"):
        other = []
        for n in ir.traversal.RecursiveGraphIterator(m.graph):
            if n.op_type == "Constant" and n.domain in ("", "onnx.ai") and len(n.attributes) == 1:
                an, av = next(iter(n.attributes.items()))
                if an != "value" and p.lift_all_constants and not av.is_ref():
                    try:
                        t = p._constant_node_attribute_to_tensor(n, an, av, n.outputs[0].name)  # numpy conversion: modelled not verified
                    except Exception:  # noqa: BLE001
                        return None
                    if t is not None:
                        dt, shape, data = conv.tensor_payload(t)
                        other.append(f"({conv.vid(n.outputs[0])}, mkTensor {cZ(dt)} {clist(cZ(x) for x in shape)} {clist(cZ(x) for x in data)})")
        return (f"(fst (lift_constants {FUEL} {'true' if p.lift_all_constants else 'false'} {cZ(p.size_limit)} "
                f"{clist(other)} {before} {base}))")
    if name == "liftsub":
        order = [gref(g) for g in m.graphs()]
        return f"(lift_subgraph_inits {clist(order)} {before})"
    if name == "rminit":
        return f"(remove_inits_from_inputs {clist(gref(g) for g in m.graphs())} {before})"
    if name == "addinit":
        return f"(add_inits_to_inputs {clist(gref(g) for g in m.graphs())} {before})"
    if name == "outfix":
        scopes = [clist([gref(m.graph)] + [gref(g) for g in m.graph.subgraphs()])]
        for f, fg in info["fgraphs"]:
            scopes.append(clist([gref(fg)] + [gref(g) for g in f.subgraphs()]))
        return f"(fst (output_fix {clist(scopes)} {before} {base}))"
    if name == "rmfunc":
        return f"(remove_unused_funcs {FUEL} {before})"
    return None


CASE_HEADER = """From Coq Require Import ZArith NArith List Bool.
From IRV Require Import Base.Exn Gen.C05Gen C05.Model.
Import ListNotations.
Open Scope N_scope.
"""


class Step:
    __slots__ = ("pass_name", "before", "after", "expr", "base", "kind", "case", "idx")


def run_case(spec: dict, passes: list[str], conv_steps: bool = True):
    """Run the pass sequence on the implementation; return (protos, steps, raised).

    protos[0] is the original ModelProto, protos[i] the serialized model after pass i (None once a pass raised).
    steps: structural-correspondence obligations (Coq text fragments)."""
    import onnx_ir as ir
    mp0 = G.build(spec)
    m = ir.serde.deserialize_model(mp0)
    conv = Conv()
    protos = [mp0]
    steps = []
    raised = None
    for i, name in enumerate(passes):
        p = make_pass(name)
        st = None
        if conv_steps:
            st = Step()
            st.pass_name = name
            st.before, info = conv.model(m)
            st.base = conv.next_v
            try:
                st.expr = model_expr(name, p, m, conv, info, "BEFORE", st.base) if name in MODELLED else None
            except Exception:  # noqa: BLE001
                st.expr = None
            st.kind = ("model" if name in MODELLED and st.expr else "frame" if name in FRAME else
                       "reorder" if name in RELATIONAL else "none")
        try:
            res = p(m)
            m = res.model
        except Exception as e:  # noqa: BLE001
            raised = (i, name, type(e).__name__, str(e)[:300], type(e.__cause__).__name__ if e.__cause__ else None)
            break
        if st is not None:
            st.after, _ = conv.model(m)
            steps.append(st)
        try:
            protos.append(ir.serde.serialize_model(m))
        except Exception as e:  # noqa: BLE001
            raised = (i, name, "serialize:" + type(e).__name__, str(e)[:300], None)
            break
    return protos, steps, raised


def steps_to_coq(steps: list[Step]) -> str:
    out = [CASE_HEADER]
    flags, valids = [], []
    for k, st in enumerate(steps):
        out.append(f"Definition b{k} : model := {st.before}.\nDefinition a{k} : model := {st.after}.\n")
        valids.append(f"wfb b{k} && outputs_localb b{k}")
        if st.kind == "model":
            flags.append(f"model_agree {st.base} {st.expr.replace('BEFORE', f'b{k}')} a{k}")
        elif st.kind == "frame":
            flags.append(f"model_agree {st.base} b{k} a{k}")
        elif st.kind == "reorder":
            flags.append(f"reorder_modelb b{k} a{k}")
        else:
            flags.append("true")
    out.append("Definition valids : list bool := " + clist(valids) + ".\n")
    out.append("Definition agrees : list bool := " + clist(flags) + ".\n")
    out.append("Eval vm_compute in (failing (fun b => b) agrees).\n")
    out.append("Eval vm_compute in (failing (fun b => b) valids).\n")
    return "".join(out)


# --------------------------------------------------------------------------- oracle

def io_signature(mp):
    ins = [(vi.type.tensor_type.elem_type, [d.dim_value if d.HasField("dim_value") else d.dim_param for d in vi.type.tensor_type.shape.dim])
           for vi in G.noninit_inputs(mp)]
    return ins, len(mp.graph.output)


def oracle(spec: dict, passes: list[str], seed: int, protos=None, raised=None, use_ort: bool = True) -> tuple[list[str], dict]:
    """The property, on the implementation: returns (failures, info).  info['valid'] False = case outside the quantifier."""
    import onnx
    info = {"valid": False, "ort": "skipped"}
    if protos is None:
        protos, _, raised = run_case(spec, passes, conv_steps=False)
    mp0 = protos[0]
    try:
        onnx.checker.check_model(mp0, full_check=True)
    except Exception as e:  # noqa: BLE001
        info["invalid"] = "checker:" + str(e)[:120]
        return [], info
    try:
        vals = G.feeds_for(mp0, seed)
        ref0 = G.run_ref(mp0, vals)
    except Exception as e:  # noqa: BLE001
        info["invalid"] = "reference-evaluator-before:" + type(e).__name__ + ":" + str(e)[:100]
        return [], info
    info["valid"] = True
    bad = []
    if raised is not None:
        i, name, et, msg, cause = raised
        if et != "PreconditionError":
            bad.append(f"pass-raised: step {i} {name}: {et}({cause}): {msg[:160]}")
    sig0 = io_signature(mp0)
    for i, mp in enumerate(protos[1:]):
        name = passes[i]
        try:
            onnx.checker.check_model(mp, full_check=True)
        except Exception as e:  # noqa: BLE001
            bad.append(f"checker-rejects-after: step {i} {name}: {str(e)[:200]}")
            break
        sig = io_signature(mp)
        if sig != sig0:
            bad.append(f"signature-changed: step {i} {name}: {sig0} -> {sig}")
            break
        try:
            ref = G.run_ref(mp, vals)
        except Exception as e:  # noqa: BLE001
            bad.append(f"execution-fails-after: step {i} {name}: {type(e).__name__}: {str(e)[:160]}")
            break
        if len(ref) != len(ref0):
            bad.append(f"output-count: step {i} {name}")
            break
        diff = [j for j, (a, b) in enumerate(zip(ref0, ref)) if not G.same_value(a, b)]
        if diff:
            bad.append(f"outputs-differ: step {i} {name}: positions {diff}: before {[np.asarray(ref0[j]).tolist() for j in diff][:2]} "
                       f"after {[np.asarray(ref[j]).tolist() for j in diff][:2]}")
            break
    if use_ort and not bad and len(protos) > 1:
        try:
            o0 = G.run_ort(mp0, vals)
        except Exception:  # noqa: BLE001
            info["ort"] = "rejects-before"
            return bad, info
        try:
            o1 = G.run_ort(protos[-1], vals)
        except Exception as e:  # noqa: BLE001
            info["ort"] = "rejects-after"
            info["ort_error"] = str(e)[:200]
            return bad, info
        info["ort"] = "ran"
        diff = [j for j, (a, b) in enumerate(zip(o0, o1)) if not G.same_value(a, b)]
        if diff or len(o0) != len(o1):
            bad.append(f"outputs-differ(onnxruntime): after {passes}: positions {diff}")
    return bad, info

"""C05 — every built-in pass, alone or composed, preserves what the model computes.

Decided by
  * Coq theorems (coq/theories/C05/Property.v, 17 theorems, all "Closed under the global context") about an
    executable Gallina model (C05/Model.v): graph IR terms (flat table of graphs, values = object identities), a
    demand-driven denotational semantics `den` with fuel over UNINTERPRETED operators (Section variables `interp`,
    `tensor_val`, `absent`; hypotheses, visible in every statement: operators are functions of (op id, attributes with
    their TYPE, body denotations, inputs, #outputs) — this is what `interp`'s type says —, monotone in body denotations;
    Identity is the identity; trailing omitted optional inputs are ignored; Constant returns its attribute (lift only)),
    and the passes as functions on terms.  OutOfFuel is excluded by `computes m env r := exists fuel, ... = Some r`;
    C05_den_fuel_monotone / C05_computes_deterministic make `computes` a partial function, each pass theorem says
    `computes m env r -> computes (pass m) env r` for every environment over the formals.
  * Tie (i) structural correspondence: the real pass is run on generated models (and on every step of sequences of
    <= 4 passes), the IR before/after is converted to the term language (identity maps persist across the steps,
    unreachable subgraphs that still hold uses are kept, attributes sorted by name) and
    `model_agree base (pass_model before) after` is evaluated inside Coq by vm_compute (fresh identities compared up
    to renumbering); steps whose input violates the model's precondition (wfb, outputs_localb — e.g. after the
    identity-elimination defect) are counted and skipped.  TopologicalSort: the relation `reorder_modelb` (hypothesis
    of C05_reorder_preserves) is evaluated on (before, after); NameFix/ClearMetadata/ShapeInference/RemoveUnusedOpsets:
    frame check (term before == term after).  Inline/AddDefaultAttributes: oracle only.
    Tie (ii) Gen/C05Gen.v: the non-deterministic operator set is regenerated from
    common_subexpression_elimination.py on every run (fail-closed on the shape of the predicate).
  * Oracle (the property itself, public API only): onnx.checker (full_check, in a worker process because the C++
    checker segfaults on some pass outputs) before/after, number/order/type of outputs and non-initializer inputs,
    execution before/after with onnx.reference.ReferenceEvaluator on random inputs, bitwise NaN-aware comparison,
    onnxruntime as a second voice where it is deterministic, exact byte comparison of string constants that reach an
    output (the evaluators print b"a" and b"a\0" alike).

Theorems (Property.v, 21, all "Closed under the global context"; proofs in C05/Proofs.v .. Proofs12.v; Proofs8/9/10 were
written by helper agents from my specs: alias lemma + OutputFix, small passes + signatures, DCE with schema)
  toolkit: C05_den_fuel_monotone, C05_computes_deterministic, C05_sim_refines (replace-uses / remove-dead /
           eliminate-identity / lift-constant / trim-outputs as cases of ONE simulation), C05_alias_refines (Identity
           inserted in front of graph outputs; fuel doubles), C05_wfb_sound.
  passes (full): C05_identity_elim_preserves, C05_cse_preserves (whole pass incl. output aliasing / Identity insertion;
           C05_cse_key_faithful now positive after af1d2e4), C05_dedup_preserves (plain + hashed), C05_dce_preserves (incl. the
           schema-driven optional-output trimming, schema table as a parameter; the BatchNormalization training_mode branch is
           excluded by NoBNTraining = the known finding, C05_dce_batchnorm_refuted), C05_lift_constants_preserves,
           C05_output_fix_preserves, C05_lift_subgraph_inits_preserves, C05_add_inits_to_inputs_preserves and
           C05_remove_inits_from_inputs_preserves (main graph; `computes` does not depend on the main inputs: iff),
           C05_add_default_attributes_preserves (schema defaults table as a parameter, operator hypothesis interp_defaults),
           C05_reorder_preserves (TopologicalSort as the relation reorder_modelb checked on the implementation's result),
           C05_passes_signature (non-initializer inputs kept by each of them).
  composition: C05_sequence — any sequence of these eleven passes: Refines (computes preserved for every environment over the
           non-initializer inputs; those inputs and the number of outputs kept) and Inv = WF and NoOpFunc kept; every pass's
           own side condition (fresh counter above all identities, locality of outputs, ...) is required where it runs.
  witnesses: C05_dce_batchnorm_refuted (known finding), C05_identity_elim_outer_scope_witness and
           C05_cse_key_distinguishes_attribute_type (fixed defects stay fixed).
  not proved in Coq: InlinePass (execution oracle only), RemoveUnusedFunctionsPass (modelled, structural correspondence + oracle);
           NameFix/ClearMetadata/ShapeInference/RemoveUnusedOpsets touch only what is outside the term language (frame check).
  Noted by the DCE proof: trim_outputs drops trailing outputs that are in `unnamed` (name empty) even if they are used —
           hypothesis UnnamedDead; deserialized models never have used unnamed values.

Modelled, not verified
  real operator semantics (uninterpreted); onnx schema table for optional outputs (handed to the model from onnx.defs);
  the tensor denoted by value_int(s)/float(s)/string(s) Constants (computed by the harness per the operator spec, handed to the model); traversal orders of
  model.graphs()/subgraphs() (read from the public API); the exact topological order (C12).
  Deliberate model choices (equal to the code on wfb/outputs_localb models, checked by the correspondence): DCE tests
  "is a graph output" globally instead of "is an output of this graph"; dedup drops the duplicate from every
  initializer table; lifting registers the initializer in the graph(s) holding the node.

Readings of the English
  * "for all inputs": inputs are fed BY POSITION of the non-initializer inputs (OutputFixPass and the inliner
    rename graph inputs: x -> x_orig, x -> <call output name>; the property speaks of number and order only).
  * a pass that raises on a checker-valid model produces no transformed model: violation of kind "pass-raised"
    (PreconditionError excepted).  In a sequence only the EARLIEST failing step is reported (later ones are consequences).
  * non-deterministic operators are generated with an explicit seed only; onnxruntime is not used as a voice for models
    with Random* or training-mode BatchNormalization (it updates running statistics in place).

Findings on the unchanged tree (known_findings.d/C05.json, witnesses in corpus/C05/finding-*.json, fixes in
proposed_fixes/C05-*.diff): cse-float-signed-zero, cse-string-tensor-nul-padding, cse-graph-output-type-lost,
cse-duplicate-graph-output-identity-names, dce-batchnorm-training-mode, identity-elim-outer-scope-output (DESIGN
suspicion 1: confirmed), addinit-subgraph-initializers-become-inputs, liftall-value-string-numpy-bytes,
inline-passthrough-into-subgraph-output (DESIGN suspicion 2: confirmed; the renaming of the caller's value alone is
not a violation under the positional reading).  Not a finding under this property but noted: Bernoulli is not in the
non-deterministic set; onnx.checker segfaults on the addinit output (Loop body with extra inputs).

LOG of decisions / bugs of the machinery found on the way
  * eager `andb` under vm_compute evaluated Z.to_nat of a float bit pattern (34 GB): `if` instead of `&&`, ranks clamped,
    coqc always under `ulimit -v`, <= 40 steps per case file.
  * the IR wraps the proto's tensors: renaming a Value renamed the ORIGINAL proto -> the implementation gets a private copy.
  * helper.make_tensor strips trailing NULs of strings -> string tensors are built by hand.
  * OutputFix renames an input that is also an initializer: the initializer moves to the end of the table (model fixed,
    corpus/C05/outfix-input-initializer-output.json).
  * the reference evaluator cannot link attributes of unary ops inside functions -> attribute parameters go through
    Constant(value_float=@param).
Mutants of /repo tried (scratch worktree, VERIF_REPO), all reported as VIOLATION:
  M1 CSE key without output count            -> oracle replay (pass raises on the mismatching value lists)
  M2 identity elimination replaces the wrong way -> oracle replay (pass raises / outputs differ)
  M3 dedup key without dtype                 -> oracle replay (outputs differ: int32 bytes read as float)
  M3b dedup key without shape                -> oracle replay (checker rejects after)
  M4 DCE initializer removal ignores graph outputs -> oracle replay (dangling graph output)
  M5 lift value_ints as INT32                -> oracle replay (type mismatch)
  M6 inliner lets defaults override call-site attributes -> oracle replay via corpus/inline-default-attribute-overridden
  M7 CSE reverses the outputs of a merged multi-output node -> correspondence:cse (no failing input found in quick)
  M8 CSE key ignores the attribute type (revert of 187cb2f) -> correspondence:cse on corpus/fixed-cse-attribute-type
  M9 dedup key on NUL-padded strings (revert of 9b1ce3f)   -> oracle replay (string bytes differ)
  M10 identity-elimination rule 3 forgets initializers      -> correspondence:ident (semantics unchanged, no failing input)
  M11 DCE removes nodes whose outputs are still used         -> oracle replay (pass raises)
After the fixes af1d2e4/6ee70d8/d64e021/0f568df/d768234 (second sweep, all VIOLATION unless noted): M1 M2 M3 M4 M6 M7 (now with an
  oracle replay); M8 is an EQUIVALENT mutant now (float keys are hex strings, INT 1 != "0x1.0p+0" even without the type);
  M12 CSE float key by value again -> oracle via corpus/fixed-cse-float-scalar-signed-zero; M13 outer-scope Identity rule
  off -> oracle (checker rejects); M14 AddDefaultAttributes overwrites present attributes -> oracle (outputs differ);
  M15 OutputFix aliases the wrong value -> oracle (outputs differ).  Coordinator's seeded changes: m1 (CSE ignores None
  inputs in the key), m2 (Cloner returns the resolved attribute object), m3 (defaults cache without opset) all detected with input.
Round 2 (after af1b46d: the model keeps an Identity between two graph outputs): new streams — feeds that OVERRIDE the
  initializer-backed inputs (even input seeds, when the number of such inputs is constant along the sequence), generated-looking
  names shared by function bodies and the caller (t, t_2, val_3 ...), targeted templates (several inlined calls into graphs
  with such names; plain initializers next to an overridable one; a function reachable only through an If body of another
  function).  Seeded r2m1 (inliner name counter), r2m2 (input-backed initializer as canonical copy), r2m3 (non-recursive
  function reachability): all detected with a concrete replay.  New findings on the unchanged tree (known, with proposed fixes):
  inline-omitted-call-output (C05-inline-omitted-call-output.diff), inline-name-collision-with-nested-scope
  (C05-inline-reserve-nested-names.diff; classified only when the duplicated name sits in two different nested graphs, so a
  same-level duplicate — r2m1 — is still a violation).
Round 3 (b85ca57, a512dca committed: both inline findings flipped to fixed, witnesses in the corpus).  Push to level
  `proof`:
  * RemoveUnusedFunctions: Proofs14 (helper; drop_funcs_computes: dropping functions outside a closed live region, via the
    guarded simulation SimG/simg_refines added to Proofs.v) + Proofs16 (remove_unused_funcs_checked = the pass guarded by the
    executable certificate drop_closedb; also the annotation theorem for the frame-only passes).
  * InlinePass: Inline.v (executable model of Cloner/inline: attribute map, fresh values/graphs, Identity for pass-through
    outputs, revisiting inserted nodes; compared with the implementation by model_agree_deep), Proofs15 (helper; InlineSim
    + inline_refines: environment-changing simulation, fuel phi f = f*f+2f, needs the extra operator hypothesis
    interp_graph_ids), InlineCert (helper; inline_certb: executable certificate for ONE step produced by the untrusted
    inline_at_raw, inline_cert_sound), InlinePass.v (inline_pass_c: certified steps over the main graph and its subgraphs;
    then everything Inline.inline_pass does to the — now dead — functions is accepted with drop_closedb + live_agreeb),
    Proofs18 (helper; live_agree_computes: a model that agrees on the live region computes the same), Proofs17 (Good
    invariant, inline_pass_c_good).  One certificate limitation met once in 600 generated steps: a call INSIDE a function
    body whose attribute is a reference overriding a callee default (refs_okb) — only matters for dead code, hence the
    live-region route.  On 645 generated inline steps the certified model equals the implementation's result (all through
    the live-region route).
  * Proofs12: pass := ... | PRmFunc | PInline; C05_sequence covers all thirteen modelled passes; Property.v has 26 closed
    theorems.  ck.level = "proof".
Round 3 seeded changes: r3m3 (DCE trailing-input trimming) detected with input.  r3m1 (scalar value_int/value_float lifted with
  shape [1]) was missed because the table of tensors denoted by non-`value` Constants came from the pass's own conversion:
  now const_attr_payload computes dtype/SHAPE/bytes per the operator spec independently of the pass, and targeted template
  (d) has rank-observing consumers (Gather with a scalar index, Shape).  r3m2 (LiftSubgraphInitializers re-checks the suffixed
  name only once) needs a double clash: template (e) = sibling subgraphs owning same-named initializers while w_1 / w_2 are
  taken in the main graph by a fed input / initializer / node output.  (A subgraph initializer shadowing a main-graph name is
  outside the quantifier: the reference evaluator lets the outer value win.)
Round 4 seeded changes: r4m1 detected.  r4m2 (RemoveUnusedFunctionsPass keeps its `_used` set across calls of the same
  object when a run removed nothing): every run of the check built a fresh pass object per model -> new spec field
  `reuse_history` (run_case applies ONE object per pass name to the earlier models, then to this one; self-contained, so
  oracle / shrink / replay re-create it) and a stream reuse_cases (pairs/triples of generated models, whose function
  identifiers Fn0.. recur, plus a template "nothing to remove, then the same identifier with a body that calls a function
  reachable no other way").  The Coq model is stateless: the reused run must equal the fresh run.  r4m3
  (RemoveInitializersFromInputs compares NAMES model-wide): targeted template (f) = a Loop body's formal input named like an
  initializer owned by a sibling If branch.
Deepening round: (1) RemoveUnusedOpsets is no longer frame-only: Opsets.v extends the term by the opset-import tables (model +
  per function), models the pass (remove_unused_opsets: prune to {""} + function domains + domains of the recursively
  reachable nodes) and proves C05_remove_unused_opsets_keeps_versions (term unchanged; every node of every scope, every function
  domain and the default domain resolve to the same version; nothing added); the correspondence compares the tables in Coq
  (opsets_agree); generator: unused imports at model / function level (same version per domain everywhere — the inliner
  raises on a version mismatch), template (g) = custom domain used only inside a nested graph.  (2) The hypotheses of
  C05_sequence are now EXECUTABLE (Proofs19, helper: extra_okb / invb / seq_okb with soundness, C05_sequence_checked) and are
  evaluated in Coq on every step of a modelled pass (third list of every case file): evidence coverage.side_conditions counts
  `holds:<pass>` / `OUTSIDE-HYPOTHESIS:<pass>` (only dce on BatchNormalization training_mode models so far = the known
  finding's domain).  This covers the schema table of optional outputs (nofuncopb) and the defaults table (tblokb), both
  read from onnx.defs per case.  NameFix / ClearMetadata / ShapeInference stay "term unchanged + annotation theorem".
  Quick volume 40 -> 30 generated specs (CPU about 2 min), thorough 400 -> 300.  With the smaller volume r4m1 (inliner drops
  falsy defaults of attribute parameters) was no longer hit by the general generator: targeted template (h) = function with
  attribute defaults 0.0 / -0.0 not passed at the call (judge onnxruntime: the reference evaluator does not apply declared
  defaults).  All 13 seeded changes re-evaluated after the round: caught with a concrete replay.
After /repo 5633eae (numpy() of string tensors = object array): DeduplicateHashedInitializersPass hashes the element
  POINTERS of string tensors (hashlib.update(object array)), so which equal string initializers meet under one key depends on
  the allocator (usually none: the duplicates stay).  Semantics are preserved either way (the byte comparison guards the
  replacement; C05_dedup_preserves holds for any key relation), but the correspondence had to become relational for deduph:
  the result must equal the model for ONE of three key relations (exact content / strings never share a key / the former
  NUL-padded view).  proposed_fixes/C05-deduph-string-pointer-hash.diff (+ -demo.py) hashes _tobytes for string tensors.
  Committed as fffc28e: the hashed key is exact content again (keyeq = tensor_eqb for both dedup passes; Model.tensor_hash_eqb,
  the former NUL-padded view, is no longer used by the check), the alternatives are gone, finding deduph-string-pointer-hash
  = fixed, witness corpus/C05/fixed-deduph-string-pointer-hash.json.  Speed: the case files of a stream are evaluated by coqc
  in the background (at most 3 coqc at a time) while the Python side runs the next stream; generated stream in three parts.
Round 5 seeded changes: r5m1 caught.  r5m2 (Cloner.clone_node drops the overload of a cloned call): template (i) = IR 10
  function overloads (same domain/name, different overload, different bodies) called from inside an inlined body; the
  evaluators ignore overloads, so every proto is DE-OVERLOADED for execution (deoverload: f:ov -> f__ov_<ov>, the same model
  by the definition of overloads).  r5m3 (InlinePass merges the function's opset imports into a COPY of the model's table):
  template (j) = a function using ai.onnx.ml which only the function imports (spec function_domains_not_imported); Opsets.v
  models the merge (merge_imports, C05_inline_merges_opset_imports: old and function-table domains keep their versions) and
  every inline step checks inline_opsets_okb in Coq (old table is a prefix, additions come from function tables, every node
  of the resulting main graph has an import).
Second deepening round: per-run TRANSLATIONS of two pass bodies (fail-closed ast -> Gallina, small dedicated fragments, see
  _Trim / gen_opsets_text): Gen/C05GenTrim.v = unused_removal._remove_trailing_empty_inputs (count-down loop with break over
  node.inputs, resize_inputs as truncation), Gen/C05GenOpsets.v = RemoveUnusedOpsetsPass._process_graph_like (set add / set
  difference / dict deletion; RecursiveGraphIterator abstracted to the list of node domains).  Equivalence theorems:
  C05_trim_translation_equiv (GenEquiv.v, helper: translated function = Model.strip_trailing_none + changed flag) and
  C05_remove_unused_opsets_translation_equiv (GenEquivOpsets.v: Opsets.remove_unused_opsets = the translated function applied
  as call() applies it; call() itself is composed by hand in the statement).  New stream trim_stream: the translated function
  evaluated in Coq against the implementation's function on ~115 (quick) input lists (from generated models + random,
  incl. empty / all omitted), replay kind translation-mismatch.  A source change outside the fragment breaks the check
  (translate:C05GenTrim / C05GenOpsets), a change inside it breaks the equivalence proof.
Round 6 seeded changes: r6m1 (DCE's unused-initializer cleanup over all graphs with the MAIN graph's liveness) -> template (k):
  a subgraph returning its own initializer directly / a Loop body returning its initializer; r6m2 (ShapeInference merges with
  ONE model-wide name table) -> template (m): sibling If branches reusing a value name for different element types, new pass
  variant shape2 = ShapeInferencePass(strict_mode=False, data_prop=False) (the full checker after the pass judges the
  annotations); r6m3 (CSE tensor key without dtype) -> template (l): Constants with equal bytes/shape and different element
  types, observed through Cast.  New finding on the unchanged tree (known, proposed_fixes/C05-cse-omitted-output-key.diff +
  -demo.py): cse-merges-node-with-omitted-output (template (n), corpus finding-cse-merges-node-with-omitted-output.json).
  Committed as 87b8ce6: finding = fixed; the Coq key got the same pattern (Model.cse_key_eqb_u: which outputs are omitted, the
  identities of the empty-named outputs are a parameter `omitted` of cse / PCse; cse_pres etc. re-proved for every `omitted`).
Final pass: m1 (CSE key drops None inputs) was again only found as a correspondence mismatch after the generator shrank: template
  (o) = Clip on the same values with the omitted input at different positions (min vs max; trailing vs middle), results used.
Wall time: quick ~60-110 s under load (40 specs x (22 single passes + 5 sequences) + corpus), thorough ~9-12 min (400 specs).
"""

from __future__ import annotations

import ast
import base64
import collections
import json
import os
import random
import struct

import numpy as np

import translate as T
from harness import common
from harness.common import REPO
from harness.props import _c05_gen as G

CSE_SRC = os.path.join(REPO, "src", "onnx_ir", "passes", "common", "common_subexpression_elimination.py")


# --------------------------------------------------------------------------- translation (Gen/C05Gen.v)

_RET_NONDET = ("Return(value=BoolOp(op=And(), values=[Compare(left=Attribute(value=Name(id='node', ctx=Load()), attr='op_type', "
               "ctx=Load()), ops=[In()], comparators=[Name(id='non_deterministic_ops', ctx=Load())]), Call(func=Name(id="
               "'_is_onnx_domain', ctx=Load()), args=[Attribute(value=Name(id='node', ctx=Load()), attr='domain', ctx=Load())], "
               "keywords=[])]))")
_RET_DOMAIN = "Return(value=Compare(left=Name(id='d', ctx=Load()), ops=[Eq()], comparators=[Constant(value='')]))"


def gen_text() -> str:
    mod = T._src(CSE_SRC)
    fn = T.find_function(mod, "_is_non_deterministic_op")
    ops = None
    for st in fn.body:
        if isinstance(st, ast.Assign) and len(st.targets) == 1 and isinstance(st.targets[0], ast.Name) \
                and st.targets[0].id == "non_deterministic_ops":
            ops = T.literal(st.value)
    if ops is None or not all(isinstance(o, str) for o in ops):
        raise T.Unsupported("non_deterministic_ops literal not found in _is_non_deterministic_op")
    if ast.dump(fn.body[-1]) != _RET_NONDET:
        raise T.Unsupported("unexpected shape of _is_non_deterministic_op: " + ast.dump(fn.body[-1]))
    fn2 = T.find_function(mod, "_is_onnx_domain")
    if ast.dump(fn2.body[-1]) != _RET_DOMAIN:
        raise T.Unsupported("unexpected shape of _is_onnx_domain: " + ast.dump(fn2.body[-1]))
    text = T.HEADER + ("(* translated from common_subexpression_elimination.py::_is_non_deterministic_op "
                       "(set literal; predicate = op_type in set and domain == \"\") *)\n")
    text += "Definition nondet_ops : list (list N) :=\n  [" + ";\n   ".join(T.coq_string_codes(o) for o in sorted(ops)) + "].\n"
    return text


# --- translation of unused_removal.py::_remove_trailing_empty_inputs (Gen/C05GenTrim.v)
# Fragment (anything else -> Unsupported, the check fails closed):
#   def f(node): <stmts>            the only state is node.inputs (a list of optional values) and integer locals
#   stmts:  v = <e>  |  v -= <e>  |  for i in reversed(range(<e>)): <stmts>  |  if <c>: <stmts> [else: <stmts>]  |  break
#           |  return False / return True  |  node.resize_inputs(<e>)      (truncation of the input list: modelled API)
#   e:      int literal | local | len(node.inputs) | e - e      c:  node.inputs[<i>] is None | e == e
# Semantics emitted: a state monad over (inputs, locals..., returned?) written as nested lets; the loop is
# py_for_break (stops at `break`).  The function returns (new inputs, returned flag).
UNUSED_SRC = os.path.join(REPO, "src", "onnx_ir", "passes", "common", "unused_removal.py")

TRIM_PRELUDE = """(* loop with break over a list of indices: body returns (new state, break?) *)
Definition py_for_break {S : Type} (idx : list nat) (body : nat -> S -> S * bool) (s : S) : S :=
  fst (fold_left (fun (st : S * bool) i => if snd st then st else body i (fst st)) idx (s, false)).
Definition py_is_none {A : Type} (o : option A) : bool := match o with None => true | Some _ => false end.
(* Node.resize_inputs(n) for n <= len(inputs): the first n inputs are kept *)
Definition py_resize_inputs {A : Type} (inputs : list A) (n : Z) : list A := firstn (Z.to_nat n) inputs.

"""


class _Trim:
    """Translator for the fragment above; `node.inputs` is the Coq variable `inputs : list (option N)`."""

    def __init__(self, arg: str):
        self.arg = arg

    def is_inputs(self, e) -> bool:
        return isinstance(e, ast.Attribute) and e.attr == "inputs" and isinstance(e.value, ast.Name) and e.value.id == self.arg

    def int_expr(self, e, locals_) -> str:
        if isinstance(e, ast.Constant) and isinstance(e.value, int) and not isinstance(e.value, bool):
            return f"{e.value}"
        if isinstance(e, ast.Name) and e.id in locals_:
            return e.id
        if isinstance(e, ast.Call) and isinstance(e.func, ast.Name) and e.func.id == "len" and len(e.args) == 1 and not e.keywords \
                and self.is_inputs(e.args[0]):
            return "(Z.of_nat (length inputs))"
        if isinstance(e, ast.BinOp) and isinstance(e.op, ast.Sub):
            return f"({self.int_expr(e.left, locals_)} - {self.int_expr(e.right, locals_)})"
        raise T.Unsupported("integer expression " + ast.dump(e))

    def cond(self, e, locals_, idx) -> str:
        if isinstance(e, ast.Compare) and len(e.ops) == 1 and isinstance(e.ops[0], ast.Is) and isinstance(e.comparators[0], ast.Constant) \
                and e.comparators[0].value is None and isinstance(e.left, ast.Subscript) and self.is_inputs(e.left.value) \
                and isinstance(e.left.slice, ast.Name) and e.left.slice.id == idx:
            return f"py_is_none (nth {idx} inputs None)"
        if isinstance(e, ast.Compare) and len(e.ops) == 1 and isinstance(e.ops[0], ast.Eq):
            return f"Z.eqb {self.int_expr(e.left, locals_)} {self.int_expr(e.comparators[0], locals_)}"
        raise T.Unsupported("condition " + ast.dump(e))

    def loop_body(self, stmts, var, idx) -> str:
        """Body of a for loop over one integer local `var`: -> Coq term of type Z * bool (new value, break?)."""
        if len(stmts) == 1 and isinstance(stmts[0], ast.If):
            st = stmts[0]
            return (f"if {self.cond(st.test, [var], idx)} then {self.loop_body(st.body, var, idx)} "
                    f"else {self.loop_body(st.orelse, var, idx)}")
        if len(stmts) == 1 and isinstance(stmts[0], ast.Break):
            return f"({var}, true)"
        if len(stmts) == 1 and isinstance(stmts[0], ast.AugAssign) and isinstance(stmts[0].op, ast.Sub) \
                and isinstance(stmts[0].target, ast.Name) and stmts[0].target.id == var:
            return f"({var} - {self.int_expr(stmts[0].value, [var])}, false)"
        raise T.Unsupported("loop body " + "; ".join(ast.dump(x) for x in stmts))

    def function(self, fn: ast.FunctionDef, coq_name: str) -> str:
        body = [st for st in fn.body if not (isinstance(st, ast.Expr) and isinstance(st.value, ast.Constant) and isinstance(st.value.value, str))]
        # v = <e>
        if not (len(body) == 5 and isinstance(body[0], ast.Assign) and len(body[0].targets) == 1 and isinstance(body[0].targets[0], ast.Name)):
            raise T.Unsupported("expected `v = <e>` first")
        var = body[0].targets[0].id
        init = self.int_expr(body[0].value, [])
        lp = body[1]
        if not (isinstance(lp, ast.For) and isinstance(lp.target, ast.Name) and not lp.orelse and isinstance(lp.iter, ast.Call)
                and isinstance(lp.iter.func, ast.Name) and lp.iter.func.id == "reversed" and len(lp.iter.args) == 1
                and isinstance(lp.iter.args[0], ast.Call) and isinstance(lp.iter.args[0].func, ast.Name)
                and lp.iter.args[0].func.id == "range" and len(lp.iter.args[0].args) == 1):
            raise T.Unsupported("expected `for i in reversed(range(<e>))`")
        idx = lp.target.id
        bound = self.int_expr(lp.iter.args[0].args[0], [var])
        loop = (f"py_for_break (rev (seq 0 (Z.to_nat {bound})))\n      (fun {idx} {var} => {self.loop_body(lp.body, var, idx)})\n      {init}")
        # if <c>: return False
        i2 = body[2]
        if not (isinstance(i2, ast.If) and not i2.orelse and len(i2.body) == 1 and isinstance(i2.body[0], ast.Return)
                and isinstance(i2.body[0].value, ast.Constant) and i2.body[0].value.value is False):
            raise T.Unsupported("expected `if <c>: return False`")
        c2 = self.cond(i2.test, [var], idx)
        rs = body[3]
        if not (isinstance(rs, ast.Expr) and isinstance(rs.value, ast.Call) and isinstance(rs.value.func, ast.Attribute)
                and rs.value.func.attr == "resize_inputs" and isinstance(rs.value.func.value, ast.Name) and rs.value.func.value.id == self.arg
                and len(rs.value.args) == 1 and not rs.value.keywords):
            raise T.Unsupported("expected `node.resize_inputs(<e>)`")
        rsz = self.int_expr(rs.value.args[0], [var])
        if not (isinstance(body[4], ast.Return) and isinstance(body[4].value, ast.Constant) and body[4].value.value is True):
            raise T.Unsupported("expected `return True` last")
        return (f"Definition {coq_name} (inputs : list (option N)) : list (option N) * bool :=\n"
                f"  let {var} :=\n    {loop} in\n"
                f"  if {c2} then (inputs, false)\n  else (py_resize_inputs inputs {rsz}, true).\n")


def gen_trim_text() -> str:
    mod = T._src(UNUSED_SRC)
    fn = T.find_function(mod, "_remove_trailing_empty_inputs")
    if len(fn.args.args) != 1 or fn.args.vararg or fn.args.kwarg or fn.args.kwonlyargs:
        raise T.Unsupported("signature of _remove_trailing_empty_inputs")
    tr = _Trim(fn.args.args[0].arg)
    return (T.HEADER + TRIM_PRELUDE + "(* translated from unused_removal.py::_remove_trailing_empty_inputs *)\n"
            + tr.function(fn, "gen_remove_trailing_empty_inputs"))


# --- translation of unused_removal.py::RemoveUnusedOpsetsPass._process_graph_like (Gen/C05GenOpsets.v)
# Fragment:  def f(self, G, S: set[str]) -> bool:
#              for n in ir.traversal.RecursiveGraphIterator(G): S.add(n.domain)     the iterator is abstracted to the list of
#              U = set(G.opset_imports) - S                                          the domains of the nodes it yields
#              for d in U: del G.opset_imports[d]                                    (iteration order of a set: the list order;
#              return bool(U)                                                         deletions commute)
# sets of strings are duplicate-free lists, the dict G.opset_imports an association list.
OPSETS_PRELUDE = """Definition py_str_eqb : list N -> list N -> bool := list_eqb N.eqb.
Definition py_set_add (s : list (list N)) (x : list N) : list (list N) := if existsb (py_str_eqb x) s then s else s ++ [x].
(* set(d) - s for a dict d: the keys of d that are not in s *)
Definition py_keys_minus {V : Type} (d : list (list N * V)) (s : list (list N)) : list (list N) :=
  filter (fun k => negb (existsb (py_str_eqb k) s)) (map fst d).
Definition py_dict_del {V : Type} (d : list (list N * V)) (k : list N) : list (list N * V) :=
  filter (fun kv => negb (py_str_eqb (fst kv) k)) d.
Definition py_bool_of_list {A : Type} (l : list A) : bool := match l with [] => false | _ :: _ => true end.

"""


def _is_attr(e, base: str, attr: str) -> bool:
    return isinstance(e, ast.Attribute) and e.attr == attr and isinstance(e.value, ast.Name) and e.value.id == base


def gen_opsets_text() -> str:
    mod = T._src(UNUSED_SRC)
    cls = next((c for c in mod.body if isinstance(c, ast.ClassDef) and c.name == "RemoveUnusedOpsetsPass"), None)
    if cls is None:
        raise T.Unsupported("class RemoveUnusedOpsetsPass not found")
    fn = next((f for f in cls.body if isinstance(f, ast.FunctionDef) and f.name == "_process_graph_like"), None)
    if fn is None or [a.arg for a in fn.args.args][0:1] != ["self"] or len(fn.args.args) != 3:
        raise T.Unsupported("signature of _process_graph_like")
    G_, S_ = fn.args.args[1].arg, fn.args.args[2].arg
    body = [st for st in fn.body if not (isinstance(st, ast.Expr) and isinstance(st.value, ast.Constant))]
    if len(body) != 4:
        raise T.Unsupported("expected four statements in _process_graph_like")
    lp, asg, dl, ret = body
    # for n in ir.traversal.RecursiveGraphIterator(G): S.add(n.domain)
    ok = (isinstance(lp, ast.For) and isinstance(lp.target, ast.Name) and not lp.orelse and isinstance(lp.iter, ast.Call)
          and ast.unparse(lp.iter.func) == "ir.traversal.RecursiveGraphIterator" and len(lp.iter.args) == 1 and not lp.iter.keywords
          and isinstance(lp.iter.args[0], ast.Name) and lp.iter.args[0].id == G_ and len(lp.body) == 1
          and isinstance(lp.body[0], ast.Expr) and isinstance(lp.body[0].value, ast.Call) and _is_attr(lp.body[0].value.func, S_, "add")
          and len(lp.body[0].value.args) == 1 and _is_attr(lp.body[0].value.args[0], lp.target.id, "domain"))
    if not ok:
        raise T.Unsupported("first statement: " + ast.unparse(lp))
    # U = set(G.opset_imports) - S
    ok = (isinstance(asg, ast.Assign) and len(asg.targets) == 1 and isinstance(asg.targets[0], ast.Name) and isinstance(asg.value, ast.BinOp)
          and isinstance(asg.value.op, ast.Sub) and isinstance(asg.value.left, ast.Call) and isinstance(asg.value.left.func, ast.Name)
          and asg.value.left.func.id == "set" and len(asg.value.left.args) == 1 and _is_attr(asg.value.left.args[0], G_, "opset_imports")
          and isinstance(asg.value.right, ast.Name) and asg.value.right.id == S_)
    if not ok:
        raise T.Unsupported("second statement: " + ast.unparse(asg))
    U_ = asg.targets[0].id
    # for d in U: del G.opset_imports[d]
    ok = (isinstance(dl, ast.For) and isinstance(dl.target, ast.Name) and not dl.orelse and isinstance(dl.iter, ast.Name) and dl.iter.id == U_
          and len(dl.body) == 1 and isinstance(dl.body[0], ast.Delete) and len(dl.body[0].targets) == 1
          and isinstance(dl.body[0].targets[0], ast.Subscript) and _is_attr(dl.body[0].targets[0].value, G_, "opset_imports")
          and isinstance(dl.body[0].targets[0].slice, ast.Name) and dl.body[0].targets[0].slice.id == dl.target.id)
    if not ok:
        raise T.Unsupported("third statement: " + ast.unparse(dl))
    # return bool(U)
    ok = (isinstance(ret, ast.Return) and isinstance(ret.value, ast.Call) and isinstance(ret.value.func, ast.Name) and ret.value.func.id == "bool"
          and len(ret.value.args) == 1 and isinstance(ret.value.args[0], ast.Name) and ret.value.args[0].id == U_)
    if not ok:
        raise T.Unsupported("fourth statement: " + ast.unparse(ret))
    n_, d_ = lp.target.id, dl.target.id
    text = (f"(* translated from unused_removal.py::RemoveUnusedOpsetsPass._process_graph_like; `nodes_domains` = the domains of the\n"
            f"   nodes ir.traversal.RecursiveGraphIterator({G_}) yields, `opset_imports` = {G_}.opset_imports *)\n"
            f"Definition gen_process_graph_like (nodes_domains : list (list N)) (opset_imports : list (list N * Z)) ({S_} : list (list N))\n"
            f"  : list (list N * Z) * bool :=\n"
            f"  let {S_} := fold_left (fun {S_} {n_}_domain => py_set_add {S_} {n_}_domain) nodes_domains {S_} in\n"
            f"  let {U_} := py_keys_minus opset_imports {S_} in\n"
            f"  let opset_imports := fold_left (fun opset_imports {d_} => py_dict_del opset_imports {d_}) {U_} opset_imports in\n"
            f"  (opset_imports, py_bool_of_list {U_}).\n")
    return T.HEADER + OPSETS_PRELUDE + text


def generate(ck) -> bool:
    ok = True
    try:
        ck.gen("C05GenOpsets", gen_opsets_text())
    except (T.Unsupported, SyntaxError, OSError) as e:
        ck.gen_failed("C05GenOpsets", e)
        ok = False
    try:
        text = gen_text()
        ck.gen("C05Gen", text)
    except (T.Unsupported, SyntaxError, OSError) as e:
        ck.gen_failed("C05Gen", e)
        ok = False
    try:
        ck.gen("C05GenTrim", gen_trim_text())
    except (T.Unsupported, SyntaxError, OSError) as e:
        ck.gen_failed("C05GenTrim", e)
        ok = False
    return ok


# --------------------------------------------------------------------------- the passes

def const_attr_payload(an: str, av):
    """(dtype, shape, payload) of the tensor denoted by a Constant's non-`value` attribute, per the operator spec:
    value_int -> INT64 scalar (shape []), value_ints -> INT64 [n], value_float -> FLOAT scalar, value_floats -> FLOAT [n],
    value_string -> STRING scalar, value_strings -> STRING [n].  Independent of the pass under test."""
    v = av.value
    b = lambda x: x.encode("utf-8") if isinstance(x, str) else bytes(x)  # noqa: E731
    if an == "value_int":
        return 7, [], list(np.asarray(int(v), dtype="<i8").tobytes())
    if an == "value_ints":
        return 7, [len(v)], list(np.asarray([int(x) for x in v], dtype="<i8").tobytes())
    if an == "value_float":
        return 1, [], list(np.asarray(float(v), dtype="<f4").tobytes())
    if an == "value_floats":
        return 1, [len(v)], list(np.asarray([float(x) for x in v], dtype="<f4").tobytes())
    if an == "value_string":
        s = b(v)
        return 8, [], [len(s), *s]
    if an == "value_strings":
        data = []
        for x in v:
            s = b(x)
            data += [len(s), *s]
        return 8, [len(v)], data
    return None


def make_pass(name: str):
    from onnx_ir.passes import common as P
    table = {
        "dce": lambda: P.RemoveUnusedNodesPass(),
        "ident": lambda: P.IdentityEliminationPass(),
        "cse": lambda: P.CommonSubexpressionEliminationPass(),
        "cse100": lambda: P.CommonSubexpressionEliminationPass(size_limit=100),
        "dedup": lambda: P.DeduplicateInitializersPass(),
        "dedup8": lambda: P.DeduplicateInitializersPass(size_limit=8),
        "deduph": lambda: P.DeduplicateHashedInitializersPass(),
        "topo": lambda: P.TopologicalSortPass(),
        "namefix": lambda: P.NameFixPass(),
        "lift": lambda: P.LiftConstantsToInitializersPass(),
        "lift0": lambda: P.LiftConstantsToInitializersPass(size_limit=0),
        "liftall": lambda: P.LiftConstantsToInitializersPass(lift_all_constants=True, size_limit=0),
        "liftsub": lambda: P.LiftSubgraphInitializersToMainGraphPass(),
        "rminit": lambda: P.RemoveInitializersFromInputsPass(),
        "addinit": lambda: P.AddInitializersToInputsPass(),
        "inline": lambda: P.InlinePass(),
        "outfix": lambda: P.OutputFixPass(),
        "defattr": lambda: P.AddDefaultAttributesPass(),
        "shape": lambda: P.ShapeInferencePass(),
        "shape2": lambda: P.ShapeInferencePass(check_type=True, strict_mode=False, data_prop=False),
        "clear": lambda: P.ClearMetadataAndDocStringPass(),
        "rmfunc": lambda: P.RemoveUnusedFunctionsPass(),
        "rmopset": lambda: P.RemoveUnusedOpsetsPass(),
    }
    return table[name]()


PASS_NAMES = ["dce", "ident", "cse", "cse100", "dedup", "dedup8", "deduph", "topo", "namefix", "lift", "lift0", "liftall",
              "liftsub", "rminit", "addinit", "inline", "outfix", "defattr", "shape", "clear", "rmfunc", "rmopset", "shape2"]
# passes with an executable Gallina model (structural correspondence = model pass output vs implementation)
MODELLED = {"dce", "ident", "cse", "cse100", "dedup", "dedup8", "deduph", "lift", "lift0", "liftall", "liftsub", "rminit",
            "addinit", "outfix", "rmfunc", "defattr", "inline"}
# passes that may only touch what is outside the term language (names, metadata, shapes, opset imports): frame check
FRAME = {"namefix", "shape", "shape2", "clear", "rmopset"}
RELATIONAL = {"topo"}        # checked against the reorder relation (exact order: property C12)


# --------------------------------------------------------------------------- IR -> term

def cN(n):
    return f"{n}"


def cZ(n):
    return f"({n})%Z" if n < 0 else f"{n}%Z"


def cstr(s: str) -> str:
    return "[" + ";".join(str(ord(c)) for c in s) + "]"


def clist(items):
    return "[" + "; ".join(items) + "]"


def dbl_bits(x: float) -> int:
    x = float(x)
    if x != x:
        return 0x7FF8000000000000      # NaN payloads are not distinguished (float.hex() prints every NaN as "nan")
    return struct.unpack("<Q", struct.pack("<d", x))[0]


class Conv:
    """Persistent identity maps Value/Graph object -> id across the steps of one case."""

    def __init__(self):
        self.vids: dict[int, int] = {}
        self.gids: dict[int, int] = {}
        self.keep = []          # keep objects alive so that id() stays unique
        self.next_v = 1
        self.next_g = 1

    def vid(self, v) -> int:
        k = id(v)
        if k not in self.vids:
            self.vids[k] = self.next_v
            self.next_v += 1
            self.keep.append(v)
        return self.vids[k]

    def gid(self, g) -> int:
        k = id(g)
        if k not in self.gids:
            self.gids[k] = self.next_g
            self.next_g += 1
            self.keep.append(g)
        return self.gids[k]

    # ---- tensors / attributes
    def tensor_payload(self, t):
        import onnx_ir as ir
        dt = int(t.dtype)
        shape = [int(d) if isinstance(d, int) else -1 for d in t.shape]
        if t.dtype == ir.DataType.STRING:
            data = []
            for s in t.string_data():
                data.append(len(s))
                data.extend(bytes(s))
        else:
            data = list(t.tobytes())
        return dt, shape, data

    def attr(self, a):
        import onnx_ir as ir
        AT = ir.AttributeType
        ty = int(a.type)
        if a.is_ref():
            return f"ARef {ty} {cstr(a.ref_attr_name)}"
        if a.type == AT.GRAPH:
            return f"AGraph {self.gid(a.value)}"
        if a.type == AT.GRAPHS:
            return f"AGraphs {clist(str(self.gid(g)) for g in a.value)}"
        v = a.value
        if a.type == AT.INT:
            p = [int(v)]
        elif a.type == AT.INTS:
            p = [int(x) for x in v]
        elif a.type == AT.FLOAT:
            p = [dbl_bits(v)]
        elif a.type == AT.FLOATS:
            p = [dbl_bits(x) for x in v]
        elif a.type == AT.STRING:
            p = list(v.encode("utf-8") if isinstance(v, str) else bytes(v))
        elif a.type == AT.STRINGS:
            p = []
            for s in v:
                b = s.encode("utf-8") if isinstance(s, str) else bytes(s)
                p.append(len(b))
                p.extend(b)
        elif a.type == AT.TENSOR:
            dt, shape, data = self.tensor_payload(v)
            p = [dt, len(shape)] + shape + data
        else:
            p = list(repr(v).encode("utf-8"))
        return f"AData {ty} {clist(cZ(x) for x in p)}"

    def node(self, n):
        attrs = sorted(n.attributes.items())
        at = clist(f"({cstr(k)}, {self.attr(a)})" for k, a in attrs)
        ins = clist("None" if i is None else f"Some {self.vid(i)}" for i in n.inputs)
        outs = clist(str(self.vid(o)) for o in n.outputs)
        return f"mkNode ({cstr(n.domain)}, {cstr(n.op_type)}, {cstr(n.overload)}) {at} {ins} {outs}"

    def graph(self, g, is_function=False):
        ins = clist(str(self.vid(v)) for v in g.inputs)
        inits = []
        if not is_function:
            for v in g.initializers.values():
                t = v.const_value
                if t is None:
                    inits.append(f"({self.vid(v)}, mkTensor (-1)%Z [] [])")
                else:
                    dt, shape, data = self.tensor_payload(t)
                    inits.append(f"({self.vid(v)}, mkTensor {cZ(dt)} {clist(cZ(x) for x in shape)} {clist(cZ(x) for x in data)})")
        nodes = clist(self.node(n) for n in g)
        outs = clist(str(self.vid(v)) for v in g.outputs)
        return f"mkGraph {ins} {clist(inits)} {nodes} {outs}"

    def model(self, m):
        """-> (coq term, info) ; info carries traversal orders and tables the model passes take as parameters."""
        import onnx_ir as ir
        visited_graphs: dict[int, object] = {}
        visited_nodes = set()
        values = []

        def visit_graph(g):
            if id(g) in visited_graphs:
                return
            visited_graphs[id(g)] = g
            self.gid(g)
            for v in g.inputs:
                values.append(v)
            for v in g.initializers.values():
                values.append(v)
            for n in g:
                visited_nodes.add(id(n))
                values.extend(o for o in n.outputs)
                values.extend(i for i in n.inputs if i is not None)
                for a in n.attributes.values():
                    if a.is_ref():
                        continue
                    if a.type == ir.AttributeType.GRAPH:
                        visit_graph(a.value)
                    elif a.type == ir.AttributeType.GRAPHS:
                        for sg in a.value:
                            visit_graph(sg)
            for v in g.outputs:
                values.append(v)

        main = m.graph
        # ids: main first (inputs, initializers, nodes ...), then function bodies
        main_term_first = self.graph(main)          # assigns vids in a deterministic order
        visit_graph(main)
        fgraphs = []
        for f in m.functions.values():
            fg = f._graph if hasattr(f, "_graph") else f.graph
            fgraphs.append((f, fg))
            visit_graph(fg)
        # orphan graphs: graphs of user nodes that are no longer reachable (subgraphs of removed nodes)
        changed = True
        while changed:
            changed = False
            for v in list(values):
                for use in v.uses():
                    un = use.node
                    if id(un) not in visited_nodes and un.graph is not None and isinstance(un.graph, ir.Graph) \
                            and id(un.graph) not in visited_graphs:
                        visit_graph(un.graph)
                        changed = True
        fbody_ids = {id(fg) for _, fg in fgraphs}
        subs = []
        for gk, g in visited_graphs.items():
            if g is main or gk in fbody_ids:
                continue
            subs.append((self.gid(g), g))
        subs.sort(key=lambda p: p[0])
        sub_terms = clist(f"({gi}, {self.graph(g)})" for gi, g in subs)
        fterms = []
        for f, fg in fgraphs:
            defaults = sorted((k, a) for k, a in f.attributes.items() if a.value is not None)
            dt = clist(f"({cstr(k)}, {self.attr(a)})" for k, a in defaults)
            fterms.append(f"mkFunc ({cstr(f.domain)}, {cstr(f.name)}, {cstr(f.overload)}) ({self.graph(fg, True)}) {dt}")
        term = f"mkModel ({main_term_first}) {sub_terms} {clist(fterms)}"

        def gref(g):
            if g is main:
                return "GMain"
            for i, (_, fg) in enumerate(fgraphs):
                if g is fg:
                    return f"GFunc {i}%nat"
            return f"GSub {self.gid(g)}"
        info = {"gref": gref, "main": main, "fgraphs": fgraphs, "subs": subs, "values": values}
        return term, info


def schema_table(m) -> str:
    """op_type -> optional flags of the formal outputs, computed with the calls the pass makes."""
    import onnx
    ver = m.graph.opset_imports.get("", None)
    rows = {}
    if ver is None:
        return "[]"
    import onnx_ir as ir
    nodes = list(ir.traversal.RecursiveGraphIterator(m.graph))
    for f in m.functions.values():
        nodes += list(ir.traversal.RecursiveGraphIterator(f))
    for n in nodes:
        if n.domain != "" or n.op_type in rows:
            continue
        try:
            sch = onnx.defs.get_schema(n.op_type, ver, domain=n.domain)
        except Exception:  # noqa: BLE001
            continue
        flags = []
        for o in sch.outputs:
            if o.option == onnx.defs.OpSchema.FormalParameterOption.Variadic:
                flags = []
                break
            flags.append(o.option == onnx.defs.OpSchema.FormalParameterOption.Optional)
        rows[n.op_type] = flags
    return clist(f"({cstr(k)}, {clist('true' if b else 'false' for b in v)})" for k, v in sorted(rows.items()))


def defaults_table(m, conv) -> str:
    """operator id -> (name, default) of the schema's optional attributes with a default value, read with the calls the
    pass makes (version = node.version or the MAIN graph's opset import of the node's domain)."""
    import onnx
    import onnx_ir as ir
    nodes = list(ir.traversal.RecursiveGraphIterator(m.graph))
    for f in m.functions.values():
        nodes += list(ir.traversal.RecursiveGraphIterator(f))
    rows = {}
    for n in nodes:
        key = (n.domain, n.op_type, n.overload)
        if key in rows:
            continue
        ver = n.version if n.version is not None else m.graph.opset_imports.get(n.domain)
        if ver is None:
            continue
        try:
            sch = onnx.defs.get_schema(n.op_type, ver, domain=n.domain)
        except Exception:  # noqa: BLE001
            continue
        defs = []
        for an, ad in sch.attributes.items():
            if ad.required or not (ad.default_value and ad.default_value.type != onnx.AttributeProto.UNDEFINED):
                continue
            defs.append((an, conv.attr(ir.serde.deserialize_attribute(ad.default_value))))
        rows[key] = defs
    return clist(f"(({cstr(d)}, {cstr(o)}, {cstr(ov)}), {clist(f'({cstr(an)}, {av})' for an, av in defs)})"
                 for (d, o, ov), defs in sorted(rows.items()))


FUEL = "12%nat"


def model_expr(name: str, p, m, conv: Conv, info, before: str, base: int) -> str | None:
    """Coq expression of type `model` : the model pass applied to `before` (a Coq identifier)."""
    import onnx_ir as ir
    gref = info["gref"]
    if name == "dce":
        unnamed = [conv.vid(v) for v in info["values"] if not v.name]
        ops = []
        if "" in m.graph.opset_imports:
            ops.append("GMain")
        for gi, g in info["subs"]:
            if "" in g.opset_imports:
                ops.append(f"GSub {gi}")
        for i, (f, fg) in enumerate(info["fgraphs"]):
            if "" in f.opset_imports:
                ops.append(f"GFunc {i}%nat")
        args = f"{schema_table(m)} {clist(str(x) for x in sorted(set(unnamed)))} {clist(ops)} {FUEL}"
        info["cond"] = f"extra_okb [] (PDce {args}) {before}"
        return f"(dce {args} {before})"
    if name == "ident":
        return f"(identity_elim {FUEL} {before})"
    if name in ("cse", "cse100"):
        # 87b8ce6: the key says which outputs are omitted (empty name): their identities are handed to the model
        om = clist(str(x) for x in sorted(set(conv.vid(v) for v in info["values"] if v.name == "")))
        info["cond"] = f"extra_okb [] (PCse {cZ(p.size_limit)} {base} {om}) {before}"
        return f"(fst (cse {om} {cZ(p.size_limit)} {before} {base}))"
    if name in ("dedup", "dedup8", "deduph"):
        order = [gref(g) for g in m.graphs()]
        # deduph: key = (dtype, dims, sha512 of the exact bytes; for string tensors of the length-prefixed strings since
        # fffc28e) = exact content; a collision of the digest with different content is not modelled
        keyeq = "tensor_eqb"
        return f"(dedup_inits {keyeq} {cZ(p.size_limit)} {clist(order)} {before})"
    if name in ("lift", "lift0", "liftall"):
        other = []
        for n in ir.traversal.RecursiveGraphIterator(m.graph):
            if n.op_type == "Constant" and n.domain in ("", "onnx.ai") and len(n.attributes) == 1:
                an, av = next(iter(n.attributes.items()))
                if an != "value" and p.lift_all_constants and not av.is_ref():
                    # the tensor a Constant(value_int / value_ints / value_float / ... ) denotes per the ONNX operator spec,
                    # computed HERE (not by the pass): element type, SHAPE (rank 0 for the scalar forms, [n] for the list
                    # forms) and bytes are all part of the compared term
                    pay = const_attr_payload(an, av)
                    if pay is None:
                        return None
                    dt, shape, data = pay
                    other.append(f"({conv.vid(n.outputs[0])}, mkTensor {cZ(dt)} {clist(cZ(x) for x in shape)} {clist(cZ(x) for x in data)})")
        info["cond"] = (f"extra_okb [] (PLift {FUEL} {'true' if p.lift_all_constants else 'false'} {cZ(p.size_limit)} {base}) {before}")
        return (f"(fst (lift_constants {FUEL} {'true' if p.lift_all_constants else 'false'} {cZ(p.size_limit)} "
                f"{clist(other)} {before} {base}))")
    if name == "liftsub":
        order = [gref(g) for g in m.graphs()]
        info["cond"] = f"extra_okb [] (PLiftSub {clist(order)}) {before}"
        return f"(lift_subgraph_inits {clist(order)} {before})"
    if name == "rminit":
        return f"(remove_inits_from_inputs {clist(gref(g) for g in m.graphs())} {before})"
    if name == "addinit":
        return f"(add_inits_to_inputs {clist([gref(m.graph)])} {before})"       # d64e021: main graph only
    if name == "outfix":
        scopes = [clist([gref(m.graph)] + [gref(g) for g in m.graph.subgraphs()])]
        for f, fg in info["fgraphs"]:
            scopes.append(clist([gref(fg)] + [gref(g) for g in f.subgraphs()]))
        info["cond"] = f"extra_okb [] (POutFix {clist(scopes)} {base}) {before}"
        return f"(fst (output_fix {clist(scopes)} {before} {base}))"
    if name == "rmfunc":
        return f"(remove_unused_funcs_checked {FUEL} {before})"
    if name == "inline":
        return f"(inline_pass_c {FUEL} {before} {base} {conv.next_g})"
    if name == "defattr":
        tbl = defaults_table(m, conv)
        info["cond"] = f"extra_okb {tbl} (PDefAttr {FUEL}) {before}"
        return f"(add_default_attrs {tbl} {FUEL} {before})"
    return None


CASE_HEADER = """From Coq Require Import ZArith NArith List Bool.
From IRV Require Import Base.Exn Gen.C05Gen C05.Model C05.Inline C05.InlineCert C05.InlinePass C05.Opsets C05.Proofs12 C05.Proofs19.
Import ListNotations.
Open Scope N_scope.
"""


class Step:
    __slots__ = ("pass_name", "before", "after", "expr", "base", "kind", "case", "idx", "ops_before", "ops_after", "process_functions", "cond")


def opset_tables(m) -> str:
    """`imports fimports` of Opsets.mkO: the model's opset-import table and one table per function (order of m.functions)."""
    tab = lambda d: clist(f"({cstr(k)}, {cZ(int(v))})" for k, v in d.items())  # noqa: E731
    return tab(m.opset_imports) + " " + clist(tab(f.opset_imports) for f in m.functions.values())


def run_case(spec: dict, passes: list[str], conv_steps: bool = True):
    """Run the pass sequence on the implementation; return (protos, steps, raised).

    protos[0] is the original ModelProto, protos[i] the serialized model after pass i (None once a pass raised).
    steps: structural-correspondence obligations (Coq text fragments)."""
    import onnx_ir as ir
    mp0 = G.build(spec)
    import onnx
    # the IR wraps the proto's tensors (renaming a Value renames them): give it a private copy
    m = ir.serde.deserialize_model(onnx.ModelProto.FromString(mp0.SerializeToString()))
    conv = Conv()
    protos = [mp0]
    steps = []
    raised = None
    # spec["reuse_history"] = [[spec_A, passes_A], ...]: ONE pass object per pass name is used for the earlier models and
    # then for this one (a pass has no state: the run on this model must equal a run with fresh objects, which is what the
    # Coq model and the oracle expect).  Self-contained: every call re-creates the objects and the history.
    pool = None
    if spec.get("reuse_history"):
        pool = {}
        for hspec, hpasses in spec["reuse_history"]:
            try:
                hm = ir.serde.deserialize_model(onnx.ModelProto.FromString(G.build(hspec).SerializeToString()))
                for hname in hpasses:
                    if hname not in pool:
                        pool[hname] = make_pass(hname)
                    hm = pool[hname](hm).model
            except Exception:  # noqa: BLE001
                pass
    for i, name in enumerate(passes):
        if pool is None:
            p = make_pass(name)
        else:
            if name not in pool:
                pool[name] = make_pass(name)
            p = pool[name]
        st = None
        if conv_steps:
            st = Step()
            st.pass_name = name
            st.before, info = conv.model(m)
            st.base = conv.next_v
            st.ops_before = opset_tables(m) if name in ("rmopset", "inline") else None
            st.process_functions = bool(getattr(p, "process_functions", True))
            try:
                info.pop("cond", None)
                st.expr = model_expr(name, p, m, conv, info, "BEFORE", st.base) if name in MODELLED else None
            except Exception:  # noqa: BLE001
                st.expr = None
            # the pass's own side condition in C05_sequence (Proofs12.extra), as the executable Proofs19.extra_okb
            st.cond = info.get("cond") if st.expr else None
            st.kind = ("model" if name in MODELLED and st.expr else "frame" if name in FRAME else
                       "reorder" if name in RELATIONAL else "none")
        try:
            res = p(m)
            m = res.model
        except Exception as e:  # noqa: BLE001
            raised = (i, name, type(e).__name__, str(e)[:300], type(e.__cause__).__name__ if e.__cause__ else None)
            break
        if st is not None:
            st.after, _ = conv.model(m)
            st.ops_after = opset_tables(m) if name in ("rmopset", "inline") else None
            steps.append(st)
        try:
            protos.append(ir.serde.serialize_model(m))
        except Exception as e:  # noqa: BLE001
            raised = (i, name, "serialize:" + type(e).__name__, str(e)[:300], None)
            break
    return protos, steps, raised


def steps_to_coq(steps: list[Step]) -> str:
    out = [CASE_HEADER]
    flags, valids, conds = [], [], []
    for k, st in enumerate(steps):
        out.append(f"Definition b{k} : model := {st.before}.\nDefinition a{k} : model := {st.after}.\n")
        valids.append(f"wfb b{k} && outputs_localb b{k} && noopfuncb b{k}")
        c = getattr(st, "cond", None)
        conds.append(c.replace("BEFORE", f"b{k}") if c else "true")
        if st.kind == "model" and st.pass_name == "inline":
            fl = f"model_agree_deep 12 {st.base} {st.expr.replace('BEFORE', f'b{k}')} a{k}"
            if getattr(st, "ops_before", None) and getattr(st, "ops_after", None):
                # the model's opset table after inlining: old entries kept, additions from function tables, main graph covered
                fl = f"(if {fl} then inline_opsets_okb {FUEL} (mkO b{k} {st.ops_before}) (mkO a{k} {st.ops_after}) else false)"
            flags.append(fl)
        elif st.kind == "model":
            flags.append(f"model_agree {st.base} {st.expr.replace('BEFORE', f'b{k}')} a{k}")
        elif st.kind == "frame" and st.pass_name == "rmopset" and getattr(st, "ops_before", None) and getattr(st, "ops_after", None):
            # the term is unchanged AND the opset tables are the ones the model of the pass (Opsets.v) computes
            pf = "true" if st.process_functions else "false"
            flags.append(f"model_agree {st.base} b{k} a{k} && opsets_agree (remove_unused_opsets {FUEL} {pf} (mkO b{k} {st.ops_before})) "
                         f"(mkO a{k} {st.ops_after})")
        elif st.kind == "frame":
            flags.append(f"model_agree {st.base} b{k} a{k}")
        elif st.kind == "reorder":
            flags.append(f"reorder_modelb b{k} a{k}")
        else:
            flags.append("true")
    out.append("Definition valids : list bool := " + clist(valids) + ".\n")
    out.append("Definition agrees : list bool := " + clist(flags) + ".\n")
    out.append("Eval vm_compute in (failing (fun b => b) agrees).\n")
    out.append("Eval vm_compute in (failing (fun b => b) valids).\n")
    out.append("Definition conds : list bool := " + clist(conds) + ".\n")
    out.append("Eval vm_compute in (failing (fun b => b) conds).\n")
    return "".join(out)




# --------------------------------------------------------------------------- onnx.checker in a worker process
# (the C++ checker / shape inference can crash the interpreter on models the passes produce; a crash must be a
#  verdict "not accepted", never the death of the check)

_WORKER_CODE = r"""
import sys, struct, pickle, onnx
inp, out = sys.stdin.buffer, sys.stdout.buffer
def reply(b):
    out.write(struct.pack("<I", len(b)) + b); out.flush()
while True:
    h = inp.read(5)
    if len(h) < 5:
        break
    kind, n = h[:1], struct.unpack("<I", h[1:])[0]
    data = inp.read(n)
    if kind == b"C":
        try:
            onnx.checker.check_model(onnx.ModelProto.FromString(data), full_check=True)
            reply(b"")
        except Exception as e:
            reply((str(e)[:400] or type(e).__name__).encode("utf-8", "replace"))
    else:
        try:
            import onnxruntime as ort
            mbytes, names, vals = pickle.loads(data)
            so = ort.SessionOptions(); so.log_severity_level = 4
            so.graph_optimization_level = ort.GraphOptimizationLevel.ORT_DISABLE_ALL
            s = ort.InferenceSession(mbytes, so, providers=["CPUExecutionProvider"])
            reply(pickle.dumps(("ok", s.run(None, dict(zip(names, vals))))))
        except Exception as e:
            reply(pickle.dumps(("err", str(e)[:300])))
"""
_worker = None


def _worker_call(kind: bytes, data: bytes):
    """-> reply bytes, or None when the worker process died on this request (crash of native code)."""
    global _worker
    import subprocess
    import sys
    for attempt in range(2):
        if _worker is None or _worker.poll() is not None:
            _worker = subprocess.Popen([sys.executable, "-c", _WORKER_CODE], stdin=subprocess.PIPE, stdout=subprocess.PIPE,
                                       stderr=subprocess.DEVNULL)
        try:
            _worker.stdin.write(kind + struct.pack("<I", len(data)) + data)
            _worker.stdin.flush()
            h = _worker.stdout.read(4)
            if len(h) < 4:
                raise EOFError
            return _worker.stdout.read(struct.unpack("<I", h)[0])
        except (EOFError, BrokenPipeError, OSError):
            rc = _worker.poll()
            _worker = None
            if attempt == 0 and rc is None:
                continue
            return None
    return None


def checker_verdict(mp) -> str | None:
    """None = accepted; otherwise the rejection message ('CRASH ...' when the checker process died)."""
    r = _worker_call(b"C", mp.SerializeToString())
    if r is None:
        return "CRASH onnx.checker process died on this model"
    return r.decode("utf-8", "replace") if r else None


def ort_run(mp, vals, ov=None):
    """onnxruntime in the worker process (a crash of native code must not kill the check). Raises on rejection."""
    import pickle
    fd = G.feed_dict(mp, vals, ov)
    names, vals = list(fd.keys()), list(fd.values())
    r = _worker_call(b"O", pickle.dumps((mp.SerializeToString(), names, vals)))
    if r is None:
        raise RuntimeError("CRASH onnxruntime process died on this model")
    tag, val = pickle.loads(r)
    if tag != "ok":
        raise RuntimeError(val)
    return val

# --------------------------------------------------------------------------- oracle

def io_signature(mp):
    ins = [(vi.type.tensor_type.elem_type, [d.dim_value if d.HasField("dim_value") else d.dim_param for d in vi.type.tensor_type.shape.dim])
           for vi in G.noninit_inputs(mp)]
    return ins, len(mp.graph.output)


def deoverload(mp):
    """The evaluators ignore FunctionProto.overload / NodeProto.overload (IR 10): for EXECUTION every function f:ov and every
    call of it is renamed to f__ov_<ov> with an empty overload — the same model by the definition of overloads."""
    import onnx
    if not any(f.overload for f in mp.functions):
        return mp
    mp = onnx.ModelProto.FromString(mp.SerializeToString())
    ids = {(f.domain, f.name, f.overload) for f in mp.functions}

    def fix_nodes(nodes):
        for n in nodes:
            if n.overload and (n.domain, n.op_type, n.overload) in ids:
                n.op_type, n.overload = f"{n.op_type}__ov_{n.overload}", ""
            for a in n.attribute:
                if a.type == onnx.AttributeProto.GRAPH:
                    fix_nodes(a.g.node)
                elif a.type == onnx.AttributeProto.GRAPHS:
                    for g in a.graphs:
                        fix_nodes(g.node)
    fix_nodes(mp.graph.node)
    for f in mp.functions:
        fix_nodes(f.node)
    for f in mp.functions:
        if f.overload:
            f.name, f.overload = f"{f.name}__ov_{f.overload}", ""
    return mp


def oracle(spec: dict, passes: list[str], seed: int, protos=None, raised=None, use_ort: bool = True) -> tuple[list[str], dict]:
    """The property, on the implementation: returns (failures, info).  info['valid'] False = case outside the quantifier."""
    import onnx
    info = {"valid": False, "ort": "skipped"}
    if protos is None:
        protos, _, raised = run_case(spec, passes, conv_steps=False)
    mp0 = protos[0]
    v0 = checker_verdict(mp0)
    if v0 is not None:
        info["invalid"] = "checker:" + v0[:120]
        return [], info
    # overridable (initializer-backed) inputs are fed too in half of the cases, when every model of the sequence has the
    # same number of them (AddInitializersToInputs / RemoveInitializersFromInputs change that number)
    nib = len(G.initbacked_inputs(mp0))
    ov = None
    if nib and seed % 2 == 0 and all(len(G.initbacked_inputs(mp)) == nib for mp in protos[1:]) and spec.get("judge") != "ort":
        ov = G.override_vals(mp0, seed)
        info["overrides"] = nib
    _ort_run = ort_run
    ort_run_x = lambda mp, *a: _ort_run(deoverload(mp), *a)  # noqa: E731
    run_exec = (lambda mp, vals: ort_run_x(mp, vals)) if spec.get("judge") == "ort" else (lambda mp, vals: G.run_ref(deoverload(mp), vals, ov))
    try:
        vals = G.feeds_for(mp0, seed)
        ref0 = run_exec(mp0, vals)
    except Exception as e:  # noqa: BLE001
        info["invalid"] = "reference-evaluator-before:" + type(e).__name__ + ":" + str(e)[:100]
        return [], info
    info["valid"] = True
    bad = []
    sig0 = io_signature(mp0)
    for i, mp in enumerate(protos[1:]):
        name = passes[i]
        verdict = checker_verdict(mp)
        if verdict is not None:
            bad.append(f"checker-rejects-after: step {i} {name}: {verdict[:200]}")
            break
        sig = io_signature(mp)
        if sig != sig0:
            bad.append(f"signature-changed: step {i} {name}: {sig0} -> {sig}")
            break
        try:
            ref = run_exec(mp, vals)
        except Exception as e:  # noqa: BLE001
            if "Mismatch lengths between the number of inputs" in str(e) and spec.get("judge") != "ort":
                # the reference evaluator cannot call a function with trailing optional inputs omitted (legal ONNX, what
                # trailing-input trimming produces): let onnxruntime judge this step
                try:
                    o0, o1 = ort_run_x(mp0, vals, ov), ort_run_x(mp, vals, ov)
                    if len(o0) == len(o1) and all(G.same_value(a, b) for a, b in zip(o0, o1)):
                        info["judge_fallback"] = "onnxruntime"
                        continue
                except Exception:  # noqa: BLE001
                    # neither evaluator can execute this (checker-accepted) model: no verdict on the values for this step
                    info["unjudged_step"] = i
                    continue
            bad.append(f"execution-fails-after: step {i} {name}: {type(e).__name__}: {str(e)[:160]}")
            break
        if len(ref) != len(ref0):
            bad.append(f"output-count: step {i} {name}")
            break
        diff = [j for j, (a, b) in enumerate(zip(ref0, ref)) if not G.same_value(a, b)]
        if diff:
            bad.append(f"outputs-differ: step {i} {name}: positions {diff}: before {[np.asarray(ref0[j]).tolist() for j in diff][:2]} "
                       f"after {[np.asarray(ref[j]).tolist() for j in diff][:2]}")
            break
    if raised is not None and not bad:
        # (a failure of an earlier step is reported alone: what follows it is a consequence)
        i, name, et, msg, cause = raised
        if et != "PreconditionError":
            bad.append(f"pass-raised: step {i} {name}: {et}({cause}): {msg[:160]}")
    if use_ort and not bad and len(protos) > 1:
        try:
            o0 = ort_run_x(mp0, vals, ov)
        except Exception:  # noqa: BLE001
            info["ort"] = "rejects-before"
            return bad, info
        try:
            o1 = ort_run_x(protos[-1], vals, ov)
        except Exception as e:  # noqa: BLE001
            info["ort"] = "rejects-after"
            info["ort_error"] = str(e)[:200]
            return bad, info
        info["ort"] = "ran"
        diff = [j for j, (a, b) in enumerate(zip(o0, o1)) if not G.same_value(a, b)]
        if diff or len(o0) != len(o1):
            bad.append(f"outputs-differ(onnxruntime): after {passes}: positions {diff}")
    return bad, info


def const_string_outputs(mp):
    """Per main-graph output: the exact byte strings when it is (an Identity chain over) a string Constant / initializer.
    The evaluators print b'a' and b'a\\0' alike, so string constants are compared at the proto level."""
    import onnx
    prod = {}
    for n in mp.graph.node:
        for o in n.output:
            prod[o] = n
    inits = {i.name: i for i in mp.graph.initializer}
    res = []
    for out in mp.graph.output:
        name, val = out.name, None
        for _ in range(64):
            if name in inits:
                t = inits[name]
                val = [bytes(x) for x in t.string_data] if t.data_type == onnx.TensorProto.STRING else None
                break
            n = prod.get(name)
            if n is None:
                break
            if n.op_type == "Identity" and n.domain == "":
                name = n.input[0]
                continue
            if n.op_type == "Constant" and n.domain == "":
                for a in n.attribute:
                    if a.name == "value" and a.t.data_type == onnx.TensorProto.STRING:
                        val = [bytes(x) for x in a.t.string_data]
                    elif a.name == "value_string":
                        val = [bytes(a.s)]
                    elif a.name == "value_strings":
                        val = [bytes(x) for x in a.strings]
            break
        res.append(val)
    return res


_oracle_exec = oracle


def oracle(spec, passes, seed, protos=None, raised=None, use_ort=True):  # noqa: F811
    """Execution oracle + exact comparison of string constants that reach an output."""
    if protos is None:
        protos, _, raised = run_case(spec, passes, conv_steps=False)
    bad, info = _oracle_exec(spec, passes, seed, protos, raised, use_ort and G.ort_comparable(spec))
    if info["valid"] and not bad and len(protos) > 1:
        c0 = const_string_outputs(protos[0])
        for i, mp in enumerate(protos[1:]):
            c1 = const_string_outputs(mp)
            d = [j for j, (a, b) in enumerate(zip(c0, c1)) if a is not None and b is not None and a != b]
            if d:
                bad.append(f"outputs-differ(string-constant-bytes): step {i} {passes[i]}: positions {d}: "
                           f"before {[c0[j] for j in d]} after {[c1[j] for j in d]}")
                break
    return bad, info


# --------------------------------------------------------------------------- known findings: site + witness shape

def _walk_nodes(spec):
    def rec(nodes):
        for n in nodes:
            yield n
            for tv in n.get("attrs", {}).values():
                if tv[0] == "g":
                    yield from rec(tv[1]["nodes"])
    yield from rec(spec["nodes"])
    for f in spec.get("functions", []):
        yield from rec(f["nodes"])


def _subgraphs(spec):
    def rec(nodes):
        for n in nodes:
            for tv in n.get("attrs", {}).values():
                if tv[0] == "g":
                    yield tv[1]
                    yield from rec(tv[1]["nodes"])
    yield from rec(spec["nodes"])
    for f in spec.get("functions", []):
        yield from rec(f["nodes"])


def _has_zero_float_attr(spec):
    for n in spec["nodes"]:
        for tv in n.get("attrs", {}).values():
            if (tv[0] == "f" and float(tv[1]) == 0.0) or (tv[0] == "fs" and any(float(x) == 0.0 for x in tv[1])):
                return True
    return False


def _has_string_const(spec):
    return any(tv[0] in ("t", "s", "ss") and (tv[0] != "t" or tv[1][0] in ("S", "S2"))
               for n in _walk_nodes(spec) for tv in n.get("attrs", {}).values())


def classify(spec: dict, passes: list[str], failure: str) -> str | None:
    """Map an oracle failure to the key of a recorded finding (call site = pass + failure kind + witness shape)."""
    import re
    m = re.search(r"step (\d+) (\w+)", failure)
    step_pass = m.group(2) if m else (passes[-1] if passes else "")
    kind = failure.split(":")[0]
    if not m:
        # the onnxruntime comparison is made at the end of a sequence: attribute it to a recorded site of the sequence
        for cand in ("cse", "cse100", "dce", "liftall"):
            if cand in passes:
                step_pass = cand
                break
    if step_pass in ("cse", "cse100"):
        if kind == "checker-rejects-after" and "Field 'type' of 'value_info' is required" in failure:
            return "cse-graph-output-type-lost"
        if kind.startswith("outputs-differ") and _has_zero_float_attr(spec):
            return "cse-float-signed-zero"
        if kind.startswith("outputs-differ") and _has_string_const(spec):
            return "cse-string-tensor-nul-padding"
    if step_pass == "dce" and kind.startswith("outputs-differ") and any(
            n["op"] == "BatchNormalization" and "training_mode" in n.get("attrs", {}) for n in _walk_nodes(spec)):
        return "dce-batchnorm-training-mode"
    if step_pass == "ident" and kind == "checker-rejects-after" and "should not have duplicate outputs" in failure:
        return "identity-elim-duplicate-function-outputs"
    if step_pass == "ident" and any(True for _ in _subgraphs(spec)):
        if kind == "checker-rejects-after" and "is not an output of any node in graph" in failure:
            return "identity-elim-outer-scope-output"
        if kind == "pass-raised" and "already an output of a different graph" in failure:
            return "identity-elim-outer-scope-output"
    if step_pass == "addinit" and kind == "checker-rejects-after" and ("inputs but" in failure or "CRASH" in failure) \
            and any(True for _ in _subgraphs(spec)):
        return "addinit-subgraph-initializers-become-inputs"
    if step_pass == "liftall" and _has_string_const(spec):
        if kind == "pass-raised" and "UnicodeEncodeError" in failure:
            return "liftall-value-string-numpy-bytes"
        if kind.startswith("outputs-differ"):
            return "liftall-value-string-numpy-bytes"
    return None


def _dup_name_is_cross_scope(spec, passes, failure) -> bool:
    """The duplicated output name occurs in two DIFFERENT (nested) graphs of the pass output, never twice in one graph."""
    import re
    m = re.search(r"however '([^']*)' has been used as output names", failure)
    ms = re.search(r"step (\d+)", failure)
    if not m or not ms:
        return False
    name, step = m.group(1), int(ms.group(1))
    try:
        protos, _, _ = run_case(spec, passes, conv_steps=False)
        mp = protos[step + 1]
    except Exception:  # noqa: BLE001
        return False
    paths = []

    def walk(g, path):
        for i, n in enumerate(g.node):
            if name in n.output:
                paths.append(path)
            for a in n.attribute:
                if a.type == 5:
                    walk(a.g, path + (i, a.name))
                for k, sg in enumerate(a.graphs):
                    walk(sg, path + (i, a.name, k))
    walk(mp.graph, ())
    return len(paths) >= 2 and len(set(paths)) == len(paths)


_classify_base = classify


def classify(spec, passes, failure):  # noqa: F811
    k = _classify_base(spec, passes, failure)
    if k:
        return k
    import re
    m = re.search(r"step (\d+) (\w+)", failure)
    step_pass = m.group(2) if m else ""
    kind = failure.split(":")[0]
    outs = [o[0] for o in spec["outputs"]]
    if step_pass in ("cse", "cse100") and kind == "checker-rejects-after" and "has been used as output names multiple times" in failure \
            and len(set(outs)) != len(outs):
        return "cse-duplicate-graph-output-identity-names"
    if step_pass == "inline" and kind == "checker-rejects-after" and "has been used as output names multiple times" in failure \
            and spec.get("functions") and _dup_name_is_cross_scope(spec, passes, failure):
        return "inline-name-collision-with-nested-scope"
    if step_pass == "inline" and kind == "checker-rejects-after" and "has output size 0" in failure and any(
            "" in n["outs"] and n.get("dom") == "local" for n in _walk_nodes(spec)):
        return "inline-omitted-call-output"
    if step_pass == "inline" and any(set(f["outs"]) & set(f["ins"]) for f in spec.get("functions", [])) and (
            (kind == "pass-raised" and "already an output of a different graph" in failure)
            or (kind == "checker-rejects-after" and "is not an output of any node in graph" in failure)):
        return "inline-passthrough-into-subgraph-output"
    return None


# --------------------------------------------------------------------------- shrinking

def _valid(spec) -> bool:
    try:
        return checker_verdict(G.build(spec)) is None
    except Exception:  # noqa: BLE001
        return False


def shrink(spec: dict, passes: list[str], seed: int, key_of) -> tuple[dict, list[str]]:
    """Greedy: drop passes, outputs, nodes (any scope), functions, initializers while the same failure class persists."""
    import copy

    def fails(s, ps):
        if not ps or not _valid(s):
            return False
        try:
            bad, info = oracle(s, ps, seed)
        except Exception:  # noqa: BLE001
            return False
        return bool(info["valid"] and bad and key_of(s, ps, bad[0]))
    cur, ps = copy.deepcopy(spec), list(passes)
    changed = True
    rounds = 0
    while changed and rounds < 6:
        changed = False
        rounds += 1
        for i in range(len(ps)):
            p2 = ps[:i] + ps[i + 1:]
            if fails(cur, p2):
                ps, changed = p2, True
                break
        for i in range(len(cur["outputs"]) - 1, -1, -1):
            if len(cur["outputs"]) > 1:
                c2 = copy.deepcopy(cur)
                del c2["outputs"][i]
                if fails(c2, ps):
                    cur, changed = c2, True

        def node_lists(s):
            yield s["nodes"]
            for n in _walk_nodes(s):
                for tv in n.get("attrs", {}).values():
                    if tv[0] == "g":
                        yield tv[1]["nodes"]
            for f in s.get("functions", []):
                yield f["nodes"]
        li = 0
        while True:
            lists = list(node_lists(cur))
            if li >= len(lists):
                break
            j = len(lists[li]) - 1
            while j >= 0:
                c2 = copy.deepcopy(cur)
                ls2 = list(node_lists(c2))
                if li < len(ls2) and j < len(ls2[li]):
                    del ls2[li][j]
                    if fails(c2, ps):
                        cur, changed = c2, True
                j -= 1
            li += 1
        for i in range(len(cur.get("functions", [])) - 1, -1, -1):
            c2 = copy.deepcopy(cur)
            del c2["functions"][i]
            if fails(c2, ps):
                cur, changed = c2, True
        for i in range(len(cur.get("inits", [])) - 1, -1, -1):
            c2 = copy.deepcopy(cur)
            nm = c2["inits"][i][0]
            del c2["inits"][i]
            c2["inputs"] = [x for x in c2["inputs"] if x[0] != nm]
            if fails(c2, ps):
                cur, changed = c2, True
        for i in range(len(cur["inputs"]) - 1, 0, -1):
            c2 = copy.deepcopy(cur)
            del c2["inputs"][i]
            if fails(c2, ps):
                cur, changed = c2, True
    return cur, ps


# --------------------------------------------------------------------------- Coq runs (memory-capped)

def coq_run(ck, text: str, tag: str, timeout: int = 240) -> tuple[int, str]:
    p = os.path.join(ck.scratch, f"{tag}.v")
    with open(p, "w", encoding="utf-8") as f:
        f.write(text)
    cmd = (f"ulimit -v 3000000; exec timeout {timeout} coqc -Q {os.path.join(common.COQ, 'theories')} IRV -w -all {p}")
    return common.sh(["bash", "-c", cmd], cwd=ck.scratch, timeout=timeout + 30)


import threading
_COQ_SLOTS = threading.Semaphore(3)          # coqc processes at a time (the Python side keeps one core)


def coq_steps_raw(ck, steps: list[Step], tag: str):
    """-> (disagreeing steps, steps outside the model's precondition, steps whose side condition is false); no bookkeeping."""
    import concurrent.futures as cf
    import re
    chunks = [steps[i:i + 40] for i in range(0, len(steps), 40)]

    def one(ic):
        i, ch = ic
        with _COQ_SLOTS:
            rc, out = coq_run(ck, steps_to_coq(ch), f"{tag}_{i}")
        if rc != 0:
            raise RuntimeError(f"case file {tag}_{i} did not compile / ran out of resources:\n{out[-1500:]}")
        lists = re.findall(r"=\s*(\[[^\]]*\]|nil)", out)
        if len(lists) != 3:
            raise RuntimeError("unexpected coq output:\n" + out[-1500:])
        pr = lambda b: [] if b == "nil" else [int(x) for x in re.findall(r"\d+", b)]  # noqa: E731
        return [i * 40 + k for k in pr(lists[0])], [i * 40 + k for k in pr(lists[1])], [i * 40 + k for k in pr(lists[2])]
    dis, inv, nocond = [], [], []
    with cf.ThreadPoolExecutor(max_workers=4) as ex:
        for a, b, c in ex.map(one, enumerate(chunks)):
            dis += a
            inv += b
            nocond += c
    return dis, inv, nocond


def coq_steps(ck, steps: list[Step], tag: str, raw=None) -> tuple[list[int], list[int]]:
    """-> (indices of disagreeing steps, indices of steps whose input is outside the model's precondition)."""
    dis, inv, nocond = raw if raw is not None else coq_steps_raw(ck, steps, tag)
    # steps of modelled passes whose side condition (hypothesis of C05_sequence) is decided in Coq on this very input
    inv_set = set(inv)
    for i, st in enumerate(steps):
        if getattr(st, "cond", None) and i not in inv_set:
            ck.hist("side_conditions", ("holds:" if i not in set(nocond) else "OUTSIDE-HYPOTHESIS:") + st.pass_name)
    return dis, inv


# --------------------------------------------------------------------------- main

def trim_stream(ck, n: int) -> None:
    """The TRANSLATED _remove_trailing_empty_inputs (Gen/C05GenTrim.v) against the implementation's function on input lists:
    patterns taken from generated models plus random ones (empty list, all omitted, omitted in the middle).  A replay
    names the pattern."""
    import re
    import onnx_ir as ir
    from onnx_ir.passes.common import unused_removal as U
    pats = [[], [None], [None, None, None], [1], [1, None], [None, 1], [1, None, 2, None, None]]
    for _ in range(n):
        k = ck.rng.randrange(0, 7)
        pats.append([ck.rng.choice([None, None, 1, 2, 3]) for _ in range(k)])
    for _ in range(max(2, n // 8)):
        spec = G.Gen(random.Random(ck.rng.randrange(1 << 30))).gen_model()
        for nd in _walk_nodes(spec):
            pats.append([None if x == "" else 1 + (hash(x) % 5) for x in nd["ins"]])
    rows, results = [], []
    for pat in pats:
        vals = {i: ir.Value(name=f"v{i}") for i in set(x for x in pat if x is not None)}
        node = ir.Node("", "Op", [None if x is None else vals[x] for x in pat], num_outputs=1)
        try:
            changed = U._remove_trailing_empty_inputs(node)
            after = [None if v is None else int(v.name[1:]) for v in node.inputs]
        except Exception as e:  # noqa: BLE001
            ck.broken("correspondence:trim", f"_remove_trailing_empty_inputs raised {type(e).__name__} on {pat}")
            return
        results.append((pat, after, bool(changed)))
        o = lambda x: "None" if x is None else f"(Some {x}%N)"  # noqa: E731
        rows.append(f"({clist(o(x) for x in pat)}, ({clist(o(x) for x in after)}, {'true' if changed else 'false'}))")
        ck.count()
    text = ("From Coq Require Import ZArith NArith List Bool.\nFrom IRV Require Import Base.Exn Gen.C05GenTrim.\nImport ListNotations.\n"
            "Definition oeq (a b : option N) : bool := match a, b with None, None => true | Some x, Some y => N.eqb x y | _, _ => false end.\n"
            "Fixpoint leq (a b : list (option N)) : bool := match a, b with [] , [] => true | x :: a', y :: b' => oeq x y && leq a' b' | _, _ => false end.\n"
            "Definition rows : list (list (option N) * (list (option N) * bool)) := " + clist(rows) + ".\n"
            "Eval vm_compute in (failing (fun r => let g := gen_remove_trailing_empty_inputs (fst r) in "
            "leq (fst g) (fst (snd r)) && Bool.eqb (snd g) (snd (snd r))) rows).\n")
    with _COQ_SLOTS:
        rc, out = coq_run(ck, text, "trim")
    if rc != 0:
        ck.broken("correspondence:trim", "case file did not compile:\n" + out[-1200:])
        return
    lists = re.findall(r"=\s*(\[[^\]]*\]|nil)", out)
    bad = [] if not lists or lists[0] == "nil" else [int(x) for x in re.findall(r"\d+", lists[0])]
    ck.hist("streams", "translated-trim")
    ck.coverage["trim_patterns"] = len(pats)
    for i in bad[:2]:
        pat, after, changed = results[i]
        path = ck.write_replay({"kind": "translation-mismatch", "function": "_remove_trailing_empty_inputs", "inputs": pat,
                                "implementation": [after, changed],
                                "explanation": "the per-run translation (Gen/C05GenTrim.v) and the implementation disagree on this input list"},
                               tag=f"trim-{common.digest(pat)}")
        ck.broken("correspondence:trim", f"translated function != implementation on {pat} (replay {path})")


def _corpus():
    d = os.path.join(common.CORPUS, "C05")
    out = []
    if os.path.isdir(d):
        for fn in sorted(os.listdir(d)):
            if fn.endswith(".json"):
                with open(os.path.join(d, fn)) as f:
                    c = json.load(f)
                c["_file"] = fn
                out.append(c)
    return out


def gen_cases(rng, n_specs: int, n_seq: int):
    """(spec, passes, seed) : every pass alone on every spec, plus random sequences of length 2..4."""
    cases = []
    for i in range(n_specs):
        seed = rng.randrange(1 << 30)
        spec = G.Gen(random.Random(seed)).gen_model()
        for name in PASS_NAMES:
            cases.append((spec, [name], seed))
        for _ in range(n_seq):
            cases.append((spec, [rng.choice(PASS_NAMES) for _ in range(rng.choice([2, 3, 4]))], seed))
    return cases


def multi_opset_cases(rng, n: int):
    """Models with DIFFERENT default-domain opsets through the same passes in one process (module-level state of a pass
    must not leak from one model to the next): operators whose schema defaults changed between opset versions.
    Opset < 13 models are judged by onnxruntime (the reference evaluator implements the opset-13 Softmax family only)."""
    cases = []
    for i in range(n):
        op = rng.choice(["Softmax", "LogSoftmax", "Hardmax"])
        order = rng.choice([[11, 13], [13, 11], [11, 13, 12, 18], [12, 13]])
        for ver in order:
            nodes = [{"op": op, "ins": ["x0"], "outs": ["y0"], "attrs": {}}]
            if rng.random() < 0.5:
                nodes.append({"op": rng.choice(["Softmax", "LogSoftmax"]), "ins": ["y0"], "outs": ["y1"], "attrs": {}})
            out = nodes[-1]["outs"][0]
            spec = {"opset": ver, "ir_version": 8, "inputs": [["x0", "F222"]], "inits": [], "functions": [], "nodes": nodes,
                    "outputs": [[out, "F222"]]}
            if ver < 13:
                spec["judge"] = "ort"
            passes = rng.choice([["defattr"], ["defattr"], ["defattr", "cse"], ["dce", "defattr"]])
            # a replay must re-create the process history: the models that went through the passes before this one
            spec["history"] = [[{k: v for k, v in c[0].items() if k != "history"}, c[1]] for c in cases[-6:]]
            cases.append((spec, passes, rng.randrange(1 << 30)))
    return cases


def targeted_cases(rng, n: int):
    """Small randomised templates for situations the general generator reaches too rarely."""
    N = lambda op, ins, outs, dom="", **attrs: {"op": op, "dom": dom, "ins": ins, "outs": outs, "attrs": attrs}  # noqa: E731
    cases = []
    for i in range(n):
        un = rng.choice(["Neg", "Abs", "Tanh", "Relu"])
        # (a) a function whose internal names collide with generated-looking names of the caller, inlined several times
        base = rng.choice(["t", "val", "u", "node_out"])
        fn = {"name": "Fa", "dom": "local", "ins": ["a"], "outs": ["r"], "attrs": [], "defaults": {},
              "nodes": [N(un, ["a"], [base]), N("Add", [base, "a"], [base + "_2"]), N("Mul", [base + "_2", base], ["r"])]}
        k = rng.choice([2, 3])
        names = [base + "_2", base + "_3", base, base + "_4"]
        rng.shuffle(names)
        nodes = [N("Abs", ["x0"], [names[0]]), N("Neg", ["x0"], [names[1]])]
        outs = []
        for j in range(k):
            nodes.append(N("Fa", [rng.choice([names[0], names[1], "x0"])], [f"c{j}"], dom="local"))
            outs.append([f"c{j}", "F2"])
        nodes.append(N("Add", [names[0], names[1]], ["z"]))
        outs.append(["z", "F2"])
        cases.append(({"opset": 18, "inputs": [["x0", "F2"]], "inits": [], "functions": [fn], "nodes": nodes, "outputs": outs},
                      rng.choice([["inline"], ["inline", "namefix"], ["inline", "cse"]]), rng.randrange(1 << 30)))
        # (b) an overridable initializer next to plain initializers with the same content (feeds override it: even seed)
        data = rng.choice([[1.0, 2.0], [3.0, -4.0]])
        order = rng.choice([["wi", "wa", "wb"], ["wa", "wi", "wb"], ["wa", "wb", "wi"]])
        inits = [[w, "F2", data, w == "wi"] for w in order]
        cases.append(({"opset": 18, "inputs": [["x0", "F2"], ["wi", "F2"]], "inits": inits, "functions": [],
                       "nodes": [N("Add", ["x0", "wa"], ["p"]), N("Mul", ["p", "wb"], ["q"]), N("Sub", ["q", "wi"], ["y"])],
                       "outputs": [["y", "F2"], ["p", "F2"]]},
                      rng.choice([["dedup"], ["deduph"], ["dedup", "dce"], ["liftsub", "dedup"]]), 2 * rng.randrange(1 << 29)))
        # (c) a function reachable only through a nested body (If/Loop) of another function
        inner = {"name": "Fin", "dom": "local", "ins": ["a"], "outs": ["r"], "attrs": [], "defaults": {}, "nodes": [N(un, ["a"], ["r"])]}
        branch = {"name": "th", "inputs": [], "inits": [], "nodes": [N("Fin", ["b"], ["bo"], dom="local")], "outputs": [["bo", "F2"]]}
        other = {"name": "el", "inputs": [], "inits": [], "nodes": [N("Identity", ["b"], ["eo"])], "outputs": [["eo", "F2"]]}
        if rng.random() < 0.5:
            other, branch = dict(branch, name="el"), dict(other, name="th")
            other["nodes"][0]["outs"], other["outputs"] = ["eo2"], [["eo2", "F2"]]
        outer = {"name": "Fout", "dom": "local", "ins": ["b", "c"], "outs": ["o"], "attrs": [], "defaults": {},
                 "nodes": [N("If", ["c"], ["o"], then_branch=["g", branch], else_branch=["g", other])]}
        unused = {"name": "Fun", "dom": "local", "ins": ["a"], "outs": ["r"], "attrs": [], "defaults": {}, "nodes": [N("Neg", ["a"], ["r"])]}
        fns = [inner, outer] + ([unused] if rng.random() < 0.5 else [])
        cases.append(({"opset": 18, "inputs": [["x0", "F2"], ["c0", "B"]], "inits": [], "functions": fns,
                       "nodes": [N("Fout", ["x0", "c0"], ["y"], dom="local")], "outputs": [["y", "F2"]]},
                      rng.choice([["rmfunc"], ["rmfunc", "inline"], ["dce", "rmfunc"], ["rmfunc", "rmfunc"]]), rng.randrange(1 << 30)))
        # (d) scalar Constants in the attribute forms (value_int / value_float: rank 0) next to the list forms (rank 1), with
        #     consumers that make the RANK observable (Gather with a scalar index, Shape of the result)
        ki, kf = rng.choice([0, 1, 2, 3]), rng.choice([0.5, 2.0, -1.0])
        dn = [N("Constant", [], ["ci"], value_int=["i", ki]), N("Constant", [], ["cf"], value_float=["f", kf]),
              N("Constant", [], ["cis"], value_ints=["is", [rng.choice([0, 1]), rng.choice([2, 3])]]),
              N("Gather", ["x0", "ci"], ["pk"], axis=["i", 0]), N("Mul", ["pk", "cf"], ["y0"]),
              N("Gather", ["x0", "cis"], ["y1"], axis=["i", 0]), N("Shape", ["y0"], ["y2"]), N("Shape", ["cf"], ["y3"])]
        if rng.random() < 0.5:
            dn.insert(2, N("Constant", [], ["cfs"], value_floats=["fs", [kf]]))
            dn.append(N("Shape", ["cfs"], ["y4"]))
        douts = [["y0", "F"], ["y1", "F2"], ["y2", "ID"], ["y3", "ID"]] + ([["y4", "ID"]] if len(dn) > 8 else [])
        cases.append(({"opset": 18, "inputs": [["x0", "F4"]], "inits": [], "functions": [], "nodes": dn, "outputs": douts},
                      rng.choice([["liftall"], ["liftall", "dedup"], ["cse", "liftall"], ["liftall", "rminit"], ["lift0", "liftall"]]),
                      rng.randrange(1 << 30)))
        # (e) subgraphs owning same-named initializers while the suffixed names the lifting would pick (w_1, w_2) are already
        #     taken in the main graph by a USER input / an initializer / a node output (all inputs fed with non-default values)
        wn = rng.choice(["w", "val", "t"])
        taken = rng.choice([[wn + "_1"], [wn + "_1", wn + "_2"], [wn + "_2"]])
        br = lambda nm, op, data: {"name": nm, "inputs": [], "inits": [[wn, "F2", data, False]],  # noqa: E731
                                   "nodes": [N(op, ["base", wn], [nm + "_o"])], "outputs": [[nm + "_o", "F2"]]}
        e_in, e_init, en = [["c0", "B"], ["x0", "F2"]], [], []
        for t in taken:
            how = rng.choice(["input", "input", "init", "node"])
            if how == "input":
                e_in.append([t, "F2"])
            elif how == "init":
                e_init.append([t, "F2", [7.0, -7.0], False])
            else:
                en.append(N("Neg", ["x0"], [t]))
        en.append(N("Add", ["x0", taken[0]], ["b0"]))
        en.append(N("Sub", ["b0", taken[-1]], ["base"]))
        en.append(N("If", ["c0"], ["y"], then_branch=["g", br("th", "Add", [1.0, 1.0])], else_branch=["g", br("el", "Mul", [5.0, 5.0])]))
        cases.append(({"opset": 18, "inputs": e_in, "inits": e_init, "functions": [], "nodes": en, "outputs": [["y", "F2"], ["base", "F2"]]},
                      rng.choice([["liftsub"], ["liftsub", "dedup"], ["liftsub", "rminit"], ["liftsub", "liftsub"], ["dce", "liftsub"]]),
                      rng.randrange(1 << 30)))
        # (f) a Loop body whose formal input carries the NAME of an initializer owned by a graph of a sibling scope (an If
        #     branch / another Loop body): legal, the names live in different scopes
        kn = rng.choice(["k", "w", "acc"])
        which = rng.choice([0, 1, 2])               # which of the body's formal inputs carries the coinciding name
        bi = ["it0", "cin0", "car0"]
        bi[which] = kn
        kind, data = [("I", [2]), ("B", [1]), ("F2", [10.0, 20.0])][which]
        body = {"name": "body0", "inputs": [[bi[0], "I"], [bi[1], "B"], [bi[2], "F2"]], "inits": [],
                "nodes": [N("Identity", [bi[1]], ["cout0"]), N("Add", [bi[2], "xw"], ["nx0"])], "outputs": [["cout0", "B"], ["nx0", "F2"]]}
        tn = {"I": [N("Constant", [], ["one0"], value=["t", ["I", [1]]]), N("Mul", [kn, "one0"], ["kk"]), N("Add", ["xw", "xw"], ["t_o"])],
              "B": [N("Where", [kn, "xw", "x0"], ["t_o"])],
              "F2": [N("Add", ["xw", kn], ["t_o"])]}[kind]
        th = {"name": "th0", "inputs": [], "inits": [[kn, kind, data, False]], "nodes": tn, "outputs": [["t_o", "F2"]]}
        el = {"name": "el0", "inputs": [], "inits": [], "nodes": [N("Neg", ["xw"], ["e_o"])], "outputs": [["e_o", "F2"]]}
        if rng.random() < 0.5:
            th, el = dict(el, name="th0"), dict(th, name="el0")
        ifn = N("If", ["c0"], ["y"], then_branch=["g", th], else_branch=["g", el])
        tripn = N("Constant", [], ["trip"], value=["t", ["I", [rng.choice([1, 2, 3])]]])
        cond = rng.choice(["", "c0"])
        if rng.random() < 0.5:
            fnodes = [N("Mul", ["x0", "wi"], ["xw"]), ifn, tripn, N("Loop", ["trip", cond, "y"], ["acc0"], body=["g", body])]
        else:
            fnodes = [N("Mul", ["x0", "wi"], ["xw"]), tripn, N("Loop", ["trip", cond, "xw"], ["acc0"], body=["g", body]), ifn]
        cases.append(({"opset": 18, "inputs": [["x0", "F2"], ["c0", "B"], ["wi", "F2"]], "inits": [["wi", "F2", [0.5, 0.25], True]],
                       "functions": [], "nodes": fnodes, "outputs": [["y", "F2"], ["acc0", "F2"]]},
                      rng.choice([["rminit"], ["rminit", "dce"], ["addinit", "rminit"], ["rminit", "rminit"], ["rminit", "dedup"]]),
                      rng.randrange(1 << 30)))
        # (g) a custom domain used ONLY inside a nested graph (main graph / function body), next to imports nothing uses
        fa = {"name": "Fa", "dom": "local", "ins": ["a"], "outs": ["r"], "attrs": [], "defaults": {}, "nodes": [N(un, ["a"], ["r"])],
              "opsets": [["", 18], ["local", 1]] + rng.choice([[], [["com.unused", 2]]])}
        gth = {"name": "gth", "inputs": [], "inits": [], "nodes": [N("Fa", ["x0"], ["go"], dom="local")], "outputs": [["go", "F2"]]}
        gel = {"name": "gel", "inputs": [], "inits": [], "nodes": [N("Identity", ["x0"], ["ge"])], "outputs": [["ge", "F2"]]}
        fw = {"name": "Fw", "dom": "local", "ins": ["b", "c"], "outs": ["o"], "attrs": [], "defaults": {},
              "nodes": [N("If", ["c"], ["o"], then_branch=["g", {"name": "wt", "inputs": [], "inits": [], "nodes": [N("Fa", ["b"], ["wo"], dom="local")],
                                                                  "outputs": [["wo", "F2"]]}],
                          else_branch=["g", {"name": "we", "inputs": [], "inits": [], "nodes": [N("Neg", ["b"], ["wn"])], "outputs": [["wn", "F2"]]}])]}
        if rng.random() < 0.5:
            gnodes, gfns = [N("If", ["c0"], ["y"], then_branch=["g", gth], else_branch=["g", gel])], [fa]
        else:
            gnodes, gfns = [N("Fw", ["x0", "c0"], ["y"], dom="local")], [fa, fw]
        cases.append(({"opset": 18, "inputs": [["x0", "F2"], ["c0", "B"]], "inits": [], "functions": gfns, "nodes": gnodes,
                       "outputs": [["y", "F2"]], "extra_opsets": rng.choice([[], [["com.unused", 2]], [["ai.onnx.ml", 3], ["com.unused", 2]]])},
                      rng.choice([["rmopset"], ["rmopset", "inline"], ["inline", "rmopset"], ["rmfunc", "rmopset"], ["rmopset", "rmopset"]]),
                      rng.randrange(1 << 30)))
        # (h) attribute parameters whose declared default is "falsy" (0.0, -0.0, 0) and which the call site does not pass
        dflt = rng.choice([["f", 0.0], ["f", -0.0], ["f", 0.0], ["f", 2.0]])
        fh = {"name": "Fh", "dom": "local", "ins": ["a"], "outs": ["r"], "attrs": [], "defaults": {"alpha": dflt, "beta": ["f", rng.choice([0.0, 1.0])]},
              "nodes": [N("Constant", [], ["ca"], value_float=["ref", [1, "alpha"]]), N("Constant", [], ["cb"], value_float=["ref", [1, "beta"]]),
                        N("Add", ["a", "ca"], ["s0"]), N("Mul", ["s0", "cb"], ["s1"]), N("Sub", ["s1", "ca"], ["r"])]}
        # (every call passes some attribute: the reference evaluator rejects linked attributes when the call has none at all)
        hn = [N("Fh", ["x0"], ["h0"], dom="local", beta=["f", rng.choice([1.0, 2.0])]),
              N("Fh", ["h0"], ["h1"], dom="local", beta=["f", rng.choice([0.0, 3.0])])]
        if rng.random() < 0.5:
            hn.append(N("Fh", ["h1"], ["h2"], dom="local", alpha=["f", rng.choice([0.0, 5.0])]))
        # (judge = onnxruntime: the reference evaluator does not apply declared defaults of attribute parameters)
        cases.append(({"opset": 18, "inputs": [["x0", "F2"]], "inits": [], "functions": [fh], "nodes": hn, "judge": "ort",
                       "outputs": [[hn[-1]["outs"][0], "F2"], ["h0", "F2"]]},
                      rng.choice([["inline"], ["inline", "cse"], ["inline", "liftall"], ["rmfunc", "inline"]]), rng.randrange(1 << 30)))
        # (i) IR 10 function overloads: a call of one overload from INSIDE a function body that gets inlined; with and without
        #     a second overload (other body) of the same (domain, name)
        ov = rng.choice(["by3", "v2"])
        k3, k2 = rng.choice([3.0, 5.0]), rng.choice([2.0, -1.0])
        sc = lambda o, k: {"name": "Scale", "dom": "local", "overload": o, "ins": ["a"], "outs": ["r"], "attrs": [], "defaults": {},  # noqa: E731
                           "opsets": [["", 18]],
                           "nodes": [N("Constant", [], ["kc"], value=["t", ["F", [k]]]), N("Mul", ["a", "kc"], ["r"])]}
        call = dict(N("Scale", ["a"], ["t0"], dom="local"), overload=ov)
        fo = {"name": "Fo", "dom": "local", "ins": ["a"], "outs": ["r"], "attrs": [], "defaults": {}, "nodes": [call, N("Add", ["t0", "a"], ["r"])]}
        ofns = [sc(ov, k3), fo]
        if rng.random() < 0.6:
            ofns.insert(rng.choice([0, 1]), sc("", k2))
        onodes = [N("Fo", ["x0"], ["y"], dom="local")]
        oouts = [["y", "F2"]]
        if rng.random() < 0.4:
            onodes.append(dict(N("Scale", ["y"], ["y2"], dom="local"), overload=ov))      # an overloaded call in the main graph too
            oouts.append(["y2", "F2"])
        cases.append(({"opset": 18, "ir_version": 10, "inputs": [["x0", "F2"]], "inits": [], "functions": ofns, "nodes": onodes, "outputs": oouts},
                      rng.choice([["inline"], ["inline", "rmfunc"], ["rmfunc"], ["rmfunc", "inline"], ["inline", "dce", "rmfunc"]]),
                      rng.randrange(1 << 30)))
        # (j) a function that uses an operator domain (ai.onnx.ml) which only the function imports, not the model
        gate = {"name": "Gate", "dom": "local", "ins": ["a"], "outs": ["r"], "attrs": [], "defaults": {},
                "opsets": [["", 18], ["ai.onnx.ml", 3]],
                "nodes": [N("Binarizer", ["a"], ["b"], dom="ai.onnx.ml", threshold=["f", rng.choice([0.5, 0.0, 1.5])]), N("Mul", ["b", "a"], ["r"])]}
        jn = [N(un, ["x0"], ["h"]), N("Gate", ["h"], ["y"], dom="local")]
        if rng.random() < 0.4:
            jn.append(N("Gate", ["y"], ["y2"], dom="local"))
        cases.append(({"opset": 18, "inputs": [["x0", "F2"]], "inits": [], "functions": [gate], "nodes": jn,
                       "outputs": [[jn[-1]["outs"][0], "F2"]], "function_domains_not_imported": True, "domain_versions": {"ai.onnx.ml": 3}},
                      rng.choice([["inline"], ["inline", "rmopset"], ["inline", "rmfunc", "dce", "rmopset"], ["rmopset", "inline"], ["inline", "cse"]]),
                      rng.randrange(1 << 30)))
        # (k) a subgraph that returns one of its OWN initializers directly (no node consumes it) / an initializer of a Loop body
        kdat = [rng.choice([1.0, 3.0]), rng.choice([2.0, -2.0])]
        kth = {"name": "kth", "inputs": [], "inits": [["kw", "F2", kdat, False]], "nodes": [], "outputs": [["kw", "F2"]]}
        kel = {"name": "kel", "inputs": [], "inits": [["ku", "F2", [9.0, 9.0], False]], "nodes": [N("Neg", ["x0"], ["ke"])], "outputs": [["ke", "F2"]]}
        if rng.random() < 0.5:
            kth, kel = dict(kel, name="kth"), dict(kth, name="kel")
        kbody = {"name": "kbody", "inputs": [["kit", "I"], ["kcin", "B"], ["kcar", "F2"]], "inits": [["kb", "F2", [0.5, 0.5], False]],
                 "nodes": [N("Identity", ["kcin"], ["kcout"])], "outputs": [["kcout", "B"], ["kb", "F2"]]}
        kn = [N("If", ["c0"], ["y"], then_branch=["g", kth], else_branch=["g", kel])]
        kouts = [["y", "F2"]]
        if rng.random() < 0.5:
            kn += [N("Constant", [], ["ktrip"], value=["t", ["I", [2]]]), N("Loop", ["ktrip", "", "y"], ["yl"], body=["g", kbody])]
            kouts.append(["yl", "F2"])
        cases.append(({"opset": 18, "inputs": [["x0", "F2"], ["c0", "B"]], "inits": [], "functions": [], "nodes": kn, "outputs": kouts},
                      rng.choice([["dce"], ["dce", "dce"], ["dce", "liftsub"], ["ident", "dce"], ["dce", "dedup"]]), rng.randrange(1 << 30)))
        # (l) Constants whose tensors have the SAME bytes and shape but different element types (float32 0.5 = int32 1056964608)
        lpair = rng.choice([([0.5, 0.0], [1056964608, 0]), ([0.0, 0.0], [0, 0]), ([1.0, 2.0], [1065353216, 1073741824])])
        ln = [N("Constant", [], ["lc1"], value=["t", ["F2", lpair[0]]]), N("Constant", [], ["lc2"], value=["t", ["J2", lpair[1]]]),
              N("Cast", ["lc2"], ["lc2f"], to=["i", 1]), N("Add", ["x0", "lc1"], ["l0"]), N("Add", ["l0", "lc2f"], ["ly"])]
        if rng.random() < 0.5:
            ln[0], ln[1] = ln[1], ln[0]
        cases.append(({"opset": 18, "inputs": [["x0", "F2"]], "inits": [], "functions": [], "nodes": ln, "outputs": [["ly", "F2"], ["lc2", "J2"]][:rng.choice([1, 2])]},
                      rng.choice([["cse"], ["cse100"], ["cse", "dce"], ["cse", "liftall"]]), rng.randrange(1 << 30)))
        # (m) sibling If branches that reuse a value NAME for intermediates of different element types; shape inference variants
        mth = {"name": "mth", "inputs": [], "inits": [], "nodes": [N("Neg", ["x0"], ["mt"]), N("Abs", ["mt"], ["mo1"])], "outputs": [["mo1", "F2"]]}
        mel = {"name": "mel", "inputs": [], "inits": [], "nodes": [N("Cast", ["x0"], ["mt"], to=["i", rng.choice([7, 6])]), N("Cast", ["mt"], ["mo2"], to=["i", 1])],
               "outputs": [["mo2", "F2"]]}
        if rng.random() < 0.5:
            mth, mel = dict(mel, name="mth"), dict(mth, name="mel")
        cases.append(({"opset": 18, "inputs": [["x0", "F2"], ["c0", "B"]], "inits": [], "functions": [],
                       "nodes": [N("If", ["c0"], ["y"], then_branch=["g", mth], else_branch=["g", mel])], "outputs": [["y", "F2"]]},
                      rng.choice([["shape"], ["shape2"], ["shape2", "dce"], ["shape", "cse"], ["shape2", "shape"]]), rng.randrange(1 << 30)))
        # (n) a node with an OMITTED optional output next to the same node with that output used (fixed 87b8ce6:
        #     cse-merges-node-with-omitted-output when the full node comes second)
        pools = [N("MaxPool", ["x3"], ["p1", ""], kernel_shape=["is", [1]]), N("MaxPool", ["x3"], ["p2", "pidx"], kernel_shape=["is", [1]])]
        if rng.random() < 0.5:
            pools.reverse()
        cases.append(({"opset": 18, "inputs": [["x3", "F112"]], "inits": [], "functions": [],
                       "nodes": pools + [N("Add", ["p1", "p2"], ["py"]), N("Neg", ["pidx"], ["pni"])], "outputs": [["py", "F112"], ["pni", "I112"]]},
                      rng.choice([["cse"], ["cse", "dce"], ["cse100"]]), rng.randrange(1 << 30)))
        # (o) the same operator on the same values with an OMITTED input at different positions (Clip: min vs max), results used
        cb = rng.choice([0.5, -0.25, 1.0])
        v1 = rng.choice([["x0", "", "cb"], ["x0", "cb", ""]])
        v2 = rng.choice([["x0", "cb"], ["x0", "cb", ""]]) if v1[1] == "" else ["x0", "", "cb"]
        on = [N("Constant", [], ["cb"], value=["t", ["F", [cb]]]), N("Clip", v1, ["o1"]), N("Clip", v2, ["o2"])]
        if rng.random() < 0.5:
            on[1], on[2] = on[2], on[1]
        on.append(N("Sub", ["o1", "o2"], ["od"]))
        cases.append(({"opset": 18, "inputs": [["x0", "F2"]], "inits": [], "functions": [], "nodes": on,
                       "outputs": [["od", "F2"], ["o1", "F2"], ["o2", "F2"]][:rng.choice([1, 3])]},
                      rng.choice([["cse"], ["cse100"], ["cse", "dce"], ["dce", "cse"], ["cse", "ident"]]), rng.randrange(1 << 30)))
    return cases


def reuse_cases(rng, n: int):
    """ONE pass object per pass name applied to several models in turn (spec['reuse_history'], see run_case): whatever a run
    leaves behind in the object must not influence the next model."""
    N = lambda op, ins, outs, dom="", **attrs: {"op": op, "dom": dom, "ins": ins, "outs": outs, "attrs": attrs}  # noqa: E731
    F = lambda name, ins, outs, nodes: {"name": name, "dom": "local", "ins": ins, "outs": outs, "attrs": [], "defaults": {}, "nodes": nodes}  # noqa: E731
    cases = []
    for i in range(n):
        # (a) generated models: the general generator names its functions Fn0, Fn1, ... in every model, so identifiers,
        #     value names and operator sets recur from one model to the next
        specs = []
        for _ in range(rng.choice([2, 2, 3])):
            specs.append(G.Gen(random.Random(rng.randrange(1 << 30))).gen_model())
        k = rng.choice([1, 2, 3])
        passes = [rng.choice(PASS_NAMES) for _ in range(k)]
        if rng.random() < 0.5:
            passes[rng.randrange(k)] = rng.choice(["rmfunc", "inline", "defattr", "cse", "dedup", "liftsub"])
        cases.append((dict(specs[-1], reuse_history=[[s, passes] for s in specs[:-1]]), passes, rng.randrange(1 << 30)))
        # (b) first a model in which the pass finds nothing to do (every function used / nothing to lift / ...), then a
        #     model that reuses the identifiers with different content
        un, un2 = rng.choice(["Relu", "Abs", "Tanh"]), rng.choice(["Neg", "Floor", "Sigmoid"])
        a_fns = [F("Fa", ["a"], ["r"], [N(un, ["a"], ["r"])])]
        a_nodes = [N("Fa", ["x0"], ["y"], dom="local")]
        if rng.random() < 0.5:
            a_fns.append(F("Fb", ["a"], ["r"], [N(un2, ["a"], ["r"])]))
            a_nodes = [N("Fa", ["x0"], ["t0"], dom="local"), N("Fb", ["t0"], ["y"], dom="local")]
        spec_a = {"opset": 18, "inputs": [["x0", "F2"]], "inits": [], "functions": a_fns, "nodes": a_nodes, "outputs": [["y", "F2"]]}
        b_fns = [F("Fg", ["a"], ["r"], [N(un2, ["a"], ["r"])]),
                 F("Fa", ["a"], ["r"], [N("Fg", ["a"], ["m"], dom="local"), N(un, ["m"], ["r"])]),
                 F("Fnever", ["a"], ["r"], [N("Abs", ["a"], ["r"])])]
        # (the reference evaluator wants a callee defined before its caller)
        never = b_fns.pop()
        if rng.random() < 0.7:
            b_fns.insert(rng.choice([0, 1, 2]), never)
        spec_b = {"opset": 18, "inputs": [["x0", "F2"]], "inits": [], "functions": b_fns,
                  "nodes": [N("Fa", ["x0"], ["t0"], dom="local"), N("Neg", ["t0"], ["y"])], "outputs": [["y", "F2"]]}
        passes = rng.choice([["rmfunc"], ["dce", "rmfunc", "rmopset"], ["rmfunc", "inline"], ["rmfunc", "rmfunc"]])
        hist = [[spec_a, passes]] * rng.choice([1, 2])
        cases.append((dict(spec_b, reuse_history=hist), passes, rng.randrange(1 << 30)))
    return cases


_BG = None


def _phase(ck, name, t0):
    import time
    ck.coverage.setdefault("phase_s", {})[name] = round(ck.coverage.get("phase_s", {}).get(name, 0) + time.time() - t0, 1)


def check_cases(ck, cases, tag: str, structural: bool = True, defer: bool = False):
    """Run implementation + oracle on the cases; structural correspondence in Coq. Returns oracle failures."""
    import time
    _t0 = time.time()
    steps_all, owners = [], []
    failures = []
    for ci, (spec, passes, seed) in enumerate(cases):
        try:
            protos, steps, raised = run_case(spec, passes, conv_steps=structural)
        except Exception as e:  # noqa: BLE001
            ck.hist("outcomes", "build-error:" + type(e).__name__)
            continue
        bad, info = oracle(spec, passes, seed, protos, raised, use_ort=(ci % 3 == 0))
        ck.count()
        if not info["valid"]:
            # not executable / not checker-valid: no oracle verdict, but the structural correspondence still applies
            ck.hist("outcomes", "outside-quantifier:" + info.get("invalid", "")[:28])
            for st in steps:
                st.case = ci
                steps_all.append(st)
            continue
        ck.hist("ort", info["ort"])
        for p in passes:
            ck.hist("passes", p)
        ck.hist("sequence_length", str(len(passes)))
        changed = any(st.before != st.after for st in steps) if steps else None
        if changed:
            ck.nontriv((spec, passes))
        if bad:
            failures.append((spec, passes, seed, bad))
            ck.hist("outcomes", "oracle-failure")
        else:
            ck.hist("outcomes", "preserved" + ("-rewritten" if changed else ""))
        if raised is None or steps:
            for st in steps:
                st.case = ci
                steps_all.append(st)
        if len(ck.coverage["samples"]) < 4 and changed and len(passes) == 1 and len(json.dumps(spec)) < 1500:
            ck.sample({"spec": spec, "passes": passes, "oracle": "outputs equal before/after", "rewritten": True})
    _phase(ck, "python:" + tag.rstrip("012"), _t0)
    fut = None
    if defer and structural and steps_all:
        # the case files are evaluated by coqc in the background while the next stream's Python side runs
        global _BG
        if _BG is None:
            import concurrent.futures as cf
            _BG = cf.ThreadPoolExecutor(max_workers=4)
        fut = _BG.submit(coq_steps_raw, ck, steps_all, tag)

    def finish():
      mism = []
      if structural and steps_all:
          dis, inv = coq_steps(ck, steps_all, tag, raw=fut.result() if fut is not None else None)
          inv_set = set(inv)
          ck.coverage["traces_validated_against_impl"] = ck.coverage.get("traces_validated_against_impl", 0) + len(steps_all) - len(inv_set)
          for i in inv_set:
              ck.hist("structural", "input-outside-model-precondition")
          for i, st in enumerate(steps_all):
              if i not in inv_set:
                  ck.hist("structural", st.kind + ":" + st.pass_name)
          for i in dis:
              if i in inv_set:
                  continue
              st = steps_all[i]
              mism.append((st, cases[st.case]))
      return mism
    if defer:
        return failures, finish
    return failures, finish()


def report_failures(ck, failures, reported: set):
    for spec, passes, seed, bad in failures:
        key = classify(spec, passes, bad[0])
        if key and ck.known(key):
            ck.known_finding(key, ck.known(key)["what"])
            continue
        sig = (tuple(passes[-1:]), bad[0].split(":")[0])
        if sig in reported:
            continue
        reported.add(sig)
        k0 = bad[0].split(":")[0]
        small, ps = shrink(spec, passes, seed, lambda s, p, f: f.split(":")[0] == k0 and not (classify(s, p, f) and ck.known(classify(s, p, f))))
        b2, _ = oracle(small, ps, seed)
        ck.violation({"kind": "oracle", "spec": small, "passes": ps, "input_seed": seed, "failures": b2 or bad,
                      "required": "checker accepts after, same number/order/type of outputs and non-initializer inputs, "
                                  "bitwise equal outputs (NaN-aware) before/after"})


def replay_known(ck):
    for k in ck._known:
        if k.get("status") != "known":
            continue
        w = k["witness"]
        bad, info = oracle(w["spec"], w["passes"], w.get("input_seed", 0))
        if info["valid"] and bad and classify(w["spec"], w["passes"], bad[0]) == k["key"]:
            ck.known_finding(k["key"], k["what"])
        else:
            ck.broken(f"known-finding-stale:{k['key']}",
                      f"the recorded witness no longer fails on the implementation (valid={info.get('valid')}, failures={bad})")


def search(ck, reported: set):
    """A proof obligation or the correspondence is broken and no failing input is known yet: fresh seeded cases."""
    budget = 25 if not ck.thorough else 250
    cases = gen_cases(ck.rng, budget, 8)
    failures, _ = check_cases(ck, cases, "search", structural=False)
    fresh = [f for f in failures if not (classify(f[0], f[1], f[3][0]) and ck.known(classify(f[0], f[1], f[3][0])))]
    if fresh:
        report_failures(ck, fresh[:1], reported)


def run(ck) -> None:
    import logging
    logging.disable(logging.WARNING)
    ck.trust("Coq 8.16.1 kernel (coqc; vm_compute in case files; no native_compute)",
             "tools/translate.py helpers (fail-closed reading of the non-deterministic operator set)",
             "harness/props/c05.py + _c05_gen.py (generator, IR->term converter incl. attribute sorting and identity maps, "
             "schema table from onnx.defs, traversal orders read from the public API, oracle)",
             "onnx.checker / onnx.reference.ReferenceEvaluator / onnxruntime as judges of 'accepted' and 'computes'",
             "modelled not verified: real operator semantics (uninterpreted `interp` with the listed hypotheses), the tensor "
             "denoted by value_int(s)/float(s)/string(s) Constants (dtype, shape, bytes computed by the harness per the operator "
             "spec — const_attr_payload — and handed to the model as a table), exact sort order (C12), "
             "names/metadata/shapes (outside the term language: frame-checked)")
    ck.assumptions += ["operator semantics are functions of (op id, attributes with type, body denotations, inputs, #outputs), monotone in body denotations",
                       "Identity is the identity; trailing omitted optional inputs are ignored",
                       "ONNX attributes form a named set (converter sorts by name)",
                       "InlinePass only: operators see the bodies of their graph attributes through the denotations, not "
                       "through the identities of the graphs (interp_graph_ids)"]
    ck.coverage["rule"] = "a pass actually rewrote the model (term before != term after) and the oracle executed both"
    # the principal theorem (C05_sequence over all thirteen modelled passes, InlinePass and RemoveUnusedFunctionsPass
    # included, + C05_frame_passes_preserve for the four annotation-only passes) is proved
    ck.level = "proof"
    ck.notes.append("level_note: Coq theorems (31, all closed) for IdentityElimination, CSE (whole pass), DeduplicateInitializers (both), "
                    "RemoveUnusedNodes (incl. schema-driven output trimming; BatchNormalization training_mode excluded = known finding, "
                    "refuted in Coq), LiftConstantsToInitializers, OutputFix, LiftSubgraphInitializers, Add/RemoveInitializersFromInputs, "
                    "AddDefaultAttributes, TopologicalSort-as-reordering, RemoveUnusedFunctions, InlinePass, and any sequence of them "
                    "(C05_sequence); NameFix/ClearMetadata/ShapeInference/RemoveUnusedOpsets leave the term unchanged (checked per run) "
                    "and C05_frame_passes_preserve says the semantics does not read the annotation. RemoveUnusedFunctions and InlinePass "
                    "are proved for CHECKED models (the implementation's rewrite guarded by an executable certificate proved sound: "
                    "drop_closedb / inline_certb / live_agreeb); a rejected certificate leaves the model unchanged in the Coq model and "
                    "would show up as a structural-correspondence mismatch with the implementation (none on the corpus and the generated "
                    "streams). Side conditions of the passes (fresh counters, locality of outputs, schema table) are hypotheses of "
                    "C05_sequence; C05_sequence_checked states them as executable tests (invb, extra_okb) which the check evaluates in Coq on "
                    "every step (coverage.side_conditions; outside only for dce on BatchNormalization training_mode). RemoveUnusedOpsets "
                    "is modelled with the opset tables in the term (Opsets.v): C05_remove_unused_opsets_keeps_versions + table "
                    "correspondence in Coq on every run; its body _process_graph_like and DCE's _remove_trailing_empty_inputs are translated from "
                    "the source on every run (Gen/C05GenOpsets.v, Gen/C05GenTrim.v) and proved equal to the hand models "
                    "(C05_remove_unused_opsets_translation_equiv, C05_trim_translation_equiv); InlinePass's merge of opset imports: "
                    "C05_inline_merges_opset_imports + inline_opsets_okb on every inline step.")
    import time
    _tp = time.time()
    generate(ck)
    ck.prove()
    _phase(ck, "prove", _tp)
    # the case files also use the executable inliner model (C05/Inline.v, InlinePass.v): make sure the .vo are current
    rc, out = common.make(["theories/C05/InlinePass.vo"], timeout=600)
    if rc != 0:
        ck.broken("build:C05/InlinePass.v", out[-2000:])
    reported: set = set()
    # corpus first
    corpus = _corpus()
    ccases = [(c["spec"], c["passes"], c.get("input_seed", 0)) for c in corpus]
    pending = []
    failures, t1 = check_cases(ck, ccases, "corpus", defer=True)
    pending.append(t1)
    # generated cases (in three parts: coqc works on a part while the Python side runs the next one)
    n_specs, n_seq = (28, 5) if not ck.thorough else (300, 8)
    cases = gen_cases(ck.rng, n_specs, n_seq)
    third = (len(cases) + 2) // 3
    for gi in range(3):
        f2, t2 = check_cases(ck, cases[gi * third:(gi + 1) * third], f"gen{gi}", defer=True)
        failures += f2
        pending.append(t2)
    # models of different opsets through the same passes, in this one process
    f3, m3 = check_cases(ck, multi_opset_cases(ck.rng, 12 if not ck.thorough else 80), "multiopset", structural=False)
    failures += f3
    ck.hist("streams", "multi-opset-models")
    f4, t4 = check_cases(ck, targeted_cases(ck.rng, 6 if not ck.thorough else 40), "targeted", defer=True)
    failures += f4
    pending.append(t4)
    ck.hist("streams", "targeted-templates")
    f5, t5 = check_cases(ck, reuse_cases(ck.rng, 6 if not ck.thorough else 40), "reuse", defer=True)
    failures += f5
    pending.append(t5)
    ck.hist("streams", "reused-pass-objects")
    trim_stream(ck, 40 if not ck.thorough else 400)
    mism = []
    import time
    _tw = time.time()
    for t in pending:
        mism += t()
    _phase(ck, "waiting-for-coqc", _tw)
    for st, (spec, passes, seed) in mism[:5]:
        path = ck.write_replay({"kind": "correspondence-mismatch", "pass": st.pass_name, "step_kind": st.kind, "spec": spec,
                                "passes": passes, "input_seed": seed, "model_expr": st.expr,
                                "explanation": "the Gallina model of this pass and the implementation disagree on this input"},
                               tag=f"mismatch-{st.pass_name}-{common.digest([spec, passes])}")
        ck.broken(f"correspondence:{st.pass_name}", f"model pass output != implementation on case {path} (passes {passes})")
    replay_known(ck)
    report_failures(ck, failures, reported)
    # self-check of the generator: every pass ran, rewriting passes rewrote something
    h = ck.coverage.get("passes", {})
    missing = [p for p in PASS_NAMES if not h.get(p)]
    if missing:
        ck.broken("generator-selfcheck", f"passes never exercised: {missing}")
    if ck.broken_items and not ck.violations:
        # a mismatch: try its own case with the oracle first, then fresh cases
        for st, (spec, passes, seed) in mism[:3]:
            bad, info = oracle(spec, passes, seed)
            if info["valid"] and bad and not (classify(spec, passes, bad[0]) and ck.known(classify(spec, passes, bad[0]))):
                report_failures(ck, [(spec, passes, seed, bad)], reported)
                break
        if not ck.violations:
            search(ck, reported)
    if any(o["name"].endswith("_partial") for o in ck.obligations):
        ck.notes.append("some per-pass theorems are partial (see Property.v); remaining passes are covered by correspondence + oracle only")


def replay(rp: dict) -> int:
    import logging
    logging.disable(logging.WARNING)
    if rp.get("kind") == "translation-mismatch":
        import onnx_ir as ir
        from onnx_ir.passes.common import unused_removal as U
        pat = rp["inputs"]
        vals = {i: ir.Value(name=f"v{i}") for i in set(x for x in pat if x is not None)}
        node = ir.Node("", "Op", [None if x is None else vals[x] for x in pat], num_outputs=1)
        changed = U._remove_trailing_empty_inputs(node)
        after = [None if v is None else int(v.name[1:]) for v in node.inputs]
        want = list(pat)
        while want and want[-1] is None:
            want.pop()
        print(json.dumps({"inputs": pat, "implementation": [after, bool(changed)], "trailing-omitted-inputs-dropped": [want, want != pat]}))
        return 0 if (after, bool(changed)) == (want, want != pat) else 1
    spec = rp.get("spec") or (rp.get("witness") or {}).get("spec")
    if spec is None:
        print("replay names a broken obligation/correspondence, no concrete input:",
              json.dumps(rp.get("broken"), indent=1)[:3000])
        return 1
    passes = rp.get("passes") or rp["witness"]["passes"]
    for hspec, hpasses in spec.get("history", []):
        try:
            run_case(hspec, hpasses, conv_steps=False)       # earlier models of the same process (module-level pass state)
        except Exception:  # noqa: BLE001
            pass
    bad, info = oracle(spec, passes, rp.get("input_seed", 0))
    print(json.dumps({"passes": passes, "valid_before": info.get("valid"), "failures": bad,
                      "known_as": classify(spec, passes, bad[0]) if bad else None}, indent=1))
    return 1 if (bad or not info.get("valid")) else 0

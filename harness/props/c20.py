"""C20 — journaling observes without interfering and always restores the classes.

Decided by
  * Coq theorems (coq/theories/C20/Property.v) over the hand model C20/Model.v and the tables
    Gen/C20Gen.v that `generate` re-extracts from /repo/src/onnx_ir/journaling/_wrappers.py and
    _journaling.py on EVERY run with a fail-closed `ast` extractor (this module, `extract`):
      saved    = the dict literal of get_original_methods        [(key, slot read)]
      patched  = the assignments of wrap_ir_classes               [patch: slot written, key wrapped,
                                                                   factory, wrapper steps, op, target]
      restored = the assignments of restore_ir_classes            [(slot written, key read)]
    plus, per wrapper factory, the statement list of its inner `wrapper` (WRead/WRecord/WCall/
    WCallRet — i.e. "record then call" vs "call then record" and whether the result is returned).
    Journal.__enter__/__exit__/record/__init__ are translated statement by statement and proved equal to the
    hand model (C20/Journal.v); the JournalEntry field list is pinned.
  * a correspondence check: every generated scenario is run three times on the real implementation
    (plain / journaled / journaled over a harness tracer installed beneath the journals); the
    observations are compared (a) directly, journaled vs plain, and (b) inside Coq against `run` of
    the model (entries per journal with object handles, classes restored, current journal restored,
    escaping exception, number of executed operations, no `wrong` flag).
  * the property oracle (`oracle`): the statement itself against public API only.

DECISION LOG
Model (C20/Model.v).  Class table slot -> impl, impl := Orig s | Wrapped j patch impl.  `enter` =
  Journal.__enter__ (snapshot the saved list, install one wrapper per generated patch around
  snapshot[key], remember snapshot and previous journal in the journal), `exit_` = Journal.__exit__
  (assign every generated restore pair from the journal's snapshot, current := previous).  The slot a
  wrapper is installed in and the dict key it wraps are extracted independently (assignment target vs
  string literal), so "restored from the wrong key"/"wrapped around another method's original" are
  visible to the proofs.  Library code is a `body` (free monad with heap effects and *dispatched*
  calls that go through the table; continuations receive the callee's outcome, so callers may
  catch/branch), user code a `prog` (operations, `with` blocks nested arbitrarily, raise, try/except).
  Journal records form one chronological log of (journal, (operation, object)); `proj j` is
  Journal.entries.
Theorems (all proved, closed under the global context, no bounds):
  C20_lists_ok            the generated lists are coherent (patched ⊆ restored ⊆ saved with matching
                          keys; every wrapper calls the original exactly once and returns its result
                          wherever a caller can see it) — vm_compute on the lists of the source NOW.
  C20_records_once        every wrapper records exactly once on the path of a call that returns.
  C20_restore             for every prog (any nesting depth, exceptions anywhere, try/except anywhere)
                          from ANY table: table and current journal after = before.  Hypothesis wf: a
                          Journal object is not re-entered while it is active.
  C20_reentrant_use_not_restored   wf is necessary: `with j: with j: pass` leaves the classes wrapped
                          (model; the implementation agrees — probe `reentry`; recorded as an
                          observation, not a violation: "properly nested journals" is read as nesting of
                          DISTINCT journal objects, the weaker reading).
  C20_wrapped_call        one wrapper around an original = the original (heap, observable result or
                          exception) + exactly one entry of that journal when the call returns.
  C20_transparent         run (journaled) = run_plain on heap, list of operation results, exception;
                          `wrong` never set; every journal contains exactly prog_entries (entries of the
                          operations executed while it was active, in program order).
  C20_entries_count       #entries of a body = #completed instrumented calls + #failed instrumented
                          calls whose wrapper records first.
Reading adopted for "one entry per completed instrumented operation" when the original raises:
  _setter_wrapper/_method_wrapper/_container_method_wrapper record BEFORE calling the original, so a
  call that raises still leaves an entry; _init_wrapper records after, so a failed __init__ leaves
  none.  The property is read as "every completed call has exactly one entry, entries are in program
  order; failed calls may also have one" (weaker reading; exact count in C20_entries_count; the oracle
  only requires exactly one matching entry for each COMPLETED top-level instrumented operation).
  Program order for nested calls: record-first wrappers give call order, __init__ gives return order
  (a Node's set_attribute entries precede its init entry) — that is what body_entries defines.
Tie (measured on the unchanged tree, quick tier, seed 0: 301 scenarios x 3 runs, ~7800 operations,
  ~35 s; all 43 patched slots exercised with returning calls, 25 of them also with raising calls (the
  others — plain setters, TensorBase/Value/Attr/Model/Function __init__, clear — have no failing path in
  the alphabet); nesting depth 0..4; ~60% of the scenarios end with an exception escaping at least one
  journal.  Thorough: 9001 scenarios, ~10 min; measured with 4501: 285 s, 110k operations, 163k entries):
  (i)   plain vs journaled: per-operation result/exception type, digest of a canonical IR snapshot
        (public accessors) after every operation, final snapshot, escaping exception;
        LazyTensor evaluation counters are part of the snapshot (repr in details must not load).
  (ii)  at every `with` exit: identity of EVERY attribute of EVERY class of _core and
        _graph_containers (properties as fget/fset/fdel/doc) vs before the enter; current journal.
  (iii) after the journaled run: drop all IR objects, gc.collect(), every entry.ref() is None.
  (iv)  traced run -> Coq case files: the scenario as a `prog` whose operation bodies are the call
        forests the tracer saw; `agree` = model's restoration verdict equals the observed one, same
        escaping exception, same number of executed operations, and for every journal
        proj j (log) = observed [(operation, object handle)].
  Nondeterministic IR operations (iteration over a frozenset of nodes in Graph.remove when it fails
  half way: C01/C06's business) are recognised by re-running: a plain/journaled difference counts as
  interference only if 6 plain and 6 journaled runs have disjoint behaviours.
Round 2 (seeded changes): the weak-reference clause now LOOKS at the entries while the objects are alive
  (scenario item {"look": true}: a hook registered with add_hook reading entry.obj/ref/details, iteration and
  filtering over journal.entries reading .obj, Journal.display, JournalEntry.display), then drops everything,
  gc.collect(), and requires entry.ref() is None AND entry.obj is None (catches a cached entry.obj: C20-r2m3).
  The alphabet has setter calls whose new value EQUALS the current one: the same object, an equal-but-distinct
  Shape (kept in a pool and later edited in place by `shape_edit`), a TensorType differing only in denotation
  (denotation and identity of the held Shape are in the snapshot), a list equal to the shape (must raise
  TypeError), same name/op_type/domain/version/overload; setters are in the oracle's one-entry-per-completed-
  operation table (catches a setter wrapper that skips "no-op" assignments with a concrete replay: C20-r2m1).
Round 3: the interpreter no longer re-raises an exception on behalf of the `with` statement: if
  Journal.__exit__ swallows (or changes) the exception thrown inside the block, the journaled run carries on
  with the statements after the block exactly as Python would, so "which exception reaches the outside" and
  "which operations ran afterwards" differ from the plain run and are reported with a replay (C20-r3m3:
  truthy return from __exit__).  The surrogate raised for a propagating library exception has its real type.
Round 4: the generator emits the SAME operation on the same object 3-4 times in a row (version/op_type/
  name/type/const setters, resize_inputs/outputs, sort, merge_shapes, append to outputs, attribute set) and
  loops of short-lived temporaries (`temps`); every repetition has its own window in the oracle's "exactly
  one entry per completed instrumented operation" check (for `temps`: exactly k init/Value entries), so a
  record() that de-duplicates consecutive identical entries is reported with a replay (C20-r4m3), also on the
  search-after-break path, which uses the same generator.
Deepening round (hooks): coq/theories/C20/Hooks.v models Journal.record with hooks (entry appended first,
  hooks called in registration order, a hook's exception is not caught) as `runH`; hooks are functions
  entry -> option exn, fixed per journal.  Theorems: C20_hooks_transparent (no hook raises => runH = plain run
  on heap/results/exception, journals contain prog_entries, every hook is called exactly once per entry of its
  journal, in order), C20_restore_hooks (classes/current journal restored for EVERY hook behaviour),
  C20_raising_hook_aborts_operation (OBSERVATION, outside the property's quantifier — a raising user hook is
  user code injected into record(), and propagating its exception is a documented debugging facility: under a
  record-first wrapper a raising hook prevents the original from running).  Not a finding: the implementation is
  only checked to behave as the model says (probe `raising-hook`, raising-hook stream), the result is reported
  in the evidence notes like the re-entry observation; proposed_fixes/not_applied/ keeps the declined diff.
  Tie: every case file now evaluates runH; about a third of
  the journals of the main stream carry 1-2 quiet hooks (logged calls compared with calls_of j k inside Coq and,
  in the oracle, with the journal's entries); a separate stream (quick 40 / thorough 900 scenarios, traced run
  only) gives one journal a hook that raises whenever an operation it really records is recorded: the model
  predicts the last entry, which hooks were still called, that the original is not reached (the tracer
  synthesises the aborted dispatched call from the entry: Tracer.abort_node), the exception seen by the
  caller, and restoration (a mismatch there is a broken correspondence).
  Nesting (suggestion 2) was already a theorem over the stack of patch tables: C20_restore for any table and
  C20_transparent over tbl_of stack, unbounded depth, exception at any exit (seeded r4m1 breaks the tie).
  Completeness of instrumentation (suggestion 3) NOT done: C20 speaks about *instrumented* operations; a
  syntactic "mutator" table of the class bodies marks 24 unwrapped members (replace_input_with, inputs/outputs/
  dtype/doc_string setters, Function.append/extend/remove/sort, __delitem__ of the IO lists, ...) and misses 6
  wrapped ones (insert_after/before, sort, replace_all_uses_with, Node.prepend/append), so the theorem would
  be an allow-list tripwire rather than content of the property.
Round 5: `local_objs` creates a small graph that is owned ONLY by a local variable of the frame executing the
  enclosing `with` block (the frame in which the exception leaving the block is raised); ~15% of the blocks own
  such objects and are left by an exception that the caller handles (try) while the Journal object is kept.  The
  weak-reference clause then requires these objects to be dead too: a journal that keeps the exception (hence
  its traceback, hence the block's frame) alive is reported with a replay (C20-r5m3).
Second deepening round (the model IS the translated source): Journal.__init__/__enter__/__exit__/record are no
  longer pinned by digest but translated statement by statement (`_jstmt`: one `jstmt` of C20/Types.v per Python
  statement, `JOther "<text>"` for anything without a meaning in the model) into Gen/C20Gen.v (j_init, j_enter,
  j_exit, j_record); C20/Journal.v interprets the lists over the model state and proves
  C20_enter_translated (jrun j j_enter st = Some (enter j st, Some VSelf)), C20_exit_translated (... = Some
  (exit_ j st, None): in particular __exit__ returns None, it never suppresses the block's exception),
  C20_record_translated (jrec hooks j e j_record None = Some (record hooks j e): entry built, appended, hooks
  called; no filter, no de-duplication) and C20_journal_weak_only (JournalEntry keeps only weakref.ref(obj) of
  the object — every keyword argument is classified scalar/weak/strong by `_ekind`; no method stores a parameter
  (object, exception, traceback) in a field; every field written is declared in __init__; `_get_stack_trace`
  is exactly traceback.extract_stack()[:-3]).  Edits such as r5m3 (self._exception = exc_value), r4m3/r5m1
  (guards in record) now leave Gen current, break the named equality (e.g. Journal.v:exit_translated) AND the
  full case stream still runs.  Argument forwarding of the wrappers is part of the extracted data
  (Gen `forwarding`: passes self / positional + *args / **kwargs per call of the original) and decided by
  C20_forwarding_complete instead of a translator rejection (r5m2).
Modelled, not verified: purity of details_func/repr/getattr inside wrappers (exercised by (i) — and
  this is exactly where the finding below was), weakref/traceback/time, determinism of the originals,
  hooks (user callbacks), threads.
Findings
  node-init-graph-kwarg-repr-in-journal (FIXED by /repo 3fc58a7, proposed_fixes/C20-node-init-graph-repr.diff):
    ir.Node(..., graph=g) inside a journal raised AttributeError because the Graph.append wrapper took
    repr(node) before Node.__init__ had set doc_string.  Found by (i); witness kept in corpus/C20.
Mutants of /repo tried (scratch worktree, VERIF_REPO) — see the table at the end of this docstring.

MUTANTS (each applied to a scratch worktree of /repo, `VERIF_REPO=... harness.main C20 quick`, seed 0; all
10 reported VIOLATION, 9 with a concrete shrunk replay):
  M1  restore_ir_classes forgets Graph.sort            -> proof C20_lists_ok breaks; oracle: `with j: pass`
                                                           leaves _core.Graph.sort wrapped (identity check)
  M2  restore Node.append from original_methods["Node.prepend"]
                                                        -> C20_lists_ok breaks; oracle: Node.append not restored
                                                           AND later n.append(...) inserts at the wrong side
  M3  _container_method_wrapper drops `return`         -> C20_lists_ok (wrapper_ok) breaks; oracle: g.inputs.pop()
                                                           returns None under a journal
  M4  __exit__ restores only when exc_type is None     -> extractor rejects (pinned Journal.__exit__); oracle:
                                                           `with j: raise` leaves every class wrapped
  M5  record() also appends obj to a list on the journal -> extractor rejects (pinned record); oracle: entries
                                                           reach their objects after gc (strong reference)
  M6  Graph.extend details_func = repr(list(nodes))    -> nothing static (lambdas are modelled-not-verified);
                                                           tie (i): a generator argument is consumed, IR differs
  M7  _init_wrapper records before calling __init__    -> proofs still hold (order is regenerated, property does
                                                           not depend on it); tie (i): repr of an uninitialised
                                                           object raises AttributeError only under a journal
  M8  __exit__ sets _current_journal = None            -> extractor rejects; oracle: after an inner journal the
                                                           current journal is not the outer one
  M9  new wrapper for Node.replace_input_with, saved, never restored
                                                        -> C20_lists_ok breaks; oracle: attribute left wrapped
  M10 _setter_wrapper swallows ValueError of the setter -> extractor rejects (unsupported wrapper statement);
                                                           no failing input exists in the alphabet (no IR setter
                                                           raises ValueError): VIOLATION no-failing-input-found
Harness bugs found on the way (kept here because they shaped the checks): public IR classes have
  __module__ == "onnx_ir" (class enumeration must go by package, or identity checks are vacuous); the
  observation of an operation must be keyed by its syntactic position (operations skipped by an exception
  have none); bare `discriminate` in a section with `lists_ok = true` in context "proves" anything once the
  generated lists are incoherent — proofs use `discriminate C` so that the break is located at C20_lists_ok.
"""

from __future__ import annotations

import ast
import gc
import json
import os
import sys

import translate as T
from harness import common
from harness.common import REPO, cZ, clist

WRAPPERS = os.path.join(REPO, "src", "onnx_ir", "journaling", "_wrappers.py")
JOURNALING = os.path.join(REPO, "src", "onnx_ir", "journaling", "_journaling.py")


# =========================================================================== extractor (fail closed)

class Reject(T.Unsupported):
    pass


def _need(cond, msg, node=None):
    if not cond:
        where = f" (line {getattr(node, 'lineno', '?')})" if node is not None else ""
        raise Reject(msg + where)


def _strip_doc(body):
    if body and isinstance(body[0], ast.Expr) and isinstance(body[0].value, ast.Constant) \
            and isinstance(body[0].value.value, str):
        return body[1:]
    return body


def _chain(e) -> list[str]:
    """a.b.c -> ['a','b','c'] (Names/Attributes only)."""
    out = []
    while isinstance(e, ast.Attribute):
        out.append(e.attr)
        e = e.value
    _need(isinstance(e, ast.Name), "expected a dotted name", e)
    out.append(e.id)
    return out[::-1]


_MODULES = ("_core", "_graph_containers")


def _slot_of_chain(ch: list[str], node) -> str:
    """['_core','Node','append'] -> '_core.Node.append' ; [..., 'name', 'fset'] -> '_core.Node.name.fset'."""
    _need(ch[0] in _MODULES, f"class attribute outside {_MODULES}: {'.'.join(ch)}", node)
    _need(len(ch) == 3 or (len(ch) == 4 and ch[3] == "fset"), f"unexpected attribute path {'.'.join(ch)}", node)
    return ".".join(ch)


def _const_str(e, what):
    _need(isinstance(e, ast.Constant) and isinstance(e.value, str), f"{what}: expected a string literal", e)
    return e.value


def _orig_key(e) -> str:
    """original_methods["K"] -> K"""
    _need(isinstance(e, ast.Subscript) and isinstance(e.value, ast.Name) and e.value.id == "original_methods",
          "expected original_methods[<literal>]", e)
    return _const_str(e.slice, "original_methods key")


def _factory_shape(fn: ast.FunctionDef) -> dict:
    """Shape of a wrapper factory: parameter names and the statement list of its inner wrapper."""
    body = _strip_doc(fn.body)
    _need(len(body) == 2 and isinstance(body[0], ast.FunctionDef) and isinstance(body[1], ast.Return)
          and isinstance(body[1].value, ast.Name) and body[1].value.id == body[0].name,
          f"factory {fn.name}: body is not `def wrapper ...; return wrapper`", fn)
    pos = [a.arg for a in fn.args.args]
    kwonly = [a.arg for a in fn.args.kwonlyargs]
    _need(len(pos) >= 2 and pos[0] == "journal" and not fn.args.vararg and not fn.args.kwarg
          and not fn.args.posonlyargs, f"factory {fn.name}: unexpected parameters", fn)
    orig = pos[1]
    w = body[0]
    # decorator: functools.wraps(<orig>)
    _need(len(w.decorator_list) == 1 and isinstance(w.decorator_list[0], ast.Call)
          and _chain(w.decorator_list[0].func) == ["functools", "wraps"]
          and len(w.decorator_list[0].args) == 1 and isinstance(w.decorator_list[0].args[0], ast.Name)
          and w.decorator_list[0].args[0].id == orig and not w.decorator_list[0].keywords,
          f"factory {fn.name}: wrapper is not decorated with functools.wraps({orig})", w)
    wa = w.args
    _need(not wa.posonlyargs and not wa.kwonlyargs and not wa.defaults and wa.args and wa.args[0].arg == "self",
          f"factory {fn.name}: wrapper parameters", w)
    wpos = [a.arg for a in wa.args]
    star = wa.vararg.arg if wa.vararg else None
    dstar = wa.kwarg.arg if wa.kwarg else None
    _need((star is None) == (dstar is None), f"factory {fn.name}: wrapper must take both *args and **kwargs or none", w)

    fwd = []          # one (passes self, passes the positional arguments, passes the keyword arguments) per call

    def is_forward(call: ast.Call) -> bool:
        """a call of the original; HOW it forwards the wrapper's own arguments is recorded in `fwd` and decided
        by the theorem C20_forwarding_complete (a wrapper that drops **kwargs is not rejected here)"""
        if not (isinstance(call.func, ast.Name) and call.func.id == orig):
            return False
        got = []
        for a in call.args:
            if isinstance(a, ast.Name):
                got.append(("n", a.id))
            elif isinstance(a, ast.Starred) and isinstance(a.value, ast.Name):
                got.append(("s", a.value.id))
            else:
                got.append(("?", ast.unparse(a)))
        kws = [(k.arg, k.value.id if isinstance(k.value, ast.Name) else "?") for k in call.keywords]
        want_pos = [("n", p) for p in wpos[1:]] + ([("s", star)] if star else [])
        fwd.append((bool(got) and got[0] == ("n", "self"), got[1:] == want_pos,
                    kws == ([(None, dstar)] if dstar else [])))
        return True

    steps = []
    detail_locals = set()
    locals_from_getattr = {}
    op_src = None
    for st in w.body:
        # x = getattr(self, <factory parameter>)
        if isinstance(st, ast.Assign) and len(st.targets) == 1 and isinstance(st.targets[0], ast.Name) \
                and isinstance(st.value, ast.Call) and isinstance(st.value.func, ast.Name) \
                and st.value.func.id == "getattr" and len(st.value.args) == 2 and not st.value.keywords \
                and isinstance(st.value.args[0], ast.Name) and st.value.args[0].id == "self" \
                and isinstance(st.value.args[1], ast.Name) and st.value.args[1].id in pos + kwonly:
            locals_from_getattr[st.targets[0].id] = st.value.args[1].id
            steps.append(("WRead",))
            continue
        # x = <factory parameter>(self, *args, **kwargs)      (details computed beforehand; pure, modelled-not-verified)
        if isinstance(st, ast.Assign) and len(st.targets) == 1 and isinstance(st.targets[0], ast.Name) \
                and isinstance(st.value, ast.Call) and isinstance(st.value.func, ast.Name) \
                and st.value.func.id in pos + kwonly and st.value.func.id != orig:
            detail_locals.add(st.targets[0].id)
            steps.append(("WRead",))
            continue
        # journal.record(<self|x>, <operation>, details=<expr>)
        if isinstance(st, ast.Expr) and isinstance(st.value, ast.Call) and isinstance(st.value.func, ast.Attribute) \
                and _chain(st.value.func) == ["journal", "record"]:
            c = st.value
            _need(len(c.args) == 2 and [k.arg for k in c.keywords] == ["details"],
                  f"factory {fn.name}: unexpected journal.record arguments", st)
            tgt = c.args[0]
            _need(isinstance(tgt, ast.Name), f"factory {fn.name}: record target", st)
            if tgt.id == "self":
                t = ("TSelf", None)
            else:
                _need(tgt.id in locals_from_getattr, f"factory {fn.name}: record target {tgt.id} unknown", st)
                t = ("TOwner", locals_from_getattr[tgt.id])
            o = c.args[1]
            if isinstance(o, ast.Constant) and isinstance(o.value, str):
                this_op = ("const", o.value)
            else:
                _need(isinstance(o, ast.Name) and o.id in pos + kwonly, f"factory {fn.name}: operation", st)
                this_op = ("param", o.id)
            _need(op_src in (None, this_op), f"factory {fn.name}: two different operations recorded", st)
            op_src = this_op
            # details: details_func(self[, *args, **kwargs]) or an f-string over plain names.  Its purity
            # (repr of IR objects) is modelled-not-verified; the journaled-vs-plain comparison covers it.
            d = c.keywords[0].value
            if isinstance(d, ast.Name) and d.id in detail_locals:
                pass
            elif isinstance(d, ast.Call):
                _need(isinstance(d.func, ast.Name) and d.func.id in pos + kwonly, f"factory {fn.name}: details call", st)
                for a in d.args:
                    _need(isinstance(a, ast.Name) or (isinstance(a, ast.Starred) and isinstance(a.value, ast.Name)),
                          f"factory {fn.name}: details arguments", st)
                for k in d.keywords:
                    _need(k.arg is None and isinstance(k.value, ast.Name), f"factory {fn.name}: details keywords", st)
            else:
                _need(isinstance(d, ast.JoinedStr), f"factory {fn.name}: details expression", st)
                for v in d.values:
                    _need(isinstance(v, ast.Constant) or (isinstance(v, ast.FormattedValue)
                                                           and isinstance(v.value, ast.Name)
                                                           and v.format_spec is None),
                          f"factory {fn.name}: details f-string", st)
            steps.append(("WRecord", t))
            continue
        if isinstance(st, ast.Expr) and isinstance(st.value, ast.Call) and is_forward(st.value):
            steps.append(("WCall",))
            continue
        if isinstance(st, ast.Return) and isinstance(st.value, ast.Call) and is_forward(st.value):
            steps.append(("WCallRet",))
            continue
        raise Reject(f"factory {fn.name}: unsupported wrapper statement at line {st.lineno}: "
                     f"{ast.unparse(st)[:80]}")
    _need(op_src is not None, f"factory {fn.name}: wrapper never records", fn)
    return {"name": fn.name, "pos": pos, "kwonly": kwonly, "steps": steps, "op": op_src, "fwd": fwd,
            "kw_defaults": {a.arg: d for a, d in zip(fn.args.kwonlyargs, fn.args.kw_defaults)}}


def _bind_factory_call(call: ast.Call, facs: dict) -> dict:
    """<factory>(journal, original_methods["K"], ...) -> {fac, key, op, tattr}"""
    _need(isinstance(call, ast.Call) and isinstance(call.func, ast.Name) and call.func.id in facs,
          "expected a call of a wrapper factory", call)
    f = facs[call.func.id]
    _need(len(call.args) <= len(f["pos"]), "too many positional arguments", call)
    bound = dict(zip(f["pos"], call.args))
    for k in call.keywords:
        _need(k.arg is not None and k.arg in f["pos"] + f["kwonly"] and k.arg not in bound,
              f"bad keyword {k.arg}", call)
        bound[k.arg] = k.value
    _need(isinstance(bound.get("journal"), ast.Name) and bound["journal"].id == "journal", "first argument is not journal", call)
    key = _orig_key(bound[f["pos"][1]])
    for p in f["pos"] + f["kwonly"]:
        if p not in bound:
            _need(p in f["kwonly"] and f["kw_defaults"].get(p) is not None, f"missing argument {p}", call)
    kind, v = f["op"]
    op = v if kind == "const" else _const_str(bound[v], "operation")
    tattr = None
    for st in f["steps"]:
        if st[0] == "WRecord" and st[1][0] == "TOwner":
            tattr = _const_str(bound[st[1][1]], "target attribute")
    return {"fac": f["name"], "key": key, "op": op, "tattr": tattr, "steps": f["steps"]}


def _assign_target(st, fname):
    _need(isinstance(st, ast.Assign) and len(st.targets) == 1 and isinstance(st.targets[0], ast.Attribute),
          f"{fname}: expected `<module>.<Class>.<attr> = ...`", st)
    ch = _chain(st.targets[0])
    _need(len(ch) == 3, f"{fname}: assignment target {'.'.join(ch)}", st)
    return ch


def _property_parts(value, ch, fname):
    """property(<same class attr>.fget, X) -> X, else None"""
    if isinstance(value, ast.Call) and isinstance(value.func, ast.Name) and value.func.id == "property":
        _need(len(value.args) == 2 and not value.keywords, f"{fname}: property(...) must have exactly fget, fset", value)
        _need(_chain(value.args[0]) == ch + ["fget"], f"{fname}: property getter is not {'.'.join(ch)}.fget", value)
        return value.args[1]
    return None


def _jval(e, params):
    """expression -> jval term, or None"""
    if isinstance(e, ast.Name):
        if e.id == "_current_journal":
            return "VCur"
        if e.id == "self":
            return "VSelf"
        if e.id in params:
            return f"(VParam {_cs(e.id)})"
        return f"(VLocal {_cs(e.id)})"
    if isinstance(e, ast.Attribute) and isinstance(e.value, ast.Name) and e.value.id == "self":
        return f"(VSelfField {_cs(e.attr)})"
    if isinstance(e, ast.Call) and ast.unparse(e) == "_wrappers.wrap_ir_classes(self)":
        return "VWrapClasses"
    return None


def _ekind(v: ast.expr) -> str:
    """what a JournalEntry keyword argument keeps of `obj`"""
    src = ast.unparse(v)
    if src == "weakref.ref(obj) if obj is not None else None":
        return "KWeakObj"
    names = [n for n in ast.walk(v) if isinstance(n, ast.Name) and n.id == "obj"]
    if not names:
        # no mention of obj: parameters (operation, details) and the two helper calls
        _need(isinstance(v, ast.Name) or src in ("time.time()", "_get_stack_trace()"),
              f"JournalEntry argument {src!r} is not understood", v)
        return "KScalar"
    if src in ("obj.__class__", "obj.__class__.__name__", "id(obj)"):
        return "KScalar"
    return "KStrongObj"


def _jstmt(st, params, where) -> str:
    """one statement of a Journal method -> jstmt term (JOther for anything without a meaning in the model:
    the equivalence theorems of C20/Journal.v then fail and name the statement)"""
    src = " ".join(ast.unparse(st).split())
    other = f"(JOther {_cs(src.replace(chr(34), chr(39))[:120])})"
    if isinstance(st, ast.Global):
        return "JGlobal" if st.names == ["_current_journal"] else other
    if isinstance(st, (ast.Assign, ast.AnnAssign)):
        tgt = st.targets[0] if isinstance(st, ast.Assign) and len(st.targets) == 1 else getattr(st, "target", None)
        val = st.value
        if tgt is None or val is None:
            return other
        if where == "__init__" and isinstance(tgt, ast.Attribute) and isinstance(tgt.value, ast.Name) \
                and tgt.value.id == "self":
            k = {"[]": "IEmptyList", "{}": "IEmptyDict", "None": "INone"}.get(ast.unparse(val))
            return f"(JInitField {_cs(tgt.attr)} {k})" if k else other
        if isinstance(tgt, ast.Name) and tgt.id == "_current_journal":
            v = _jval(val, params)
            return f"(JSetCur {v})" if v else other
        if isinstance(tgt, ast.Attribute) and isinstance(tgt.value, ast.Name) and tgt.value.id == "self":
            v = _jval(val, params)
            return f"(JSetField {_cs(tgt.attr)} {v})" if v else other
        if isinstance(tgt, ast.Name) and isinstance(val, ast.Call) and isinstance(val.func, ast.Name) \
                and val.func.id == "JournalEntry" and not val.args and all(k.arg for k in val.keywords):
            fields = clist(f"({_cs(k.arg)}, {_ekind(k.value)})" for k in val.keywords)
            return f"(JNewEntry {_cs(tgt.id)} {fields})"
        return other
    if isinstance(st, ast.Expr) and isinstance(st.value, ast.Call):
        c = st.value
        if ast.unparse(c.func) == "_wrappers.restore_ir_classes" and len(c.args) == 1 and not c.keywords:
            v = _jval(c.args[0], params)
            return f"(JRestore {v})" if v else other
        if isinstance(c.func, ast.Attribute) and c.func.attr == "append" and len(c.args) == 1 and not c.keywords \
                and isinstance(c.func.value, ast.Attribute) and isinstance(c.func.value.value, ast.Name) \
                and c.func.value.value.id == "self":
            v = _jval(c.args[0], params)
            return f"(JAppendField {_cs(c.func.value.attr)} {v})" if v else other
        return other
    if isinstance(st, ast.Return):
        if st.value is None:
            return other
        v = _jval(st.value, params)
        return f"(JReturn {v})" if v else other
    if isinstance(st, ast.For) and not st.orelse and isinstance(st.target, ast.Name) and len(st.body) == 1 \
            and isinstance(st.iter, ast.Attribute) and isinstance(st.iter.value, ast.Name) and st.iter.value.id == "self" \
            and isinstance(st.body[0], ast.Expr) and isinstance(st.body[0].value, ast.Call):
        c = st.body[0].value
        if isinstance(c.func, ast.Name) and c.func.id == st.target.id and len(c.args) == 1 and not c.keywords:
            v = _jval(c.args[0], params)
            if v:
                return f"(JForCall {_cs(st.iter.attr)} {v})"
    return other


def extract() -> dict:
    """Read the three key lists, the wrapper shapes and the pinned Journal methods from the source."""
    mod = T._src(WRAPPERS)
    facs = {}
    for n in mod.body:
        if isinstance(n, ast.FunctionDef) and n.name.endswith("_wrapper"):
            facs[n.name] = _factory_shape(n)
    _need(facs, "no wrapper factories found")
    # any other top-level function besides the three below would be unmodelled machinery
    known = set(facs) | {"get_original_methods", "wrap_ir_classes", "restore_ir_classes"}
    for n in mod.body:
        if isinstance(n, (ast.FunctionDef, ast.ClassDef, ast.AsyncFunctionDef)):
            _need(n.name in known, f"unmodelled top-level definition {n.name}", n)

    # ---- get_original_methods
    g = _strip_doc(T.find_function(mod, "get_original_methods").body)
    _need(len(g) == 2 and isinstance(g[0], ast.Assign) and isinstance(g[0].value, ast.Dict)
          and isinstance(g[1], ast.Return) and isinstance(g[1].value, ast.Name)
          and isinstance(g[0].targets[0], ast.Name) and g[1].value.id == g[0].targets[0].id,
          "get_original_methods: body is not `d = {...}; return d`")
    saved = []
    for k, v in zip(g[0].value.keys, g[0].value.values):
        _need(k is not None, "get_original_methods: ** in dict literal")
        key = _const_str(k, "get_original_methods key")
        _need(key not in [x[0] for x in saved], f"get_original_methods: duplicate key {key}", k)
        saved.append((key, _slot_of_chain(_chain(v), v)))

    # ---- wrap_ir_classes
    wfn = T.find_function(mod, "wrap_ir_classes")
    _need([a.arg for a in wfn.args.args] == ["journal"], "wrap_ir_classes: parameters")
    w = _strip_doc(wfn.body)
    _need(len(w) >= 2 and isinstance(w[0], ast.Assign) and isinstance(w[0].targets[0], ast.Name)
          and w[0].targets[0].id == "original_methods" and isinstance(w[0].value, ast.Call)
          and isinstance(w[0].value.func, ast.Name) and w[0].value.func.id == "get_original_methods"
          and not w[0].value.args and not w[0].value.keywords,
          "wrap_ir_classes: does not start with original_methods = get_original_methods()")
    _need(isinstance(w[-1], ast.Return) and isinstance(w[-1].value, ast.Name) and w[-1].value.id == "original_methods",
          "wrap_ir_classes: does not end with return original_methods")
    patched = []
    for st in w[1:-1]:
        ch = _assign_target(st, "wrap_ir_classes")
        inner = _property_parts(st.value, ch, "wrap_ir_classes")
        if inner is not None:
            slot = _slot_of_chain(ch + ["fset"], st)
            b = _bind_factory_call(inner, facs)
        else:
            slot = _slot_of_chain(ch, st)
            b = _bind_factory_call(st.value, facs)
        b["slot"] = slot
        patched.append(b)

    # ---- restore_ir_classes
    rfn = T.find_function(mod, "restore_ir_classes")
    _need([a.arg for a in rfn.args.args] == ["original_methods"], "restore_ir_classes: parameters")
    restored = []
    for st in _strip_doc(rfn.body):
        ch = _assign_target(st, "restore_ir_classes")
        inner = _property_parts(st.value, ch, "restore_ir_classes")
        if inner is not None:
            restored.append((_slot_of_chain(ch + ["fset"], st), _orig_key(inner)))
        else:
            restored.append((_slot_of_chain(ch, st), _orig_key(st.value)))

    # ---- Journal.__enter__/__exit__/record/__init__ translated statement by statement (C20/Journal.v proves the
    #      hand model's enter / exit_ / record equal to the interpretation of these lists)
    jm = T._src(JOURNALING)
    jmethods = {}
    for name, params in (("__enter__", ["self"]), ("__exit__", ["self", "exc_type", "exc_value", "exc_tb"]),
                         ("record", ["self", "obj", "operation", "details"]), ("__init__", ["self"])):
        fn = T.find_function(jm, f"Journal.{name}")
        a = fn.args
        _need([x.arg for x in a.args] == params and not a.vararg and not a.kwarg and not a.kwonlyargs
              and not a.posonlyargs and not fn.decorator_list, f"Journal.{name}: parameters/decorators changed", fn)
        jmethods[name] = [_jstmt(st, params, name) for st in _strip_doc(fn.body)]
    # the stack trace helper must produce FrameSummary objects only (they hold no frame)
    gst = _strip_doc(T.find_function(jm, "_get_stack_trace").body)
    _need(len(gst) == 1 and ast.unparse(gst[0]) == "return traceback.extract_stack()[:-3]",
          "_get_stack_trace is not `return traceback.extract_stack()[:-3]`")
    # JournalEntry.ref must be declared as a weak reference field and be the only object-valued field
    je = None
    for n in jm.body:
        if isinstance(n, ast.ClassDef) and n.name == "JournalEntry":
            je = n
    _need(je is not None, "JournalEntry not found")
    fields = {n.target.id: ast.unparse(n.annotation) for n in je.body if isinstance(n, ast.AnnAssign)}
    _need(fields == {"timestamp": "float", "operation": "str", "class_": "builtins.type", "class_name": "str",
                     "ref": "weakref.ref | None", "object_id": "int",
                     "stack_trace": "list[traceback.FrameSummary]", "details": "str | None"},
          f"JournalEntry fields changed: {fields}")
    digest = T.ast_digest(mod)
    return {"saved": saved, "patched": patched, "restored": restored,
            "factories": {k: v["steps"] for k, v in facs.items()}, "digest": digest, "journal": jmethods,
            "forwarding": [(k, f) for k, v in sorted(facs.items()) for f in v["fwd"]]}


def _cs(s: str) -> str:
    _need(all(32 <= ord(c) < 127 and c != '"' for c in s), f"unprintable string {s!r}")
    return '"' + s + '"'


def _cstep(st) -> str:
    return f"WRecord {st[1][0]}" if st[0] == "WRecord" else st[0]


def render_gen(x: dict) -> str:
    out = ["(* GENERATED by /verif/harness/props/c20.py (extract) from",
           "   /repo/src/onnx_ir/journaling/_wrappers.py on every run — do not edit.",
           f"   normalised-AST digest of _wrappers.py: {x['digest']} *)",
           "From Coq Require Import String List.",
           "From IRV Require Import C20.Types.",
           "Import ListNotations.",
           "Open Scope string_scope.",
           "",
           "(* get_original_methods: (dict key, class attribute read) *)",
           "Definition saved : list (string * string) :=",
           "  [ " + ";\n    ".join(f"({_cs(k)}, {_cs(s)})" for k, s in x["saved"]) + " ].",
           "",
           "(* wrapper factories: statements of the inner wrapper, in source order *)"]
    for name, steps in sorted(x["factories"].items()):
        out.append(f"Definition steps{name} : list wstep := {clist(_cstep(s) for s in steps)}.")
    out += ["", "(* how each call of the original inside a wrapper forwards the wrapper's own arguments:",
            "   (factory, (passes self first, passes the positional arguments / *args, passes **kwargs)) *)",
            "Definition forwarding : list (string * (bool * bool * bool)) :=",
            "  " + clist(f"({_cs(k)}, ({str(a).lower()}, {str(b).lower()}, {str(c).lower()}))" for k, (a, b, c) in x["forwarding"]) + "."]
    out += ["", "(* wrap_ir_classes: one patch per assignment, in source order *)",
            "Definition patched : list patch :=",
            "  [ " + ";\n    ".join(
                f"mkPatch {_cs(p['slot'])} {_cs(p['key'])} {_cs(p['fac'])} steps{p['fac']} {_cs(p['op'])} "
                + ("None" if p["tattr"] is None else f"(Some {_cs(p['tattr'])})") for p in x["patched"]) + " ].",
            "",
            "(* Journal.__enter__ / __exit__ / record / __init__ of _journaling.py, statement by statement *)",
            "Definition j_enter : list jstmt :=\n  " + clist(x["journal"]["__enter__"]).replace("; ", ";\n    ") + ".",
            "Definition j_exit : list jstmt :=\n  " + clist(x["journal"]["__exit__"]).replace("; ", ";\n    ") + ".",
            "Definition j_record : list jstmt :=\n  " + clist(x["journal"]["record"]).replace("; (\"", "; (\"").replace("; (J", ";\n    (J") + ".",
            "Definition j_init : list jstmt :=\n  " + clist(x["journal"]["__init__"]).replace("; ", ";\n    ") + ".",
            "",
            "(* restore_ir_classes: (class attribute written, dict key read), in source order *)",
            "Definition restored : list (string * string) :=",
            "  [ " + ";\n    ".join(f"({_cs(s)}, {_cs(k)})" for s, k in x["restored"]) + " ].", ""]
    return "\n".join(out)


def generate(ck) -> dict | None:
    try:
        x = extract()
        text = render_gen(x)
    except (T.Unsupported, SyntaxError, OSError) as e:
        ck.gen_failed("C20Gen", e)
        return None
    ck.gen("C20Gen", text)
    return x


# =========================================================================== implementation side
#
# A scenario is a JSON tree:  item := {"op": <name>, ...args, "prop": bool}      an IR operation
#                                    | {"with": jid, "body": [item...]}           with <journal jid>:
#                                    | {"try": [item...]}                          try: ... except BaseException: pass
#                                    | {"throw": "ValueError"}                     raise from user code
# Objects are referred to by (pool, selector): selector modulo the current pool size (None if the pool is
# empty -> the op is skipped deterministically).  The exception of an op is caught and recorded as its
# result unless "prop" is set, in which case it propagates out of the enclosing blocks.

POOLS = ("value", "node", "graph", "tensor", "attr", "func", "model", "shape")
_THROWABLE = {"ValueError": ValueError, "RuntimeError": RuntimeError, "KeyError": KeyError, "TypeError": TypeError}


class C20HookError(RuntimeError):
    """raised by a scenario hook whose spec says so"""


class _Escape(Exception):
    """carries a propagating exception through the interpreter without holding the traceback"""


def _mods():
    import onnx_ir
    from onnx_ir import _core, _graph_containers
    from onnx_ir.journaling import _journaling, _wrappers
    return onnx_ir, _core, _graph_containers, _journaling, _wrappers


def _classes():
    """every class defined in the two patched modules"""
    _, core, gcont, _, _ = _mods()
    out, seen = [], set()
    for m in (core, gcont):
        for name, c in sorted(vars(m).items()):
            # public classes are re-homed (__module__ == "onnx_ir"), so select by package, not by module
            if isinstance(c, type) and str(getattr(c, "__module__", "")).split(".")[0] == "onnx_ir" \
                    and id(c) not in seen:
                seen.add(id(c))
                out.append((f"{m.__name__.split('.')[-1]}.{name}", c))
    assert any(n == "_core.Node" for n, _ in out) and any(n == "_graph_containers._GraphIO" for n, _ in out)
    return out


def class_state() -> dict:
    """identity of every class attribute (properties expanded into fget/fset/fdel/doc)"""
    st = {}
    for cname, c in _classes():
        for attr, raw in list(vars(c).items()):
            if isinstance(raw, property):
                st[f"{cname}.{attr}.fget"] = raw.fget
                st[f"{cname}.{attr}.fset"] = raw.fset
                st[f"{cname}.{attr}.fdel"] = raw.fdel
                st[f"{cname}.{attr}.doc"] = raw.__doc__
            else:
                st[f"{cname}.{attr}"] = raw
    return st


def state_diff(a: dict, b: dict) -> list[str]:
    bad = []
    for k in sorted(set(a) | set(b)):
        if k not in a or k not in b:
            bad.append(k + (" (added)" if k not in a else " (removed)"))
        elif k.endswith(".doc"):
            if a[k] != b[k]:
                bad.append(k)
        elif a[k] is not b[k]:
            bad.append(k)
    return bad


_RAW0 = None      # raw class dictionaries before any journaling in this process
_STATE0 = None


def pristine_init():
    global _RAW0, _STATE0
    if _RAW0 is None:
        _RAW0 = {cname: dict(vars(c)) for cname, c in _classes()}
        _STATE0 = class_state()


def force_restore():
    """put every class attribute back to what it was at process start (harness hygiene only)"""
    _, _, _, jn, _ = _mods()
    for cname, c in _classes():
        for attr, raw in _RAW0[cname].items():
            if vars(c).get(attr) is not raw and not attr.startswith("__dict__") and attr not in ("__weakref__",):
                try:
                    setattr(c, attr, raw)
                except (AttributeError, TypeError):
                    pass
    jn._current_journal = None


def slot_get(slot: str):
    _, core, gcont, _, _ = _mods()
    parts = slot.split(".")
    m = {"_core": core, "_graph_containers": gcont}[parts[0]]
    c = getattr(m, parts[1])
    raw = vars(c).get(parts[2], None)
    if raw is None:
        raw = getattr(c, parts[2])
    return raw.fset if len(parts) == 4 else raw


def slot_set(slot: str, f):
    _, core, gcont, _, _ = _mods()
    parts = slot.split(".")
    m = {"_core": core, "_graph_containers": gcont}[parts[0]]
    c = getattr(m, parts[1])
    if len(parts) == 4:
        old = vars(c)[parts[2]]
        setattr(c, parts[2], property(old.fget, f, old.fdel, old.__doc__))
    else:
        setattr(c, parts[2], f)


class Tracer:
    """Harness-side observation of every dispatched call of a saved class attribute: installed
    BENEATH the journals (so the journal wrappers wrap it), it sees exactly what the model calls
    the `callee`: start, nested dispatched calls, outcome of the ORIGINAL function."""

    def __init__(self, x: dict):
        self.slots = sorted({s for _, s in x["saved"]} | {p["slot"] for p in x["patched"]})
        self.tattr = {p["slot"]: p["tattr"] for p in x["patched"]}
        self.saved = {}
        self.ids = {}
        self.keep = []
        self.stack = [{"ch": []}]
        # record-first wrappers: operation name -> [(slot, target_attr)]
        self.record_first = {}
        for p in x["patched"]:
            kinds = [st[0] for st in p["steps"]]
            call_at = min(i for i, k in enumerate(kinds) if k in ("WCall", "WCallRet"))
            if "WRecord" in kinds[:call_at]:
                self.record_first.setdefault(p["op"], []).append((p["slot"], p["tattr"]))

    def abort_node(self, e) -> None:
        """A hook is about to raise while a record-first wrapper records `e`: the original will never be
        called, so the tracer beneath will not see this dispatched call — add it to the call forest (the
        model decides that its callee is not executed)."""
        o = e.ref() if e.ref is not None else None
        _, core, gcont, _, _ = _mods()
        for slot, tattr in self.record_first.get(e.operation, []):
            parts = slot.split(".")
            cls = getattr({"_core": core, "_graph_containers": gcont}[parts[0]], parts[1])
            if tattr is not None or isinstance(o, cls):
                self.stack[-1]["ch"].append({"slot": slot, "self": 0 if tattr is not None else self.h(o),
                                             "owner": self.h(o), "ch": [], "out": ("ok", 0), "aborted": True})
                return

    def h(self, o) -> int:
        if o is None:
            return 0
        k = id(o)
        if k not in self.ids:
            self.ids[k] = len(self.ids) + 1
            self.keep.append(o)
        return self.ids[k]

    def _wrap(self, slot, f):
        import functools
        tattr = self.tattr.get(slot)
        tr = self

        @functools.wraps(f)
        def traced(self, *a, **k):
            node = {"slot": slot, "self": tr.h(self),
                    "owner": tr.h(getattr(self, tattr, None)) if tattr else tr.h(self), "ch": [], "out": None}
            tr.stack[-1]["ch"].append(node)
            tr.stack.append(node)
            try:
                r = f(self, *a, **k)
            except BaseException as e:  # noqa: BLE001
                node["out"] = ("raise", common.exn_name(e))
                raise
            else:
                node["out"] = ("ok", 0)
                return r
            finally:
                tr.stack.pop()
        return traced

    def install(self):
        for s in self.slots:
            self.saved[s] = slot_get(s)
            slot_set(s, self._wrap(s, self.saved[s]))

    def uninstall(self):
        for s in self.slots:
            slot_set(s, self.saved[s])

    def begin(self):
        self.stack = [{"ch": []}]

    def forest(self):
        return self.stack[0]["ch"]


class World:
    def __init__(self):
        self.pool = {k: [] for k in POOLS}
        self.handles = {}          # id(obj) -> handle
        self.all = []              # (kind, obj)
        self.lazy_evals = {}

    def add(self, kind, obj):
        if id(obj) in self.handles:
            return self.handles[id(obj)]
        self.all.append((kind, obj))
        h = len(self.all)
        self.handles[id(obj)] = h
        self.pool[kind].append(obj)
        return h

    def sel(self, kind, i):
        p = self.pool[kind]
        if i is None or not p:
            return None
        return p[i % len(p)]

    def label(self, o):
        if o is None:
            return None
        if isinstance(o, (str, int, bool, float)):
            return o
        return self.handles.get(id(o), "?" + type(o).__name__)

    def refresh(self):
        for kind, o in list(self.all):
            if kind == "node":
                try:
                    outs = list(o.outputs)
                except Exception:  # noqa: BLE001
                    continue
                for v in outs:
                    self.add("value", v)

    def snapshot(self):
        def safe(f):
            try:
                return f()
            except Exception as e:  # noqa: BLE001
                return "!" + type(e).__name__
        L = self.label
        out = []
        for h, (kind, o) in enumerate(self.all, 1):
            if kind == "value":
                out.append([h, "value", safe(lambda: o.name), safe(lambda: repr(o.type)),
                            safe(lambda: getattr(o.type, "denotation", None)), safe(lambda: type(o.shape).__name__),
                            safe(lambda: repr(o.shape)), safe(lambda: L(o.shape)),
                            safe(lambda: L(o.const_value)), safe(lambda: L(o.producer())), safe(lambda: o.index()),
                            safe(lambda: sorted((L(u.node), u.idx) for u in o.uses())),
                            safe(lambda: o.is_graph_input()), safe(lambda: o.is_graph_output()),
                            safe(lambda: o.is_initializer()), safe(lambda: L(o.graph))])
            elif kind == "node":
                out.append([h, "node", safe(lambda: o.name), safe(lambda: o.domain), safe(lambda: o.op_type),
                            safe(lambda: o.overload), safe(lambda: o.version),
                            safe(lambda: [L(v) for v in o.inputs]), safe(lambda: [L(v) for v in o.outputs]),
                            safe(lambda: [(k, L(a)) for k, a in o.attributes.items()]), safe(lambda: L(o.graph))])
            elif kind == "graph":
                out.append([h, "graph", safe(lambda: o.name), safe(lambda: [L(v) for v in o.inputs]),
                            safe(lambda: [L(v) for v in o.outputs]), safe(lambda: [L(n) for n in o]),
                            safe(lambda: [(k, L(v)) for k, v in o.initializers.items()]), safe(lambda: len(o))])
            elif kind == "tensor":
                out.append([h, "tensor", safe(lambda: o.name), self.lazy_evals.get(h, 0)])
            elif kind == "attr":
                out.append([h, "attr", safe(lambda: o.name), safe(lambda: str(o.type))])
            elif kind == "func":
                out.append([h, "func", safe(lambda: o.name), safe(lambda: o.domain), safe(lambda: o.overload),
                            safe(lambda: [L(n) for n in o]), safe(lambda: [(k, L(a)) for k, a in o.attributes.items()])])
            elif kind == "shape":
                out.append([h, "shape", safe(lambda: repr(o))])
            elif kind == "model":
                out.append([h, "model", safe(lambda: L(o.graph)), safe(lambda: o.ir_version)])
        return out


# hand table for the oracle: scenario op -> (operation name documented for the journal, who is recorded)
ORACLE_OPS = {
    "g_append": ("append", "graph"), "g_extend": ("extend", "graph"), "g_remove": ("remove", "graph"),
    "g_insert_after": ("insert_after", "graph"), "g_insert_before": ("insert_before", "graph"),
    "g_sort": ("sort", "graph"), "v_rauw": ("replace_all_uses_with", "value"),
    "v_merge_shapes": ("merge_shapes", "value"), "n_resize_in": ("resize_inputs", "node"),
    "n_resize_out": ("resize_outputs", "node"), "init_register": ("register_initializer", "graph"),
    "io_append": ("append_io", "graph"), "io_insert": ("insert_io", "graph"), "io_pop": ("pop_io", "graph"),
    "io_remove": ("remove_io", "graph"), "io_clear": ("clear_io", "graph"), "io_extend": ("extend_io", "graph"),
    "io_setitem": ("set_io", "graph"), "init_set": ("set_initializer", "graph"),
    "init_del": ("delete_initializer", "graph"), "attr_set": ("set_attribute", "node"),
    "v_set_type": ("set_type", "value"), "v_set_shape": ("set_shape", "value"),
    "v_set_const": ("set_const_value", "value"),
    "value": ("init", "result"), "node": ("init", "result"), "graph": ("init", "result"),
    "tensor": ("init", "result"), "attr": ("init", "result"), "func": ("init", "result"),
    "model": ("init", "result"),
}


def do_op(W: World, it: dict):
    """Execute one IR operation; returns (target object or None, returned value)."""
    import numpy as np
    ir = _mods()[0]
    op = it["op"]
    V = lambda i: W.sel("value", i)      # noqa: E731
    N = lambda i: W.sel("node", i)       # noqa: E731
    G = lambda i: W.sel("graph", i)      # noqa: E731
    maybe_iter = (lambda xs: (x for x in xs)) if it.get("iter") else (lambda xs: xs)
    if op == "value":
        kw = {}
        if it.get("typed"):
            kw = dict(type=ir.TensorType(ir.DataType.FLOAT), shape=ir.Shape([2, 3]))
        v = ir.Value(name=it.get("name"), **kw)
        W.add("value", v)
        return v, v
    if op == "tensor":
        kind = it["kind"]
        nm = it.get("name")
        if kind == "plain":
            t = ir.Tensor(np.arange(3, dtype=np.float32), name=nm)
        elif kind == "string":
            t = ir.StringTensor(np.array([b"a", b"bc"]), name=nm)
        elif kind == "external":
            t = ir.ExternalTensor("c20-no-such-file.bin", 0, 12, ir.DataType.FLOAT, shape=ir.Shape([3]), name=nm,
                                  base_dir="/nonexistent-c20")
        elif kind == "lazy":
            h = len(W.all) + 1
            evals = W.lazy_evals

            def fn(h=h):
                evals[h] = evals.get(h, 0) + 1
                return ir.Tensor(np.arange(3, dtype=np.float32))
            t = ir.LazyTensor(fn, dtype=ir.DataType.FLOAT, shape=ir.Shape([3]), name=nm)
        else:
            t = ir.Tensor(np.arange(4, dtype=np.int64), name=nm, shape=ir.Shape([5]))   # invalid: raises
        W.add("tensor", t)
        return t, t
    if op == "attr":
        k = it["kind"]
        if k == "int":
            a = ir.AttrInt64(it["name"], it.get("val", 0))
        elif k == "str":
            a = ir.AttrString(it["name"], "s%d" % it.get("val", 0))
        elif k == "tensor":
            a = ir.AttrTensor(it["name"], W.sel("tensor", it.get("val", 0)))
        else:
            a = ir.Attr(it["name"], "not-a-type", 1)      # invalid type object; may raise
        W.add("attr", a)
        return a, a
    if op == "node":
        ins = [None if i is None else (V(i) if i != "bad" else "bad") for i in it["ins"]]
        attrs = [W.sel("attr", i) for i in it.get("attrs", [])]
        attrs = [a for a in attrs if a is not None]
        kw = {}
        if it.get("reuse_outputs") is not None:
            kw["outputs"] = [V(i) for i in it["reuse_outputs"] if V(i) is not None]
        else:
            kw["num_outputs"] = it.get("nout", 1)
        if it.get("graph") is not None:
            kw["graph"] = G(it["graph"])
        n = ir.Node(it.get("domain", ""), it.get("optype", "Add"), maybe_iter(ins), maybe_iter(attrs),
                    name=it.get("name"), **kw)
        W.add("node", n)
        return n, n
    if op == "graph":
        sel = lambda kind, xs: [o for o in (W.sel(kind, i) for i in xs) if o is not None]   # noqa: E731
        g = ir.Graph(sel("value", it.get("ins", [])), sel("value", it.get("outs", [])),
                     nodes=maybe_iter(sel("node", it.get("nodes", []))),
                     initializers=sel("value", it.get("inits", [])), name=it.get("name"))
        W.add("graph", g)
        return g, g
    if op == "model":
        g = G(it["g"])
        if g is None:
            return None, "skip"
        m = ir.Model(g, ir_version=10)
        W.add("model", m)
        return m, m
    if op == "func":
        g = G(it["g"])
        if g is None:
            return None, "skip"
        f = ir.Function(it.get("domain", "dom"), it.get("name", "f"), graph=g, attributes=[])
        W.add("func", f)
        return f, f
    # ---- graph (or function) node list
    if op in ("g_append", "g_extend", "g_remove", "g_insert_after", "g_insert_before", "g_sort"):
        g = W.sel("func", it["g"]) if it.get("via_func") and W.pool["func"] else G(it["g"])
        tgt = g._graph if (g is not None and it.get("via_func") and W.pool["func"]) else g
        if g is None:
            return None, "skip"
        ns = [n for n in (N(i) for i in it.get("ns", [])) if n is not None]
        if op == "g_append":
            return tgt, (g.append(ns[0]) if ns else "skip")
        if op == "g_extend":
            return tgt, g.extend(maybe_iter(ns))
        if op == "g_remove":
            arg = ns[0] if (it.get("single") and ns) else maybe_iter(ns)
            return tgt, (g.remove(arg, safe=True) if it.get("safe") else g.remove(arg))
        if op == "g_sort":
            return tgt, g.sort()
        anchor = N(it["at"])
        if anchor is None:
            return None, "skip"
        arg = ns[0] if (it.get("single") and ns) else maybe_iter(ns)
        return tgt, (g.insert_after(anchor, arg) if op == "g_insert_after" else g.insert_before(anchor, arg))
    if op == "n_replace_input":
        n = N(it["n"])
        if n is None:
            return None, "skip"
        return n, n.replace_input_with(it["idx"], None if it.get("v") is None else V(it["v"]))
    if op == "v_rauw":
        v, w = V(it["v"]), V(it["w"])
        if v is None:
            return None, "skip"
        if it.get("kw"):
            return v, v.replace_all_uses_with(w, replace_graph_outputs=bool(it.get("rgo")))
        return v, (v.replace_all_uses_with(w, True) if it.get("rgo") else v.replace_all_uses_with(w))
    if op == "set_name":
        o = W.sel(it["kind"], it["i"])
        if o is None:
            return None, "skip"
        o.name = o.name if it.get("same") else it["name"]
        return o, None
    if op == "n_set":
        n = N(it["n"])
        if n is None:
            return None, "skip"
        setattr(n, it["field"], getattr(n, it["field"]) if it.get("same") else it["val"])
        return n, None
    if op == "f_set":
        f = W.sel("func", it["f"])
        if f is None:
            return None, "skip"
        setattr(f, it["field"], it["val"])
        return f, None
    if op == "v_set_type":
        v = V(it["v"])
        if v is None:
            return None, "skip"
        mode = it.get("mode")
        if mode == "same":
            v.type = v.type
        elif mode in ("denot", "equal"):
            # a type that compares EQUAL to the current one (TensorType.__eq__ looks at dtype only)
            dt = v.type.dtype if v.type is not None else ir.DataType.FLOAT
            v.type = ir.TensorType(dt, denotation="IMAGE" if mode == "denot" else None)
        else:
            v.type = None if it.get("none") else ir.TensorType(ir.DataType(it.get("dt", 1)))
        return v, None
    if op == "v_set_shape":
        v = V(it["v"])
        if v is None:
            return None, "skip"
        mode = it.get("mode")
        if mode == "same":
            v.shape = v.shape
        elif mode == "list":
            v.shape = list(v.shape) if v.shape is not None else [1, 2]     # equals the shape; must raise TypeError
        elif mode == "equal":
            s2 = ir.Shape(list(v.shape)) if v.shape is not None else ir.Shape([1, 2])   # equal, distinct object
            W.add("shape", s2)
            v.shape = s2
        elif it.get("none"):
            v.shape = None
        else:
            s2 = ir.Shape(it.get("dims", [1, "N"]))
            W.add("shape", s2)
            v.shape = s2
        return v, None
    if op == "local_objs":
        # a small graph that only the caller's frame will own (the enclosing block's local variable)
        a = ir.Value(name="la")
        n = ir.Node("", "Relu", [a], name="ln")
        g = ir.Graph([a], list(n.outputs), nodes=[n], name="lg")
        n.name = "ln2"
        return None, [a, n, g]
    if op == "temps":
        # a loop creating temporaries that die at once (their addresses are typically reused)
        for _ in range(it.get("k", 3)):
            ir.Value(name=it.get("name", "t"))
        return None, None
    if op == "shape_edit":
        sh = W.sel("shape", it["s"])
        if sh is None or len(sh) == 0:
            return None, "skip"
        sh[it.get("idx", 0) % len(sh)] = it.get("val", 7)          # in-place edit of a (possibly assigned) Shape
        return None, None
    if op == "v_set_const":
        v = V(it["v"])
        if v is None:
            return None, "skip"
        v.const_value = None if it.get("none") else W.sel("tensor", it.get("t", 0))
        return v, None
    if op == "v_merge_shapes":
        v = V(it["v"])
        if v is None:
            return None, "skip"
        return v, v.merge_shapes(None if it.get("none") else ir.Shape(it.get("dims", [2, 3])))
    if op.startswith("io_"):
        g = G(it["g"])
        if g is None:
            return None, "skip"
        lst = g.inputs if it.get("which") == "inputs" else g.outputs
        v = V(it.get("v"))
        if op == "io_append":
            return g, lst.append(v)
        if op == "io_insert":
            return g, (lst.insert(i=it.get("idx", 0), item=v) if it.get("kw") else lst.insert(it.get("idx", 0), v))
        if op == "io_pop":
            if it.get("idx") is None:
                return g, lst.pop()
            return g, lst.pop(it["idx"])
        if op == "io_remove":
            if it.get("from_list") and len(lst):
                v = lst[it.get("idx", 0) % len(lst)]
            return g, lst.remove(v)
        if op == "io_clear":
            return g, lst.clear()
        if op == "io_extend":
            vs = [x for x in (V(i) for i in it.get("vs", [])) if x is not None]
            return g, lst.extend(maybe_iter(vs))
        if op == "io_setitem":
            if it.get("slice"):
                vs = [x for x in (V(i) for i in it.get("vs", [])) if x is not None]
                lst[0:it.get("idx", 1)] = vs
                return g, None
            lst[it.get("idx", 0)] = v
            return g, None
    if op in ("init_set", "init_register") and it.get("fresh") and G(it["g"]) is not None:
        # a well-formed initializer: named value carrying a tensor (its construction is instrumented too)
        fv = ir.Value(name="init%d" % (len(W.all) % 5), const_value=ir.Tensor(np.arange(2, dtype=np.float32)))
        W.add("value", fv)
        g = G(it["g"])
        if op == "init_set":
            g.initializers[fv.name] = fv
            return g, None
        return g, g.register_initializer(fv)
    if op == "init_set":
        g, v = G(it["g"]), V(it["v"])
        if g is None or v is None:
            return None, "skip"
        key = it["key"] if it.get("key") is not None else v.name
        g.initializers[key] = v
        return g, None
    if op == "init_del":
        g = G(it["g"])
        if g is None:
            return None, "skip"
        keys = list(g.initializers)
        key = keys[it["i"] % len(keys)] if (keys and not it.get("bogus")) else "no-such-initializer"
        del g.initializers[key]
        return g, None
    if op == "init_register":
        g, v = G(it["g"]), V(it["v"])
        if g is None or v is None:
            return None, "skip"
        return g, g.register_initializer(v)
    if op == "attr_set":
        n = N(it["n"])
        if n is None:
            return None, "skip"
        a = "not-an-attr" if it.get("bad") else W.sel("attr", it.get("a", 0))
        n.attributes[it["key"]] = a
        return n, None
    if op == "n_resize_in":
        n = N(it["n"])
        if n is None:
            return None, "skip"
        return n, n.resize_inputs(it["k"])
    if op == "n_resize_out":
        n = N(it["n"])
        if n is None:
            return None, "skip"
        return n, n.resize_outputs(it["k"])
    if op in ("n_prepend", "n_append"):
        n = N(it["n"])
        ns = [m for m in (N(i) for i in it.get("ns", [])) if m is not None]
        if n is None:
            return None, "skip"
        arg = ns[0] if (it.get("single") and ns) else maybe_iter(ns)
        return n, (n.prepend(arg) if op == "n_prepend" else n.append(arg))
    if op == "n_set_graph":
        n = N(it["n"])
        if n is None:
            return None, "skip"
        n.graph = None if it.get("g") is None else G(it["g"])
        return n, None
    raise AssertionError("unknown op " + op)


def _exc_class(name: str):
    import builtins
    c = _THROWABLE.get(name) or getattr(builtins, name, None)
    if not (isinstance(c, type) and issubclass(c, Exception)):
        return RuntimeError
    try:
        c("c20 scenario")
    except Exception:  # noqa: BLE001
        return RuntimeError
    return c


def _ref_type_name(e):
    o = e.ref() if e.ref is not None else None
    return type(o).__name__ if o is not None else None


def run_scenario(scn: list, mode: str, x: dict | None = None) -> dict:
    """mode: 'plain' (no journal at all), 'journal', 'traced' (journal over the harness tracer)."""
    _, _, _, jn, _ = _mods()
    from onnx_ir.journaling import Journal
    pristine_init()
    W = World()
    journals: dict[int, object] = {}
    obs = {"results": [], "snaps": [], "restore_bad": [], "cur_bad": [], "oracle_entries": [], "escaped": None,
           "ops": [], "errsites": {}, "pos_seq": [], "suppressed": [], "hook_calls": {}}
    tracer = None
    if mode == "traced":
        tracer = Tracer(x)
        tracer.install()
    look = mode == "journal" and any("look" in it for it in scn)
    active: list[int] = []
    local_stack: list[list] = []

    def make_hook(j, k, spec):
        log = obs["hook_calls"].setdefault(f"{j}:{k}", [])

        def hk(e):
            log.append((e.operation, e.class_name, tracer.h(e.ref() if e.ref is not None else None) if tracer else None))
            if spec.get("raise_on") == e.operation:
                if tracer:
                    tracer.abort_node(e)
                raise C20HookError("c20 scenario hook")
        return hk
    pos_of = {id(it): i for i, it in enumerate(_flat_ops(scn))}     # syntactic position of every op item

    def one_op(it):
        wins = [(j, len(journals[j].entries)) for j in active] if mode != "plain" else []
        if tracer:
            tracer.begin()
        tgt = None
        try:
            tgt, r = do_op(W, it)
            if it["op"] == "local_objs":
                # objects owned only by the frame of the enclosing `with` block (see block()): not in the World
                if local_stack:
                    local_stack[-1].extend(r)
                r = None
            res = ("ok", W.label(r))
            err = None
        except Exception as e:  # noqa: BLE001
            res = ("raise", type(e).__name__)
            err = (type(e), common.exn_name(e))
            if mode == "journal":
                import traceback
                fr = [(os.path.basename(f.filename), f.name) for f in traceback.extract_tb(e.__traceback__)]
                obs["errsites"][pos_of[id(it)]] = {
                    "deepest_frame": list(fr[-1]),
                    "via_wrapper_details": any(a == "_wrappers.py" and b == "<lambda>" for a, b in fr)}
        W.refresh()
        obs["pos_seq"].append(pos_of[id(it)])
        obs["results"].append(res)
        obs["snaps"].append(common.digest(W.snapshot()))
        if tracer:
            obs["ops"].append({"forest": tracer.forest(), "out": ("ok", 0) if err is None else ("raise", err[1]),
                               "prop": bool(it.get("prop")), "pos": pos_of[id(it)]})
        # oracle bookkeeping: the completed instrumented top-level operation has exactly one entry per active journal
        dyn = {"set_name": "set_name", "n_set": "set_" + str(it.get("field")), "f_set": "set_" + str(it.get("field"))}
        if mode == "journal" and err is None and (it["op"] in ORACLE_OPS or it["op"] in dyn) and res[1] != "skip":
            opname = dyn[it["op"]] if it["op"] in dyn else ORACLE_OPS[it["op"]][0]
            for j, n0 in wins:
                win = journals[j].entries[n0:]
                cnt = sum(1 for e in win if e.operation == opname and e.ref is not None and e.ref() is tgt)
                if cnt != 1:
                    obs["oracle_entries"].append({"op": it, "journal": j, "matching_entries": cnt,
                                                  "window": [(e.operation, e.class_name) for e in win]})
        if mode == "journal" and err is None and it["op"] == "temps":
            for j, n0 in wins:
                win = journals[j].entries[n0:]
                cnt = sum(1 for e in win if e.operation == "init" and e.class_name == "Value")
                if cnt != it.get("k", 3):
                    obs["oracle_entries"].append({"op": it, "journal": j, "matching_entries": cnt,
                                                  "window": [(e.operation, e.class_name) for e in win]})
        if err is not None and it.get("prop"):
            raise _Escape(err[0].__name__, err[1])

    def block(items):
        for it in items:
            if "op" in it:
                one_op(it)
            elif "look" in it:
                continue
            elif "throw" in it:
                raise _Escape(it["throw"], it["throw"] if it["throw"] in common._EXN_NAMES else "OtherError")
            elif "try" in it:
                try:
                    block(it["try"])
                except _Escape:
                    pass
            elif "with" in it:
                if mode == "plain":
                    local_stack.append([])
                    try:
                        block(it["body"])
                    finally:
                        local_stack.pop()
                    continue
                j = it["with"]
                # `mine` is a LOCAL of this frame, the frame the exception leaving the block is raised in: the
                # objects in it are owned by the block's frame only, and must die with it even if the journal
                # is kept and the block was left by an exception (whose traceback refers to this frame)
                mine: list = []
                local_stack.append(mine)
                if j not in journals:
                    journals[j] = Journal()
                    for k, spec in enumerate(it.get("hooks", [])):
                        journals[j].add_hook(make_hook(j, k, spec))
                    if look:
                        # a user hook that looks at the entry (public API) while the object is alive
                        journals[j].add_hook(lambda e: (e.obj, e.ref, e.operation, e.class_name, e.details))
                before = class_state()
                cur_before = jn.get_current_journal()
                esc = None
                came_out = None        # the exception the `with` statement itself let through
                try:
                    with journals[j] as jj:
                        active.append(j)
                        if jn.get_current_journal() is not jj:
                            obs["cur_bad"].append(f"inside journal {j}: get_current_journal() is not it")
                        # the exception must be a real Python exception of the right type for __exit__
                        try:
                            block(it["body"])
                        except _Escape as e:
                            esc = e
                            raise _exc_class(e.args[0])("c20 scenario")
                except _Escape:
                    raise
                except Exception as ex:  # noqa: BLE001
                    if esc is None:
                        raise
                    came_out = type(ex).__name__
                finally:
                    local_stack.pop()
                    if active and active[-1] == j:
                        active.pop()
                    bad = state_diff(before, class_state())
                    if bad:
                        obs["restore_bad"].append({"journal": j, "attributes": bad[:8], "exit": "exception" if esc else "normal"})
                    if jn.get_current_journal() is not cur_before:
                        obs["cur_bad"].append(f"after journal {j}: current journal differs from before")
                if esc is not None:
                    if came_out is None:
                        # Journal.__exit__ swallowed the exception: like Python, carry on with the statements after
                        # the block (the plain run does not: results / escaping exception will differ)
                        obs["suppressed"].append({"journal": j, "exception": esc.args[0]})
                    elif came_out != _exc_class(esc.args[0]).__name__:
                        obs["suppressed"].append({"journal": j, "exception": esc.args[0], "came_out_as": came_out})
                        raise _Escape(came_out, came_out if came_out in common._EXN_NAMES else "OtherError")
                    else:
                        raise esc
            else:
                raise AssertionError(it)

    try:
        try:
            block(scn)
        except _Escape as e:
            obs["escaped"] = e.args[1]
            obs["escaped_type"] = e.args[0]
    finally:
        if tracer:
            tracer.uninstall()
    obs["final"] = W.snapshot()
    bad = state_diff(_STATE0, class_state())
    if bad:
        obs["restore_bad"].append({"journal": "end-of-scenario", "attributes": bad[:8], "exit": "-"})
        force_restore()
    if jn.get_current_journal() is not None:
        obs["cur_bad"].append("after the scenario: a journal is still current")
        jn._current_journal = None
    # entries
    ent = {}
    for j, jo in journals.items():
        rows = []
        first = {}
        for e in jo.entries:
            key = e.object_id
            if key not in first:
                first[key] = len(first) + 1
            rows.append((e.operation, e.class_name, first[key], tracer.ids.get(key, -1) if tracer else None,
                         _ref_type_name(e)))
        ent[j] = rows
    obs["entries"] = ent
    if look:
        # every public way of looking at the entries WHILE the objects are alive: iteration, .obj, .ref(),
        # filtering, Journal.display / JournalEntry.display (output discarded)
        import contextlib
        import io
        for jo in journals.values():
            try:
                with contextlib.redirect_stdout(io.StringIO()):
                    _ = [(e.obj, e.ref() if e.ref is not None else None) for e in jo.entries]
                    _ = [e for e in jo.entries if e.obj is not None and e.class_name in ("Node", "Value", "Graph")]
                    _ = None
                    jo.display()
                    for e in list(jo.entries)[:4]:
                        e.display()
            except Exception as e:  # noqa: BLE001
                obs["look_errors"] = type(e).__name__
            _ = None
    if mode == "journal":
        # weak references: drop every IR object of the scenario, collect, every entry must be dead
        entries = [e for jo in journals.values() for e in jo.entries]
        del W, tracer
        one_op = block = None     # closures hold W
        gc.collect()
        alive = [(e.operation, e.class_name) for e in entries
                 if (e.ref is not None and e.ref() is not None) or e.obj is not None]
        obs["alive"] = alive
        obs["n_entries"] = len(entries)
    return obs


# =========================================================================== oracle

def oracle(scn: list) -> list[str]:
    """The property, directly: journaled vs unjournaled run (results, exceptions, IR snapshots), classes
    and current journal restored at every exit, one entry per completed instrumented operation, no strong
    references.  Public API only."""
    return oracle_full(scn)[0]


def oracle_full(scn: list):
    a = run_scenario(scn, "plain")
    c = run_scenario(scn, "journal")
    bad = confirm(scn, compare_plain_journal(a, c))
    return bad, (divergence_site(scn, a, c) if any(b.startswith("interference") for b in bad) else None)


def divergence_site(scn: list, a: dict, c: dict) -> dict | None:
    """Where the journaled run first departs from the plain run: the operation, both outcomes, and (for an
    exception raised only under the journal) the frame that raised it."""
    for i, (p, q) in enumerate(zip(a["results"], c["results"])):
        if p != q or a["snaps"][i] != c["snaps"][i]:
            pos = c["pos_seq"][i]
            it = list(_flat_ops(scn))[pos]
            site = {"op": it["op"], "args": sorted(k for k in it if k not in ("op", "prop")),
                    "plain": list(p), "journaled": list(q)}
            site.update(c["errsites"].get(pos, {}))
            return site
    return None


def site_matches(known_site: dict, site: dict | None) -> bool:
    if site is None:
        return False
    return ((known_site.get("op") is None or site["op"] == known_site.get("op"))
            and all(k in site["args"] for k in known_site.get("requires_args", []))
            and site["journaled"] == known_site.get("journaled")
            and site.get("deepest_frame") == known_site.get("deepest_frame")
            and site.get("via_wrapper_details") == known_site.get("via_wrapper_details"))


def _behaviour(o: dict) -> str:
    return common.digest([o["results"], o["snaps"], o["final"], o.get("escaped_type")])


def confirm(scn: list, bad: list[str], runs: int = 6) -> list[str]:
    """Some IR operations are themselves nondeterministic from run to run (iteration over a frozenset of
    nodes, hence over id()s, e.g. Graph.remove failing half way — C01/C06's business).  A journaled-vs-plain
    difference is reported as interference only if it is systematic: over several runs of each kind the two
    sets of behaviours are disjoint."""
    if not any(b.startswith("interference") for b in bad):
        return bad
    plain = {_behaviour(run_scenario(scn, "plain")) for _ in range(runs)}
    journ = {_behaviour(run_scenario(scn, "journal")) for _ in range(runs)}
    if plain & journ:
        return [b for b in bad if not b.startswith("interference")]
    return bad


def compare_plain_journal(a: dict, c: dict) -> list[str]:
    bad = []
    if a["results"] != c["results"]:
        i = next((i for i, (p, q) in enumerate(zip(a["results"], c["results"])) if p != q),
                 min(len(a["results"]), len(c["results"])))
        bad.append(f"interference: operation #{i} result plain={a['results'][i:i+1]} journaled={c['results'][i:i+1]}")
    elif a["snaps"] != c["snaps"]:
        i = next(i for i, (p, q) in enumerate(zip(a["snaps"], c["snaps"])) if p != q)
        bad.append(f"interference: IR state differs after operation #{i}")
    if a["final"] != c["final"]:
        d = [(p, q) for p, q in zip(a["final"], c["final"]) if p != q][:2]
        bad.append(f"interference: final IR differs: {d}")
    if a.get("escaped_type") != c.get("escaped_type"):
        bad.append(f"interference: escaping exception plain={a.get('escaped_type')} journaled={c.get('escaped_type')}")
    for r in c["suppressed"][:3]:
        bad.append(f"interference: the exception {r['exception']} raised inside journal {r['journal']} "
                   + (f"came out as {r['came_out_as']}" if r.get("came_out_as") else "did not come out of the `with` block"))
    if len(a["results"]) != len(c["results"]):
        bad.append(f"interference: {len(a['results'])} operations ran without a journal, {len(c['results'])} with "
                   "(different statements executed after an exception)")
    for r in c["restore_bad"]:
        bad.append(f"not restored after journal {r['journal']} ({r['exit']} exit): {r['attributes']}")
    for r in c["cur_bad"]:
        bad.append("current journal: " + r)
    for r in c["oracle_entries"][:3]:
        bad.append(f"entries: completed {r['op']['op']} has {r['matching_entries']} entries in journal {r['journal']} "
                   f"(window {r['window'][:6]})")
    for key, log in c["hook_calls"].items():
        j = int(key.split(":")[0])
        want = [r[:2] for r in c["entries"].get(j, [])]
        if [tuple(r[:2]) for r in log] != [tuple(r) for r in want]:
            bad.append(f"entries: hook {key} was called {len(log)} times for {len(want)} entries of its journal "
                       "(or with other entries / in another order)")
    if c.get("alive"):
        bad.append(f"strong reference: {len(c['alive'])} of {c['n_entries']} entries still reach their object "
                   f"after the objects were dropped: {c['alive'][:4]}")
    return bad


# =========================================================================== generator

_NAMES = ["a", "b", "c", "x", "y", "w0", None, ""]


def _gen_op(rng) -> dict:
    r = rng.random
    i = lambda: rng.randrange(0, 12)       # noqa: E731
    kind = rng.choices(
        ["value", "tensor", "attr", "node", "graph", "model", "func",
         "g_append", "g_extend", "g_remove", "g_insert_after", "g_insert_before", "g_sort",
         "n_replace_input", "v_rauw", "set_name", "n_set", "f_set", "v_set_type", "v_set_shape", "v_set_const",
         "v_merge_shapes", "shape_edit", "io_append", "io_insert", "io_pop", "io_remove", "io_clear", "io_extend", "io_setitem",
         "init_set", "init_del", "init_register", "attr_set", "n_resize_in", "n_resize_out", "n_prepend",
         "n_append", "n_set_graph"],
        [8, 3, 4, 10, 6, 2, 3,
         5, 3, 4, 3, 3, 2,
         5, 5, 5, 4, 3, 2, 2, 3,
         2, 3, 3, 2, 2, 2, 1, 2, 2,
         3, 2, 2, 4, 2, 2, 2,
         2, 2])[0]
    it: dict = {"op": kind}
    if kind == "value":
        it.update(name=rng.choice(_NAMES), typed=r() < 0.4)
    elif kind == "tensor":
        it.update(kind=rng.choice(["plain", "plain", "lazy", "lazy", "external", "string", "invalid"]),
                  name=rng.choice(_NAMES))
    elif kind == "attr":
        it.update(kind=rng.choice(["int", "int", "str", "tensor", "bad"]), name=rng.choice(["k", "alpha", "axis"]),
                  val=rng.randrange(5))
    elif kind == "node":
        ins = [rng.choice([i(), i(), i(), None]) for _ in range(rng.randrange(0, 4))]
        if r() < 0.06:
            ins.append("bad")
        it.update(ins=ins, nout=rng.choice([1, 1, 1, 2, 3, 0]), attrs=[i() for _ in range(rng.randrange(0, 3))],
                  name=rng.choice(_NAMES), optype=rng.choice(["Add", "Mul", "Relu", "Identity"]),
                  domain=rng.choice(["", "", "custom"]), iter=r() < 0.3)
        if r() < 0.15:
            it["graph"] = i()
        if r() < 0.08:
            it["reuse_outputs"] = [i()]
    elif kind == "graph":
        it.update(ins=[i() for _ in range(rng.randrange(0, 3))], outs=[i() for _ in range(rng.randrange(0, 3))],
                  nodes=[i() for _ in range(rng.randrange(0, 4))],
                  inits=[i() for _ in range(rng.randrange(0, 2))] if r() < 0.3 else [],
                  name=rng.choice(["g", "h", None]), iter=r() < 0.3)
    elif kind in ("model", "func"):
        it.update(g=i())
    elif kind in ("g_append", "g_extend", "g_remove", "g_insert_after", "g_insert_before", "g_sort"):
        it.update(g=i(), ns=[i() for _ in range(rng.randrange(1, 4))], iter=r() < 0.4, single=r() < 0.4,
                  safe=r() < 0.5, at=i(), via_func=r() < 0.1)
    elif kind == "n_replace_input":
        it.update(n=i(), idx=rng.choice([0, 0, 1, 2, 5, -1]), v=rng.choice([i(), i(), None]))
    elif kind == "v_rauw":
        it.update(v=i(), w=i(), rgo=r() < 0.5, kw=r() < 0.5)
    elif kind == "set_name":
        it.update(kind=rng.choice(["value", "value", "node"]), i=i(), name=rng.choice(_NAMES), same=r() < 0.15)
    elif kind == "n_set":
        f = rng.choice(["op_type", "domain", "version", "overload"])
        it.update(n=i(), field=f, val=rng.choice([1, 7, None]) if f == "version" else rng.choice(["Add", "Neg", "", "ai.x"]),
                  same=r() < 0.2)
    elif kind == "f_set":
        it.update(f=i(), field=rng.choice(["name", "domain", "overload"]), val=rng.choice(["f", "q", ""]))
    elif kind == "v_set_type":
        it.update(v=i(), none=r() < 0.2, dt=rng.choice([1, 6, 7, 10]),
                  mode=rng.choice([None, None, "denot", "denot", "equal", "same"]))
    elif kind == "v_set_shape":
        it.update(v=i(), none=r() < 0.2, dims=rng.choice([[1, "N"], [2, 3], [], [None, 4]]),
                  mode=rng.choice([None, None, "equal", "equal", "list", "same"]))
    elif kind == "shape_edit":
        it.update(s=i(), idx=rng.randrange(3), val=rng.choice([7, 9, "K"]))
    elif kind == "v_set_const":
        it.update(v=i(), none=r() < 0.2, t=i())
    elif kind == "v_merge_shapes":
        it.update(v=i(), none=r() < 0.2, dims=rng.choice([[2, 3], [2, "M"], [5], [2, 4]]))
    elif kind.startswith("io_"):
        it.update(g=i(), which=rng.choice(["inputs", "outputs"]), v=i(), idx=rng.choice([0, 0, 1, -1, 9]),
                  kw=r() < 0.3, vs=[i() for _ in range(rng.randrange(0, 3))], iter=r() < 0.4, slice=r() < 0.3)
        if kind == "io_pop" and r() < 0.4:
            it["idx"] = None
        if kind == "io_remove":
            it["from_list"] = r() < 0.6
    elif kind == "init_set":
        it.update(g=i(), v=i(), key=rng.choice([None, None, None, "other", ""]), fresh=r() < 0.4)
    elif kind == "init_del":
        it.update(g=i(), i=i(), bogus=r() < 0.3)
    elif kind == "init_register":
        it.update(g=i(), v=i(), fresh=r() < 0.6)
    elif kind == "attr_set":
        it.update(n=i(), key=rng.choice(["k", "alpha", "z"]), a=i(), bad=r() < 0.15)
        if r() < 0.1:
            it["key"] = 5
    elif kind in ("n_resize_in", "n_resize_out"):
        it.update(n=i(), k=rng.choice([0, 1, 2, 3, 4, -1]))
    elif kind in ("n_prepend", "n_append"):
        it.update(n=i(), ns=[i() for _ in range(rng.randrange(1, 3))], single=r() < 0.5, iter=r() < 0.4)
    elif kind == "n_set_graph":
        it.update(n=i(), g=rng.choice([i(), None]))
    if r() < 0.12:
        it["prop"] = True
    return it


def gen_scenario(rng, size: int = 24) -> list:
    state = {"next": 1, "closed": [], "hooks": {}}

    def block(n, depth, active):
        items = []
        for _ in range(n):
            u = rng.random()
            if u < 0.16 and depth < 3:
                if state["closed"] and rng.random() < 0.25:
                    cand = [j for j in state["closed"] if j not in active]
                    j = rng.choice(cand) if cand else None
                else:
                    j = None
                if j is None:
                    j = state["next"]
                    state["next"] += 1
                body = block(rng.randrange(1, 7), depth + 1, active + [j])
                state["closed"].append(j)
                if j not in state["hooks"]:
                    state["hooks"][j] = [{"raise_on": None}] * rng.randrange(1, 3) if rng.random() < 0.35 else []
                u2 = rng.random()
                if u2 < 0.25:
                    body.insert(rng.randrange(len(body) + 1), {"op": "local_objs"})
                    if u2 < 0.15:
                        body.append({"throw": rng.choice(["ValueError", "KeyError"])})
                w = {"with": j, "body": body}
                if state["hooks"][j]:
                    w["hooks"] = state["hooks"][j]
                # the caller handles the exception and goes on (the journal object is kept)
                items.append({"try": [w]} if (u2 < 0.15 and rng.random() < 0.7) else w)
            elif u < 0.20:
                items.append({"try": block(rng.randrange(1, 5), depth, active)})
            elif u < 0.23 and depth >= 1:
                items.append({"throw": rng.choice(["ValueError", "RuntimeError", "KeyError", "TypeError"])})
            elif u < 0.31:
                # the SAME operation on the same object several times in a row (identical details strings),
                # or a loop of temporaries: every repetition is an instrumented operation of its own
                i = rng.randrange(0, 12)
                it = rng.choice([
                    {"op": "n_set", "n": i, "field": "version", "val": 5},
                    {"op": "n_set", "n": i, "field": "op_type", "val": "Neg"},
                    {"op": "n_resize_out", "n": i, "k": 1},
                    {"op": "n_resize_in", "n": i, "k": 2},
                    {"op": "g_sort", "g": i},
                    {"op": "set_name", "kind": "value", "i": i, "name": "x"},
                    {"op": "v_set_type", "v": i, "dt": 1},
                    {"op": "v_merge_shapes", "v": i, "dims": [2, 3]},
                    {"op": "v_set_const", "v": i, "none": True},
                    {"op": "io_append", "g": i, "which": "outputs", "v": i},
                    {"op": "attr_set", "n": i, "key": "k", "a": i},
                    {"op": "temps", "k": rng.randrange(2, 5), "name": "t"},
                ])
                for _ in range(1 if it["op"] == "temps" else rng.randrange(3, 5)):
                    items.append(json.loads(json.dumps(it)))
            else:
                items.append(_gen_op(rng))
        return items

    pre = [{"op": "value", "name": "a", "typed": True}, {"op": "value", "name": "b", "typed": False},
           {"op": "node", "ins": [0, 1], "nout": 1, "attrs": [], "name": "n0", "optype": "Add", "domain": ""},
           {"op": "node", "ins": [2, 0], "nout": 2, "attrs": [], "name": "n1", "optype": "Mul", "domain": ""}]
    if rng.random() < 0.85:
        pre.append({"op": "graph", "ins": [0, 1], "outs": [3], "nodes": [0, 1], "name": "g"})
    if rng.random() < 0.3:
        pre.append({"op": "func", "g": 0})
    if rng.random() < 0.3:
        pre = pre[:rng.randrange(0, len(pre) + 1)]
    body = block(size, 0, [])
    if rng.random() < 0.5:
        body.append({"look": True})       # hooks + reading entry.obj/display while the objects are alive
    if rng.random() < 0.5:
        return pre + body
    # whole scenario (including the construction of the graph) inside one journal
    j = state["next"]
    return [{"with": j, "body": pre + body[: size // 2]}] + body[size // 2:]


def scn_stats(scn) -> dict:
    st = {"ops": 0, "withs": 0, "depth": 0, "throws": 0, "tries": 0}

    def walk(items, d):
        for it in items:
            if "op" in it:
                st["ops"] += 1
            elif "with" in it:
                st["withs"] += 1
                st["depth"] = max(st["depth"], d + 1)
                walk(it["body"], d + 1)
            elif "try" in it:
                st["tries"] += 1
                walk(it["try"], d)
            elif "throw" in it:
                st["throws"] += 1
    walk(scn, 0)
    return st


# =========================================================================== model side (Coq case files)

CASE_HEADER = """From Coq Require Import ZArith List Bool String.
From IRV Require Import Base.Exn C20.Types Gen.C20Gen C20.Model C20.Hooks.
Import ListNotations.
Open Scope string_scope.
Open Scope list_scope.
Definition qh : hook := fun _ => None.
Definition hk (s : string) : hook := fun e => if String.eqb (fst e) s then Some RuntimeError else None.
Definition R := @Ret unit Z.
Definition Iv := @Invoke unit Z.
Definition Do := @PDo unit Z.
Definition Wi := @PWith unit Z.
Definition Tr := @PTry unit Z.
Definition Th := @PThrow unit Z.
Definition Pe := @PRet unit Z.
Definition case := (prog unit Z * (option exn * nat * bool) * list (nat * list (string * Z))
                    * (nat -> list hook) * list (nat * nat * list (string * Z)))%type.
Definition agree (c : case) : bool :=
  let '(p, (oexp, nres, restored_ok), obs, hooks, hobs) := c in
  let '(st', _, rs, o, l) := runH unit Z 0%Z hooks p st0 tt in
  Bool.eqb (pristine st') restored_ok && option_eqb exn_eqb o oexp && Nat.eqb (List.length rs) nres
  && forallb (fun je => list_eqb entry_eqb (recs_of (fst je) l) (snd je)) obs
  && forallb (fun x => let '(j, k, es) := x in list_eqb entry_eqb (calls_of j k l) es) hobs.
"""


def _cres(out) -> str:
    return "(Ok 0%Z)" if out[0] == "ok" else f"(Raise {out[1]})"


def coq_body(forest, out) -> str:
    term = f"(R {_cres(out)})"
    for nd in reversed(forest):
        if nd["out"] is None:
            raise RuntimeError("tracer: call without outcome")
        callee = coq_body(nd["ch"], nd["out"])
        term = f'(Iv {_cs(nd["slot"])} {cZ(nd["self"])} {cZ(nd["owner"])} {callee} (fun _ => {term}))'
    return term


def coq_prog(scn: list, ops: list) -> str:
    """The scenario as a `prog`; executed operations carry the call forest the tracer saw, operations the
    implementation never reached carry an empty body (the model must not reach them either: the number
    of results is compared)."""
    by_pos = {o["pos"]: o for o in ops}
    counter = [0]

    def blk(items, k):
        # build front to back so that executed-op observations are consumed in program order
        parts = []
        for it in items:
            if "op" in it:
                o = by_pos.get(counter[0])
                counter[0] += 1
                body = coq_body(o["forest"], o["out"]) if o else "(R (Ok 0%Z))"
                parts.append(("op", body, bool(it.get("prop"))))
            elif "with" in it:
                parts.append(("with", it["with"], blk(it["body"], "Pe")))
            elif "try" in it:
                parts.append(("try", blk(it["try"], "Pe")))
            elif "throw" in it:
                parts.append(("throw", it["throw"]))
        term = k
        for p in reversed(parts):
            if p[0] == "op":
                if p[2]:
                    term = f"(Do {p[1]} (fun r => match r with Raise e => Th e | Ok _ => {term} end))"
                else:
                    term = f"(Do {p[1]} (fun _ => {term}))"
            elif p[0] == "with":
                term = f"(Wi {p[1]} {p[2]} {term})"
            elif p[0] == "try":
                term = f"(Tr {p[1]} (fun _ => {term}))"
            else:
                term = f"(Th {p[1]})"
        return term
    return blk(scn, "Pe")


def coq_case(scn, d) -> str:
    obs = clist(f"({j}%nat, {clist(f'({_cs(r[0])}, {cZ(r[3])})' for r in rows)})" for j, rows in sorted(d["entries"].items()))
    esc = "None" if d["escaped"] is None else f"(Some {d['escaped']})"
    restored_ok = "true" if not d["restore_bad"] and not d["cur_bad"] else "false"
    specs = scn_hooks(scn)
    hooks = "(fun j => match j with " + " ".join(
        f"| {j}%nat => {clist('qh' if sp.get('raise_on') is None else 'hk ' + _cs(sp['raise_on']) for sp in sps)}"
        for j, sps in sorted(specs.items())) + " | _ => [] end)"
    hobs = []
    for j, sps in sorted(specs.items()):
        for k in range(len(sps)):
            # a journal that was never entered has no log at all (and no model events either)
            log = d["hook_calls"].get(f"{j}:{k}", [])
            hobs.append(f"({j}%nat, {k}%nat, {clist(f'({_cs(r[0])}, {cZ(r[2])})' for r in log)})")
    return (f"({coq_prog(scn, d['ops'])},\n   ({esc}, {len(d['ops'])}%nat, {restored_ok}), {obs},\n   {hooks}, "
            f"{clist(hobs)})")


def scn_hooks(scn) -> dict:
    """hook specs per journal id (the generator puts the same list on every `with` of a journal)"""
    out = {}

    def walk(items):
        for it in items:
            if "with" in it:
                if it.get("hooks") and it["with"] not in out:
                    out[it["with"]] = it["hooks"]
                walk(it["body"])
            elif "try" in it:
                walk(it["try"])
    walk(scn)
    return out


def correspondence(ck, cases: list) -> list[int]:
    """cases: [(scenario as JSON text, rendered Coq case)] -> indices where the model's run disagrees.
    (Cases are rendered to text as soon as they are observed: keeping the observation trees of thousands of
    scenarios alive makes every gc.collect() of the weak-reference check slower and slower.)"""
    chunk = 60
    texts = []
    for k in range(0, len(cases), chunk):
        part = cases[k:k + chunk]
        text = CASE_HEADER + "Definition cases : list case :=\n [ " + ";\n   ".join(t for _, t in part) \
            + " ].\nEval vm_compute in (failing agree cases).\n"
        texts.append((f"cases_{k // chunk}", text))
    bad = []
    import concurrent.futures as cf
    with cf.ThreadPoolExecutor(max_workers=4) as ex:      # at most 4 cores (other checks run concurrently)
        outs = list(ex.map(lambda tt: ck.coq_eval(tt[1], tt[0], 900), texts))
    for (tag, _), (rc, out), k in zip(texts, outs, range(0, len(cases), chunk)):
        if rc != 0:
            raise RuntimeError(f"case file {tag} did not compile:\n{out[-3000:]}")
        bad += [k + i for i in common.parse_nat_list(out)]
    return bad


# =========================================================================== probes

def probe_reentry(ck) -> None:
    """Model: nesting the SAME journal object inside itself leaves the classes wrapped
    (C20_reentrant_use_not_restored).  Check that the implementation agrees, then clean up."""
    from onnx_ir.journaling import Journal
    pristine_init()
    j = Journal()
    with j:
        with j:
            pass
    bad = state_diff(_STATE0, class_state())
    force_restore()
    if state_diff(_STATE0, class_state()):
        raise RuntimeError("harness could not put the classes back")
    ck.hist("probes", "reentry:classes-left-wrapped" if bad else "reentry:restored")
    if not bad:
        ck.broken("correspondence:reentry",
                  "model predicts that `with j: with j: pass` leaves the classes wrapped; the implementation restored them")
    else:
        ck.notes.append("observation (outside the property as read): re-entering the SAME Journal object while it is "
                        f"active leaves {len(bad)} class attributes wrapped after both exits (model and code agree)")


RAISE_OPS = ["set_name", "init", "append", "extend", "set_graph", "set_attribute", "remove", "set_type",
             "replace_all_uses_with", "insert_after", "append_io", "set_initializer", "resize_outputs", "sort",
             "set_version", "set_io", "pop_io"]


def gen_raising(rng) -> list:
    """a scenario in which one journal has a hook that raises whenever an entry with a given operation is
    recorded (plus possibly quiet hooks before/after it)"""
    scn = gen_scenario(rng, rng.choice([6, 14, 24]))
    withs = []

    def walk(items):
        for it in items:
            if "with" in it:
                withs.append(it)
                walk(it["body"])
            elif "try" in it:
                walk(it["try"])
    walk(scn)
    if not withs:
        scn = [{"with": 99, "body": scn}]
        withs = [scn[0]]
    # choose a journal and an operation it really records (one un-hooked journaled run tells)
    rec = {j: sorted({r[0] for r in rows}) for j, rows in run_scenario(scn, "journal")["entries"].items() if rows}
    if rec and rng.random() < 0.85:
        j = rng.choice(sorted(rec))
        op = rng.choice(rec[j])
    else:
        j = rng.choice(withs)["with"]
        op = rng.choice(RAISE_OPS)
    cur = next((w["hooks"] for w in withs if w["with"] == j and w.get("hooks")), [])
    hooks = list(cur)
    hooks.insert(rng.randrange(len(hooks) + 1), {"raise_on": op})
    for w in withs:
        if w["with"] == j:
            w["hooks"] = hooks
    return scn


def probe_raising_hook(ck) -> bool:
    """C20_raising_hook_aborts_operation on the implementation: a hook that raises makes the journaled operation
    differ from the plain one (record-first wrapper: the setter is never called)."""
    ir = _mods()[0]
    from onnx_ir.journaling import Journal
    v = ir.Value(name="old")
    j = Journal()

    def boom(e):
        raise C20HookError("probe")
    j.add_hook(boom)
    raised = None
    with j:
        try:
            v.name = "new"
        except C20HookError:
            raised = True
    interferes = bool(raised) and v.name == "old"
    ck.hist("probes", "raising-hook:" + ("operation-aborted" if interferes else "operation-performed"))
    return interferes


# =========================================================================== run / search / replay

def _load_corpus() -> list:
    d = os.path.join(common.CORPUS, "C20")
    out = []
    if os.path.isdir(d):
        for fn in sorted(os.listdir(d)):
            if fn.endswith(".json"):
                with open(os.path.join(d, fn)) as f:
                    out.append(json.load(f)["scenario"])
    return out


def _count_items(scn) -> int:
    n = 0
    for it in scn:
        n += 1
        if "with" in it:
            n += _count_items(it["body"])
        elif "try" in it:
            n += _count_items(it["try"])
    return n


def shrink(scn: list, fails, budget: int = 400) -> list:
    """greedy: drop items (at any depth), unwrap blocks, while `fails` still holds"""
    cur = json.loads(json.dumps(scn))

    def variants(items):
        for i, it in enumerate(items):
            yield items[:i] + items[i + 1:]
            if "with" in it:
                yield items[:i] + it["body"] + items[i + 1:]
                for v in variants(it["body"]):
                    yield items[:i] + [dict(it, body=v)] + items[i + 1:]
            elif "try" in it:
                yield items[:i] + it["try"] + items[i + 1:]
                for v in variants(it["try"]):
                    yield items[:i] + [{"try": v}] + items[i + 1:]
    changed = True
    while changed and budget > 0:
        changed = False
        for v in variants(cur):
            budget -= 1
            if budget <= 0:
                break
            try:
                ok = bool(fails(v))
            except Exception:  # noqa: BLE001
                ok = False
            if ok:
                cur, changed = v, True
                break
    return cur


def _cat(b: str) -> str:
    for c in ("interference", "not restored", "current journal", "entries", "strong reference"):
        if b.startswith(c):
            return c
    return b.split(":")[0]


def _known_key(ck, bad: list[str], site: dict | None) -> str | None:
    """A failing scenario is a known finding only if ALL its failures are the consequences of a first
    divergence at a known site (anything about restoration, entries, references is never excused)."""
    if not bad or not all(b.startswith("interference") for b in bad):
        return None
    for k in ck._known:
        if k.get("status") == "known" and site_matches(k.get("site", {}), site):
            return k["key"]
    return None


def replay_known(ck) -> None:
    for k in ck._known:
        if k.get("status") != "known":
            continue
        bad, site = oracle_full(k["witness"])
        if bad and site_matches(k.get("site", {}), site):
            ck.known_finding(k["key"], k["what"])
        else:
            ck.broken(f"known-finding-stale:{k['key']}",
                      "the recorded witness no longer fails (at that site) on the implementation")


def report(ck, scn, bad, site, kind="oracle") -> bool:
    key = _known_key(ck, bad, site)
    if key:
        ck.known_finding(key, next(k["what"] for k in ck._known if k["key"] == key))
        return False
    sig = _cat(bad[0])

    def same(s):
        b, st = oracle_full(s)
        return any(_cat(x) == sig for x in b) and not _known_key(ck, b, st)
    small = shrink(scn, same)
    b2, st2 = oracle_full(small)
    if not b2:
        ck.notes.append("an oracle failure did not reproduce on re-execution (nondeterministic IR operation): " + bad[0][:200])
        return False
    ck.violation({"kind": kind, "scenario": small, "failures": b2, "first_divergence": st2, "broken": ck.broken_items,
                  "how_to_read": "scenario items: op / with <journal id> / try / throw; run plain and inside journals"})
    return True


def search(ck) -> None:
    budget = 300 if not ck.thorough else 3000
    for i in range(budget):
        scn = gen_scenario(ck.rng, ck.rng.choice([8, 16, 30]))
        ck.count()
        bad, site = oracle_full(scn)
        if bad and not _known_key(ck, bad, site):
            if report(ck, scn, bad, site, "oracle-after-broken-obligation"):
                return


def run(ck) -> None:
    import logging
    logging.disable(logging.WARNING)
    sys.setrecursionlimit(10000)
    ck.trust("Coq 8.16.1 kernel (coqc; vm_compute in Property.v and in case files)",
             "harness/props/c20.py: extract() (fail-closed ast reader of _wrappers.py/_journaling.py), scenario "
             "interpreter, tracer, Coq term printer",
             "modelled not verified: details_func / repr / getattr inside the wrappers are pure; weakref.ref, "
             "traceback.extract_stack, time.time do not touch the IR (all exercised by the journaled-vs-plain runs)",
             "modelled not verified: the original IR methods are deterministic functions of (IR heap, arguments, "
             "outcomes of dispatched calls) — the `body` type of the model")
    ck.assumptions += ["CPython semantics of class attribute assignment, property(), `with` (Journal.__exit__ returns None)",
                       "journals are used from one thread; a Journal object is not re-entered while active (wf)"]
    ck.coverage["rule"] = ("nontrivial = scenario with nesting depth >= 2, at least one journal left by exception and at "
                           "least one instrumented call that raised")
    x = generate(ck)
    ck.prove()
    pristine_init()
    if x is None:
        # the generated tables are stale: the tracer needs the slot list; fall back to the oracle search
        search(ck)
        return
    ck.coverage["generated_lists"] = {"saved": len(x["saved"]), "patched": len(x["patched"]),
                                      "restored": len(x["restored"]),
                                      "factories": {k: [s[0] + (":" + s[1][0] if s[0] == "WRecord" else "") for s in v]
                                                    for k, v in x["factories"].items()}}
    try:
        probe_reentry(ck)
    except Exception as e:  # noqa: BLE001
        force_restore()
        ck.broken("probe:reentry", repr(e))
    try:
        if probe_raising_hook(ck):
            ck.notes.append("observation (outside the property's quantifier: a raising user hook is user code injected "
                            "into Journal.record): the hook's exception escapes through the wrapper and, under a "
                            "record-first wrapper, the original is not called (`v.name = ...` raises, name unchanged) "
                            "- model (C20_raising_hook_aborts_operation) and code agree")
        else:
            ck.broken("correspondence:raising-hook",
                      "model (C20_raising_hook_aborts_operation) predicts that a raising hook aborts `v.name = ...` under a "
                      "journal; the implementation performed the assignment")
    except Exception as e:  # noqa: BLE001
        force_restore()
        ck.broken("probe:raising-hook", repr(e))
    n = 180 if not ck.thorough else 4500
    corpus = _load_corpus()
    n_corpus = len(corpus)
    gc.collect()
    gc.freeze()            # imported modules etc. are not re-scanned by every gc.collect() below
    cases, failures = [], []
    for i in range(n_corpus + n):
        scn = corpus[i] if i < n_corpus else gen_scenario(ck.rng, ck.rng.choice([6, 14, 24, 36]))
        for o in _flat_ops(scn):
            ck.hist("ops", o["op"])
        a = run_scenario(scn, "plain")
        c = run_scenario(scn, "journal")
        d = run_scenario(scn, "traced", x)
        ck.count(3)
        bad = compare_plain_journal(a, c)
        if any(b.startswith("interference") for b in bad):
            bad = confirm(scn, bad)
            if not any(b.startswith("interference") for b in bad):
                ck.hist("scenario_exit", "nondeterministic-ir-operation(not compared)")
        # the traced run is self-contained (its entries and its call forest come from the same run); when it
        # is the same run as the journaled one, both must have recorded the same entries
        if d["results"] == c["results"] and d["snaps"] == c["snaps"]:
            # (operation, class) sequences only: object identity is compared exactly in the traced run (which
            # keeps every object alive); in the pure journaled run id()s of dead objects are reused
            ec = {j: [r[:2] for r in rows] for j, rows in c["entries"].items()}
            ed = {j: [r[:2] for r in rows] for j, rows in d["entries"].items()}
            if ec != ed:
                bad.append("entries: journaled run and journaled-over-tracer run recorded different entries")
        for r in d["restore_bad"]:
            bad.append(f"not restored after journal {r['journal']} ({r['exit']} exit, tracer installed): {r['attributes']}")
        if bad:
            site = divergence_site(scn, a, c) if any(b.startswith("interference") for b in bad) else None
            failures.append((scn, bad, site))
            ck.hist("scenario_exit", "oracle-failure:" + (_known_key(ck, bad, site) or "NEW"))
        cases.append((json.dumps(scn), coq_case(scn, d)))
        st = scn_stats(scn)
        ck.hist("nesting_depth", str(st["depth"]))
        for res, o in zip(c["results"], d["ops"]):
            ck.hist("op_outcomes", res[0] if res[1] != "skip" else "skip")

        def walk(forest):
            k = 0
            for nd in forest:
                ck.hist("instrumented_calls", nd["slot"] + (":raise" if nd["out"][0] == "raise" else ""))
                k += (nd["out"][0] == "raise") + walk(nd["ch"])
            return k
        nfail = sum(walk(o["forest"]) for o in d["ops"])
        ck.hist("scenario_exit", "exception" if c["escaped"] else "normal")
        if c.get("look_errors"):
            # Journal.display()/JournalEntry.display() raised (repr of an object whose __init__ failed half way):
            # a robustness matter of display, outside C20's statement — counted, not reported
            ck.hist("probes", "display-raised:" + c["look_errors"])
        ck.hist("entries_total", "entries", c.get("n_entries", 0))
        ck.hist("entries_total", "quiet-hook-calls", sum(len(v) for v in c["hook_calls"].values()))
        if st["depth"] >= 2 and nfail and (c["escaped"] or st["throws"] or any(o["prop"] and o["out"][0] == "raise" for o in d["ops"])):
            ck.nontriv(scn)
        if n_corpus <= i < n_corpus + 3:
            ck.sample({"scenario": scn[:6], "results": c["results"][:6],
                       "entries": {j: [r[:2] for r in rows[:8]] for j, rows in c["entries"].items()}})
    # raising hooks: the model (Hooks.v: runH) predicts exactly what the implementation does — which entry is the
    # last one, which hooks were still called, that the original is not run under a record-first wrapper, that
    # the hook's exception is the operation's exception, and that the classes are restored all the same
    nr = 40 if not ck.thorough else 900
    for i in range(nr):
        scn = gen_raising(ck.rng)
        d = run_scenario(scn, "traced", x)
        ck.count()
        fired = sum(1 for r in d["results"] if r == ("raise", "C20HookError"))
        ck.hist("raising_hook_stream", "hook-raised" if fired else "hook-never-triggered")

        def aborted(forest):
            return sum(int(bool(nd.get("aborted"))) + aborted(nd["ch"]) for nd in forest)
        ck.hist("raising_hook_stream", "calls-aborted-before-the-original", sum(aborted(o["forest"]) for o in d["ops"]))
        bad = [f"not restored after journal {r['journal']} ({r['exit']} exit, raising hook): {r['attributes']}"
               for r in d["restore_bad"]] + ["current journal: " + r for r in d["cur_bad"]]
        if bad:
            failures.append((scn, bad, None))
        if fired:
            ck.nontriv(("raising-hook", scn))
        cases.append((json.dumps(scn), coq_case(scn, d)))
    ck.coverage["traces_validated_against_impl"] = len(cases)
    try:
        mism = correspondence(ck, cases)
    except RuntimeError as e:
        mism = []
        ck.broken("correspondence:harness", str(e))
    for i in mism[:3]:
        scn = json.loads(cases[i][0])
        small = shrink(scn, lambda s: bool(_model_disagrees(ck, s, x)), budget=25)
        ck.broken("correspondence:run",
                  json.dumps({"scenario": small, "why": "Model.run disagrees with the implementation on journal "
                              "entries / restoration / escaping exception"}, default=str))
        if not any(f[0] is scn for f in failures):
            b, st = oracle_full(scn)
            if b:
                failures.append((scn, b, st))
    replay_known(ck)
    seen = set()
    for scn, bad, site in failures:
        key = _known_key(ck, bad, site)
        sig = key or _cat(bad[0])
        if sig in seen:
            continue
        if report(ck, scn, bad, site) or key:
            seen.add(sig)
    if ck.broken_items and not ck.violations:
        search(ck)


def _flat_ops(scn):
    for it in scn:
        if "op" in it:
            yield it
        elif "with" in it:
            yield from _flat_ops(it["body"])
        elif "try" in it:
            yield from _flat_ops(it["try"])


def _model_disagrees(ck, scn, x) -> bool:
    d = run_scenario(scn, "traced", x)
    return bool(correspondence(ck, [(json.dumps(scn), coq_case(scn, d))]))


def replay(rp: dict) -> int:
    scn = rp.get("scenario")
    if scn is None:
        print("replay names a broken obligation/correspondence, no concrete input:",
              json.dumps(rp.get("broken"), indent=1)[:3000])
        return 1
    bad, site = oracle_full(scn)
    print(json.dumps({"scenario": scn, "failures": bad, "first_divergence": site}, indent=1))
    return 1 if bad else 0

(* C06/Property.v — a rejected edit leaves every IR object exactly as it was.

   FULL STATEMENT (properties.jsonl C06): whenever a public editing call raises, every observable property of
   every reachable object is what it was before the call.  obs_all = everything the public accessors return
   (obs) plus ref counters and name-authority state.
   Proved: for the repaired model the heap returned with Raise IS the heap passed in (for every history and
   every op in scope), hence obs_all is unchanged; for the current model the same along every history that
   avoids the one unrepaired site (SNodeOutputsOwned, which never raises) ; Graph(...) with arguments is inside the
   theorems since 680d931.  `_refuted_before_fix` theorems record the repaired sites. *)
From Coq Require Import ZArith List Bool Arith Lia.
From IRV Require Import Base.Exn C01.Model C01.Proofs C06.Proofs.
Import ListNotations.

Theorem C06_raise_frame_fixed :
  forall ops op h' e, step all_fixed (run all_fixed ops empty_heap) op = (h', Raise e) -> h' = run all_fixed ops empty_heap.
Proof. intros ops op h' e Hs. eapply frame_step; [|exact Hs]. apply Inv_run_fixed. apply Inv_empty. Qed.
Print Assumptions C06_raise_frame_fixed.

(* the code as it is: the history (rejected call included) never takes the one unrepaired branch (SNodeOutputsOwned) *)
Theorem C06_raise_frame :
  forall ops op h' e, clean current_cfg (ops ++ [op]) empty_heap ->
    step current_cfg (run current_cfg ops empty_heap) op = (h', Raise e) ->
    obs_all h' = obs_all (run current_cfg ops empty_heap).
Proof.
  intros ops op h' e Hc Hs.
  assert (Hpre : clean current_cfg ops empty_heap /\
                 step current_cfg (run current_cfg ops empty_heap) op = step all_fixed (run current_cfg ops empty_heap) op).
  { clear Hs. revert Hc. generalize empty_heap. induction ops as [|o t IH]; intros h Hc; simpl in *.
    - tauto.
    - destruct Hc as [He Hc]. destruct (IH _ Hc) as [A B]. auto. }
  destruct Hpre as [Hcl Heq]. rewrite Heq in Hs. rewrite (clean_run _ _ _ Hcl) in *.
  rewrite (C06_raise_frame_fixed ops op h' e Hs). reflexivity.
Qed.
Print Assumptions C06_raise_frame.

(* non-vacuity: a clean in-scope history with three rejected calls (positions 10, 11, 16) *)
Definition demo : list op :=
  [NewValue 0 (Some (NUser 0)); NewValue 1 None; GraphNew 0 [] [] [] []; GraphNew 1 [] [] [] []; GraphNew 2 [] [] [] [];
   IOAppend KIn 0 0; IOAppend KOut 0 0; IOAppend KOut 0 0; InitAdd 0 0;
   NewNode 0 [Some 0; None; Some 0] (OFresh [2; 3]) (Some 1) None; IOAppend KIn 2 0;
   IOAppend KIn 1 2; NReplaceInput 0 1 (Some 1); VSetName 0 (Some (NUser 3));
   IOPop KOut 0 0; GRemove 1 [0] true; IOPop KIn 0 7].
Example demo_ok : clean current_cfg demo empty_heap.
Proof. cbn [clean demo]. repeat (split; [vm_compute; reflexivity|]). exact I. Qed.
Example demo_rejections :
  map (fun i => snd (step current_cfg (run current_cfg (firstn i demo) empty_heap) (nth i demo (IOClear KIn 0))))
      [10; 11; 16] = [Raise ValueError; Raise ValueError; Raise IndexError].
Proof. vm_compute. reflexivity. Qed.

(* ------------------------------------------------------------------ refutations: `_before_fix` about original_cfg (the code before
   c5c2382 / dff454e), all sites of the model are repaired in /repo now (SGraphNew by 680d931) *)
Definition changed (c : cfg) (pre : list op) (o : op) : bool :=
  let h := run c pre empty_heap in
  let '(h', r) := step c h o in
  negb (is_ok r) && negb (list_eqb Z.eqb (obs h') (obs h)).

Definition w_pre := [NewValue 0 (Some (NUser 0)); NewValue 1 (Some (NUser 1)); GraphNew 0 [] [] [] []; GraphNew 1 [1] [] [] []].
Definition w_gpre := [GraphNew 0 [] [] [] []; GraphNew 1 [] [] [] []; NewNode 0 [] (OFresh []) None None;
                      NewNode 1 [] (OFresh []) (Some 1) None].

Theorem C06_ioextend_refuted_before_fix : changed original_cfg w_pre (IOExtend KIn 0 [0; 1]) = true.
Proof. vm_compute. reflexivity. Qed.
Print Assumptions C06_ioextend_refuted_before_fix.
Theorem C06_ioinsert_refuted_before_fix : changed original_cfg w_pre (IOInsert KIn 0 0 1) = true.
Proof. vm_compute. reflexivity. Qed.
Print Assumptions C06_ioinsert_refuted_before_fix.
Theorem C06_iosetitem_refuted_before_fix : changed original_cfg (w_pre ++ [IOAppend KIn 0 0]) (IOSetItem KIn 0 0 1) = true.
Proof. vm_compute. reflexivity. Qed.
Print Assumptions C06_iosetitem_refuted_before_fix.
(* initializers["u1"] = <output of a node, unnamed>: renamed, then rejected *)
Theorem C06_initsetitem_refuted_before_fix :
  changed original_cfg [GraphNew 0 [] [] [] []; NewNode 0 [] (OFresh [0]) None None] (InitSetItem 0 (NUser 1) 0) = true.
Proof. vm_compute. reflexivity. Qed.
Print Assumptions C06_initsetitem_refuted_before_fix.
Theorem C06_nameempty_refuted_before_fix :
  changed original_cfg [NewValue 0 (Some (NUser 0)); GraphNew 0 [] [] [] []; InitAdd 0 0] (VSetName 0 (Some NEmpty)) = true.
Proof. vm_compute. reflexivity. Qed.
Print Assumptions C06_nameempty_refuted_before_fix.
Theorem C06_gextend_refuted_before_fix : changed original_cfg w_gpre (GExtend 0 [0; 1]) = true.
Proof. vm_compute. reflexivity. Qed.
Print Assumptions C06_gextend_refuted_before_fix.
Theorem C06_ginsert_refuted_before_fix : changed original_cfg w_gpre (GInsertAfter 0 1 [0]) = true.
Proof. vm_compute. reflexivity. Qed.
Print Assumptions C06_ginsert_refuted_before_fix.
Theorem C06_rau_outputs_refuted_before_fix :
  changed original_cfg (w_pre ++ [IOAppend KOut 0 0]) (VReplaceAllUses 0 1 true) = true.
Proof. vm_compute. reflexivity. Qed.
Print Assumptions C06_rau_outputs_refuted_before_fix.
(* repaired by /repo 4f0fb1e: initializers.update({ok, rejected}) kept `ok` registered (inherited MutableMapping.update) *)
Theorem C06_initupdate_refuted_before_fix :
  changed original_cfg [NewValue 0 (Some (NUser 0)); NewValue 1 (Some (NUser 1)); GraphNew 0 [] [] [] []; GraphNew 1 [1] [] [] []]
          (InitUpdate 0 [(Some (NUser 0), 0); (Some (NUser 1), 1)]) = true.
Proof. vm_compute. reflexivity. Qed.
Print Assumptions C06_initupdate_refuted_before_fix.
Theorem C06_graphnew_refuted_before_fix : changed original_cfg w_pre (GraphNew 2 [0; 1] [] [] []) = true.
Proof. vm_compute. reflexivity. Qed.
Print Assumptions C06_graphnew_refuted_before_fix.

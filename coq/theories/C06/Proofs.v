(* C06/Proofs.v — a rejected edit leaves everything as it was: in the repaired model every op has the shape
   `validate; mutate`, so the heap returned with Raise is the heap that was passed in. *)
From Coq Require Import ZArith List Bool Arith Lia.
From IRV Require Import Base.Exn C01.Model C01.Store C01.ProofsA C01.ProofsC C01.ReadsD C01.ProofsD C01.Proofs.
Import ListNotations.

Ltac brk := repeat match goal with
  | |- context [if ?b then _ else _] => destruct b
  | |- context [match ?x with Some _ => _ | None => _ end] => destruct x
  end.
Ltac fr := cbn [fst snd K R]; intros; try discriminate; try reflexivity.

Lemma fr_io_append k s hpf g v e : snd (io_append k s hpf g v) = Raise e -> fst (io_append k s hpf g v) = s.
Proof. unfold io_append. brk; fr. Qed.
Lemma fr_io_extend k s hpf g vs e : snd (io_extend all_fixed k s hpf g vs) = Raise e -> fst (io_extend all_fixed k s hpf g vs) = s.
Proof. unfold io_extend. cbn [all_fixed]. brk; fr. Qed.
Lemma fr_io_insert k s hpf g i v e : snd (io_insert all_fixed k s hpf g i v) = Raise e -> fst (io_insert all_fixed k s hpf g i v) = s.
Proof. unfold io_insert. cbn [all_fixed]. brk; fr. Qed.
Lemma fr_io_pop k s g i e : snd (io_pop k s g i) = Raise e -> fst (io_pop k s g i) = s.
Proof. unfold io_pop. brk; fr. Qed.
Lemma fr_io_remove k s g v e : snd (io_remove k s g v) = Raise e -> fst (io_remove k s g v) = s.
Proof. unfold io_remove. brk; fr. Qed.
Lemma fr_io_setitem k s hpf g i v e : snd (io_setitem all_fixed k s hpf g i v) = Raise e -> fst (io_setitem all_fixed k s hpf g i v) = s.
Proof. unfold io_setitem. cbn [all_fixed]. brk; fr. Qed.
Lemma fr_io_delitem k s g i e : snd (io_delitem all_fixed k s g i) = Raise e -> fst (io_delitem all_fixed k s g i) = s.
Proof. unfold io_delitem. cbn [all_fixed]. apply fr_io_pop. Qed.
Lemma fr_io_setslice k s hpf g a b vs e :
  snd (io_setslice all_fixed k s hpf g a b vs) = Raise e -> fst (io_setslice all_fixed k s hpf g a b vs) = s.
Proof. unfold io_setslice. cbn [all_fixed]. brk; fr. Qed.
Lemma fr_init_delitem s g key e : snd (init_delitem s g key) = Raise e -> fst (init_delitem s g key) = s.
Proof. unfold init_delitem. brk; fr. Qed.

(* when does the repaired initializers[key] = v raise?  exactly when one of its four checks fails *)
Lemma init_setitem_ok hpf s g key v : InvD hpf s -> key <> NEmpty ->
  (name_blank (vname s v) = true \/ vname s v = Some key) -> hpf v = false -> gcheck s g v = true ->
  snd (init_setitem all_fixed s hpf g key v) = Ok tt.
Proof.
  intros HD Hk Hn Hp Hg. unfold init_setitem. apply name_eqb_neq in Hk. rewrite Hk.
  assert (En : negb (name_blank (vname s v)) && negb (oname_eqb (vname s v) (Some key)) = false).
  { destruct Hn as [-> | ->]; [reflexivity|]. simpl. rewrite name_eqb_refl. apply andb_false_r. }
  rewrite En, Hp, Hg. cbn [negb orb andb].
  set (s1 := if name_blank (vname s v) then set_vname s v (Some key) else s).
  assert (Hg1 : gcheck s1 g v = true).
  { unfold s1. destruct (name_blank _); [|assumption]. unfold gcheck. autorewrite with rd. exact Hg. }
  unfold init_disown_old. destruct (init_get (inits s1 g) key) as [o|].
  - assert (Hg2 : gcheck (init_disown s1 o) g v = true).
    { unfold gcheck. destruct (vgraph_init_disown s1 o v) as [-> | ->]; [exact Hg1|reflexivity]. }
    rewrite Hg2. reflexivity.
  - rewrite Hg1. reflexivity.
Qed.

Lemma fr_init_setitem hpf s g key v e : InvD hpf s ->
  snd (init_setitem all_fixed s hpf g key v) = Raise e -> fst (init_setitem all_fixed s hpf g key v) = s.
Proof.
  intros HD. destruct (name_eqb key NEmpty) eqn:Ek; [unfold init_setitem; rewrite Ek; fr|].
  destruct (negb (name_blank (vname s v)) && negb (oname_eqb (vname s v) (Some key))) eqn:En;
    [unfold init_setitem; rewrite Ek, En; fr|].
  destruct (hpf v || negb (gcheck s g v)) eqn:Eb; [unfold init_setitem; rewrite Ek, En, Eb; fr|].
  apply orb_false_iff in Eb. destruct Eb as [Hp Hg]. apply negb_false_iff in Hg. apply name_eqb_neq in Ek.
  rewrite (init_setitem_ok hpf s g key v HD Ek); try assumption; [discriminate|].
  destruct (name_blank (vname s v)) eqn:Eb; [auto|]. right. simpl in En.
  unfold oname_eqb, option_eqb in En. destruct (vname s v) as [nm|]; [|discriminate].
  apply negb_false_iff in En. apply name_eqb_eq in En. congruence.
Qed.

Lemma fr_init_add hpf s g v e : InvD hpf s ->
  snd (init_add all_fixed s hpf g v) = Raise e -> fst (init_add all_fixed s hpf g v) = s.
Proof. intros HD. unfold init_add. destruct (vname s v); [apply fr_init_setitem; assumption|fr]. Qed.

Lemma fr_init_update hpf s g kvs e :
  snd (init_update all_fixed s hpf g kvs) = Raise e -> fst (init_update all_fixed s hpf g kvs) = s.
Proof. unfold init_update. destruct (init_update_seq _ _ _ _ _) as [s' r]. destruct r; cbn [all_fixed]; fr. Qed.
Lemma fr_init_popitem s g e : snd (init_popitem s g) = Raise e -> fst (init_popitem s g) = s.
Proof. unfold init_popitem. destruct (inits s g) as [|[k v] t]; [fr|]. apply fr_init_delitem. Qed.
Lemma fr_init_setdefault hpf s g key v e : InvD hpf s ->
  snd (init_setdefault all_fixed s hpf g key v) = Raise e -> fst (init_setdefault all_fixed s hpf g key v) = s.
Proof. intros HD. unfold init_setdefault. destruct (init_get _ _); [fr|]. apply fr_init_setitem. assumption. Qed.

Lemma fr_vset_name hpf s v nm e : InvD hpf s ->
  snd (vset_name all_fixed s hpf v nm) = Raise e -> fst (vset_name all_fixed s hpf v nm) = s.
Proof.
  intros HD. unfold vset_name. destruct (oname_eqb (vname s v) nm); [fr|].
  destruct (vinit s v) eqn:Evi; [|fr].
  destruct nm as [k|]; [|fr]. destruct (vgraph s v) as [g|] eqn:Evg; [|fr].
  destruct (match init_get (inits s g) k with Some o => negb (o =? v) | None => false end); [fr|].
  destruct (name_eqb k NEmpty && all_fixed SNameEmpty) eqn:Ee; [fr|].
  cbn [all_fixed] in Ee. rewrite andb_true_r in Ee. apply name_eqb_neq in Ee.
  pose proof HD as (_ & _ & (H5a & H5b & H5c) & _ & H6).
  destruct (H5c v Evi) as (g0 & key0 & Hin). destruct (H5a _ _ _ Hin) as (Hn & _ & Hg & _).
  assert (g0 = g) by congruence. subst g0. rewrite Hn.
  unfold init_delitem. autorewrite with rd. rewrite (In_init_get _ _ _ (H5b g) Hin). cbn [K].
  rewrite init_disown_set_vname.
  change (set_inits (set_vname (init_disown s v) v (Some k)) g (init_del (inits s g) key0))
    with (set_vname (set_inits (init_disown s v) g (init_del (inits s g) key0)) v (Some k)).
  set (s2 := set_vname (set_inits (init_disown s v) g (init_del (inits s g) key0)) v (Some k)).
  assert (HD2 : InvD hpf s2).
  { apply InvD_set_vname; [apply InvD_init_unbind; assumption|].
    unfold init_disown, maybe_release. destruct (owned _ _); autorewrite with rd; rewrite Nat.eqb_refl; reflexivity. }
  rewrite (init_setitem_ok hpf s2 g k v HD2 Ee); [discriminate| | |].
  - right. unfold s2. autorewrite with rd. rewrite Nat.eqb_refl. reflexivity.
  - apply H6. auto.
  - unfold s2, gcheck. autorewrite with rd. destruct (vgraph_init_disown s v v) as [-> | ->]; [|reflexivity].
    rewrite Evg. apply Nat.eqb_refl.
Qed.

(* replace_all_uses_with(replace_graph_outputs=True): only the first assignment to graph.outputs can be rejected *)
Lemma pyidx_nat len i : i < len -> pyidx len (Z.of_nat i) = Some i.
Proof.
  intros H. unfold pyidx. assert (E : ((0 <=? Z.of_nat i) && (Z.of_nat i <? Z.of_nat len))%Z = true).
  { rewrite andb_true_iff, Z.leb_le, Z.ltb_lt. lia. }
  rewrite E. rewrite Nat2Z.id. reflexivity.
Qed.

Lemma rau_ok hpf g v r l : forall s i, vgraph s r = Some g -> i + length l <= length (iol KOut s g) ->
  snd (rau_outputs all_fixed s hpf g v r i l) = Ok tt.
Proof.
  induction l as [|o t IH]; intros s i Hg Hlen; simpl; [reflexivity|]. cbn [length] in Hlen.
  destruct (o =? v); [|apply IH; [assumption|lia]].
  unfold io_setitem. rewrite pyidx_nat by lia.
  assert (Hc : io_check KOut s hpf g r = true).
  { unfold io_check, gcheck. rewrite Hg, Nat.eqb_refl. reflexivity. }
  rewrite Hc. cbn [K]. apply IH.
  - unfold io_own. autorewrite with rd. rewrite Nat.eqb_refl. reflexivity.
  - autorewrite with rd. cbn [kind_eqb andb]. rewrite Nat.eqb_refl. rewrite list_set_length. lia.
Qed.

Lemma fr_rau hpf g v r l e : forall s i, i + length l <= length (iol KOut s g) ->
  snd (rau_outputs all_fixed s hpf g v r i l) = Raise e -> fst (rau_outputs all_fixed s hpf g v r i l) = s.
Proof.
  induction l as [|o t IH]; intros s i Hlen; simpl; [discriminate|]. cbn [length] in Hlen.
  destruct (o =? v); [|apply IH; lia].
  pose proof (fr_io_setitem KOut s hpf g (Z.of_nat i) r) as Hfr.
  unfold io_setitem in *. rewrite pyidx_nat in * by lia.
  destruct (io_check KOut s hpf g r); cbn [all_fixed] in *; [|fr].
  cbn [K]. intros Hr. exfalso. rewrite rau_ok in Hr; [discriminate| |].
  - unfold io_own. autorewrite with rd. rewrite Nat.eqb_refl. reflexivity.
  - autorewrite with rd. cbn [kind_eqb andb]. rewrite Nat.eqb_refl. rewrite list_set_length. lia.
Qed.

Lemma with_ow_id h : with_ow h (how h) = h.
Proof. destruct h; reflexivity. Qed.

Ltac lifted L := unfold lift_ow; intros [= <- Hr]; erewrite L; [apply with_ow_id|..]; try eassumption; try exact Hr.
Ltac chainF := repeat match goal with
  | |- (if ?b then R ?h ?e else _) = _ -> _ => destruct b; [intros [= <- _]; reflexivity|] end.

Theorem frame_step h o h' e : Inv h -> step all_fixed h o = (h', Raise e) -> h' = h.
Proof.
  intros (_ & _ & HD). destruct o; cbn [step].
  - unfold new_value. destruct (blank_value h v); intros [= <- ?]; try discriminate; reflexivity.
  - unfold new_node. chainF. discriminate.
  - unfold graph_new. destruct (negb (blank_graph h g)); [intros [= <- _]; reflexivity|]. cbn [all_fixed].
    destruct (graph_new_reject _ _ _ _ _); [intros [= <- _]; reflexivity|discriminate].
  - unfold g_append. destruct (node_check _ _ _); [discriminate|intros [= <- _]; reflexivity].
  - unfold g_extend. destruct (forallb _ _); [discriminate|intros [= <- _]; reflexivity].
  - unfold g_insert. destruct (_ && _); [discriminate|intros [= <- _]; reflexivity].
  - unfold g_insert. destruct (_ && _); [discriminate|intros [= <- _]; reflexivity].
  - destruct (ngraph (hng h) n); [|intros [= <- _]; reflexivity].
    unfold g_insert. destruct (_ && _); [discriminate|intros [= <- _]; reflexivity].
  - destruct (ngraph (hng h) n); [|intros [= <- _]; reflexivity].
    unfold g_insert. destruct (_ && _); [discriminate|intros [= <- _]; reflexivity].
  - unfold g_remove. destruct (forallb _ _); [discriminate|intros [= <- _]; reflexivity].
  - unfold g_sort. destruct out as [orders|]; [|intros [= <- _]; reflexivity].
    destruct (sort_valid h orders); [discriminate|intros [= <- _]; reflexivity].
  - unfold n_replace_input. destruct (_ || _)%bool; [intros [= <- _]; reflexivity|discriminate].
  - unfold n_resize_inputs. destruct (_ =? _)%Z; [discriminate|].
    destruct (_ <? _)%Z; [intros [= <- _]; reflexivity|]. destruct (_ <? _); discriminate.
  - unfold n_resize_outputs. destruct (_ =? _)%Z; [discriminate|].
    destruct (_ <? _)%Z; [destruct (forallb _ _)|destruct (_ && _)]; try discriminate; intros [= <- _]; reflexivity.
  - unfold v_replace_all_uses. destruct (flag KOut (how h) v); [|discriminate].
    destruct (vgraph (how h) v) as [g|]; [|intros [= <- _]; reflexivity].
    destruct (negb rgo); [intros [= <- _]; reflexivity|].
    pose proof (fr_rau (hp h) g v r (iol KOut (how h) g) e (how h) 0 ltac:(simpl; lia)) as Hfr.
    destruct (rau_outputs _ _ _ _ _ _ _ _) as [s' r']. destruct r'; [discriminate|].
    intros [= <- <-]. simpl in Hfr. rewrite Hfr by reflexivity. apply with_ow_id.
  - lifted fr_vset_name.
  - lifted fr_io_append.
  - lifted fr_io_extend.
  - lifted fr_io_insert.
  - lifted fr_io_pop.
  - lifted fr_io_remove.
  - unfold lift_ow, io_clear. discriminate.
  - lifted fr_io_setitem.
  - lifted fr_io_delitem.
  - lifted fr_io_setslice.
  - unfold lift_ow, io_delslice. cbn [all_fixed]. discriminate.
  - unfold lift_ow, io_imul. cbn [all_fixed]. intros [= <- _]. apply with_ow_id.
  - unfold lift_ow, io_reverse. discriminate.
  - lifted fr_init_setitem.
  - lifted fr_init_delitem.
  - lifted fr_init_delitem.
  - lifted fr_init_add.
  - unfold lift_ow, init_clear. discriminate.
  - lifted fr_init_popitem.
  - lifted fr_init_update.
  - lifted fr_init_setdefault.
  - unfold lift_ow, init_ior. intros [= <- _]. apply with_ow_id.
Qed.

(* Base/Exn.v — result type shared by all models: Python exceptions as an enum. *)
From Coq Require Import ZArith List Bool.
Import ListNotations.

Inductive exn : Type :=
| ValueError | TypeError | IndexError | KeyError | AssertionError
| RuntimeError | AttributeError | OSError | StopIteration | OtherError.

Definition exn_eqb (a b : exn) : bool :=
  match a, b with
  | ValueError, ValueError | TypeError, TypeError | IndexError, IndexError
  | KeyError, KeyError | AssertionError, AssertionError | RuntimeError, RuntimeError
  | AttributeError, AttributeError | OSError, OSError | StopIteration, StopIteration
  | OtherError, OtherError => true
  | _, _ => false
  end.

Lemma exn_eqb_eq a b : exn_eqb a b = true <-> a = b.
Proof. destruct a, b; simpl; split; intros H; try reflexivity; discriminate. Qed.

Inductive res (A : Type) : Type :=
| Ok (a : A)
| Raise (e : exn).
Arguments Ok {A} a.
Arguments Raise {A} e.

Definition res_bind {A B} (r : res A) (f : A -> res B) : res B :=
  match r with Ok a => f a | Raise e => Raise e end.

Definition is_ok {A} (r : res A) : bool := match r with Ok _ => true | Raise _ => false end.

(* Indices of list positions where a boolean check fails; used by the generated case files:
   the harness embeds the implementation's observation in each case and the model decides
   agreement inside Coq, so only indices have to be printed and parsed. *)
Fixpoint failing_from {A} (f : A -> bool) (l : list A) (i : nat) : list nat :=
  match l with
  | [] => []
  | x :: r => if f x then failing_from f r (S i) else i :: failing_from f r (S i)
  end.
Definition failing {A} (f : A -> bool) (l : list A) : list nat := failing_from f l 0.

Fixpoint list_eqb {A} (eqb : A -> A -> bool) (a b : list A) : bool :=
  match a, b with
  | [], [] => true
  | x :: a', y :: b' => eqb x y && list_eqb eqb a' b'
  | _, _ => false
  end.

Definition option_eqb {A} (eqb : A -> A -> bool) (a b : option A) : bool :=
  match a, b with
  | None, None => true
  | Some x, Some y => eqb x y
  | _, _ => false
  end.

Definition res_eqb {A} (eqb : A -> A -> bool) (a b : res A) : bool :=
  match a, b with
  | Ok x, Ok y => eqb x y
  | Raise e, Raise f => exn_eqb e f
  | _, _ => false
  end.

Lemma list_eqb_eq {A} (eqb : A -> A -> bool) :
  (forall x y, eqb x y = true <-> x = y) ->
  forall a b, list_eqb eqb a b = true <-> a = b.
Proof.
  intros H a. induction a as [|x a IH]; intros [|y b]; simpl; split; intros E;
    try reflexivity; try discriminate.
  - apply andb_prop in E. destruct E as [E1 E2]. apply H in E1. apply IH in E2. congruence.
  - inversion E; subst. apply andb_true_intro. split; [apply H; reflexivity | apply IH; reflexivity].
Qed.

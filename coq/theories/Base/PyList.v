(* Base/PyList.v — the three Python list operations used by translated accumulator loops
   (tools/translate_loops.py), as total Gallina functions over lists in natural order. *)
From Coq Require Import List Bool.
Import ListNotations.

Section PyList.
  Context {A : Type}.

  (* xs.append(x) *)
  Definition py_append {B : Type} (xs : list B) (x : B) : list B := xs ++ [x].

  (* bool(xss[-1]) ; the translated loops only evaluate it on a non-empty outer list *)
  Definition py_last_nonempty (xss : list (list A)) : bool :=
    match last xss [] with [] => false | _ :: _ => true end.

  (* xss[-1].append(x) *)
  Definition py_append_to_last (xss : list (list A)) (x : A) : list (list A) :=
    removelast xss ++ [last xss [] ++ [x]].

  Lemma py_last_nonempty_snoc (xss : list (list A)) (l : list A) :
    py_last_nonempty (xss ++ [l]) = match l with [] => false | _ => true end.
  Proof. unfold py_last_nonempty. rewrite last_last. destruct l; reflexivity. Qed.

  Lemma py_append_to_last_snoc (xss : list (list A)) (l : list A) (x : A) :
    py_append_to_last (xss ++ [l]) x = xss ++ [l ++ [x]].
  Proof. unfold py_append_to_last. rewrite last_last, removelast_last. reflexivity. Qed.
End PyList.

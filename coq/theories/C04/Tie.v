(* C04/Tie.v — the comparison run inside Coq by the generated case files: the harness embeds, for each
   generated representation, the raw inputs it was built from (as a `rep` term) and what the real
   implementation returned; `agree` evaluates the model on the same inputs.  Definitions only. *)
From Coq Require Import NArith ZArith List Bool Arith.
From IRV Require Import Base.Exn Gen.C04Gen C04.Model.
Import ListNotations.
Open Scope N_scope.

Definition nl_eqb := list_eqb N.eqb.
Definition dest_eqb (a b : dest) : bool := nl_eqb (d_content a) (d_content b) && Nat.eqb (d_pos a) (d_pos b).

Definition proto_eqb (a b : proto) : bool :=
  (p_dtype a =? p_dtype b) && nl_eqb (p_dims a) (p_dims b) && option_eqb nl_eqb (p_raw a) (p_raw b)
  && nl_eqb (p_float a) (p_float b) && list_eqb Z.eqb (p_int32 a) (p_int32 b)
  && list_eqb Z.eqb (p_int64 a) (p_int64 b) && nl_eqb (p_double a) (p_double b)
  && nl_eqb (p_uint64 a) (p_uint64 b).

Record case := {
  c_rep : rep;
  c_constructed : bool;            (* false: the constructor itself raised (recorded in c_numpy/c_tobytes) *)
  c_dtype : N;
  c_shape : list N;
  c_nbytes : res N;
  c_numpy : res (list N);
  c_tobytes : res (list N);
  c_tofile : list (dest * res dest);
  c_ser_inner : option rep;        (* Some r: c_rep must be RProto of `serialize r` *)
  c_logical : option (list N)      (* Some xs: well-formed case, observations must also meet the specification *)
}.

(* The model is schedule independent (Proofs: kernel_copy_any_schedule), so any environment will do. *)
Definition env0 : tofile_env := {| e_kernel := []; e_kmax := 1073741824; e_chunk := 1048576 |}.
Definition env1 : tofile_env := {| e_kernel := [3; 1; 100]; e_kmax := 1073741824; e_chunk := 5 |}.

(* only ExternalTensor.tofile depends on the copy schedule: evaluate the second schedule there *)
Fixpoint uses_copy_loop (r : rep) : bool :=
  match r with RExternal _ _ _ _ _ => true | RLazy _ _ i => uses_copy_loop i | _ => false end.

Definition spec_ok (c : case) : bool :=
  match c_logical c with
  | None => true
  | Some xs =>
      let dt := c_dtype c in
      match bitwidth dt with
      | None => false
      | Some bw =>
          res_eqb nl_eqb (c_tobytes c) (Ok (le_pack dt xs))
          && match c_numpy c with Ok st => nl_eqb (map (elem dt) st) xs | Raise _ => false end
          && res_eqb N.eqb (c_nbytes c) (Ok (N.of_nat (length (le_pack dt xs))))
          && forallb (fun dr => res_eqb dest_eqb (snd dr) (Ok (write (fst dr) (le_pack dt xs)))) (c_tofile c)
      end
  end.

Definition agree (c : case) : bool :=
  let r := c_rep c in
  (if c_constructed c then
     (r_dtype r =? c_dtype c) && nl_eqb (r_shape r) (c_shape c) && res_eqb N.eqb (r_nbytes r) (c_nbytes c)
   else true)
  && res_eqb nl_eqb (r_numpy r) (c_numpy c)
  && res_eqb nl_eqb (r_tobytes r) (c_tobytes c)
  && forallb (fun dr => res_eqb dest_eqb (r_tofile env0 r (fst dr)) (snd dr)
                        && (if uses_copy_loop r then res_eqb dest_eqb (r_tofile env1 r (fst dr)) (snd dr) else true))
             (c_tofile c)
  && match c_ser_inner c with
     | None => true
     | Some inner => match serialize inner, r with
                     | Ok p, RProto q => proto_eqb p q
                     | _, _ => false
                     end
     end
  && spec_ok c.

Definition mkcase r k dt sh nb np tb tf si lg : case :=
  {| c_rep := r; c_constructed := k; c_dtype := dt; c_shape := sh; c_nbytes := nb; c_numpy := np;
     c_tobytes := tb; c_tofile := tf; c_ser_inner := si; c_logical := lg |}.
Definition mkdest (c : list N) (p : N) : dest := {| d_content := c; d_pos := N.to_nat p |}.

(* string tensors *)
Record scase := { sc_rep : srep; sc_numpy : list (list N); sc_data : list (list N); sc_nbytes : N }.
Definition sagree (c : scase) : bool :=
  list_eqb nl_eqb (s_numpy (sc_rep c)) (sc_numpy c) && list_eqb nl_eqb (s_string_data (sc_rep c)) (sc_data c)
  && (s_nbytes (sc_rep c) =? sc_nbytes c).
Definition mkscase r a b c : scase := {| sc_rep := r; sc_numpy := a; sc_data := b; sc_nbytes := c |}.

(* long file prefixes are written by the harness with a fixed pattern (byte i = (a*i+b) mod 256); the case files
   name the pattern instead of spelling tens of thousands of bytes *)
Fixpoint pat_from (a b : N) (n : nat) (i : N) : list N :=
  match n with O => [] | S k => (a * i + b) mod 256 :: pat_from a b k (N.succ i) end.
Definition pat (a b len : N) : list N := pat_from a b (N.to_nat len) 0.

(* direct stream for the functions translated from _type_casting.py: (which, input bytes, prod dims, observed) *)
Definition tc_agree (c : N * list N * N * list N) : bool :=
  let '(k, data, n, out) := c in
  nl_eqb (if k =? 0 then pack_4bitx2 data else if k =? 1 then unpack_4bitx2 data (N.to_nat n)
          else if k =? 2 then pack_2bitx4 data else unpack_2bitx4 data (N.to_nat n)) out.
(* nbytes of a declared (never materialised) shape, float arithmetic included: (dtype, shape, observed) *)
Definition nb_agree (c : N * list N * N) : bool :=
  let '(dt, shape, obs) := c in
  match bitwidth dt with Some bw => nbytes_code bw (shape_size shape) =? obs | None => false end.

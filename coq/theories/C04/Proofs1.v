(* C04/Proofs1.v — bytes, little-endian codec, nibble/crumb packing. *)
From Coq Require Import NArith ZArith List Bool Arith Lia ZifyBool.
From IRV Require Import Base.Exn Gen.C04Gen C04.Model.
Import ListNotations.
Open Scope N_scope.
Ltac Zify.zify_post_hook ::= Z.to_euclidean_division_equations.

(* ------------------------------------------------------------------ finite sweeps *)

Definition range (k : nat) : list N := map N.of_nat (seq 0 k).

Lemma range_In k x : x < N.of_nat k -> In x (range k).
Proof.
  intros H. unfold range. apply in_map_iff. exists (N.to_nat x). split; [lia|].
  apply in_seq. lia.
Qed.

Lemma sweep1 (k : nat) (P : N -> bool) :
  forallb P (range k) = true -> forall x, x < N.of_nat k -> P x = true.
Proof. intros H x Hx. rewrite forallb_forall in H. apply H. apply range_In. exact Hx. Qed.

Lemma sweep2 (k : nat) (P : N -> N -> bool) :
  forallb (fun a => forallb (P a) (range k)) (range k) = true ->
  forall a b, a < N.of_nat k -> b < N.of_nat k -> P a b = true.
Proof.
  intros H a b Ha Hb. rewrite forallb_forall in H. specialize (H a (range_In _ _ Ha)).
  rewrite forallb_forall in H. apply H. apply range_In. exact Hb.
Qed.

Lemma sweep4 (k : nat) (P : N -> N -> N -> N -> bool) :
  forallb (fun a => forallb (fun b => forallb (fun c => forallb (P a b c) (range k)) (range k)) (range k)) (range k) = true ->
  forall a b c d, a < N.of_nat k -> b < N.of_nat k -> c < N.of_nat k -> d < N.of_nat k -> P a b c d = true.
Proof.
  intros H a b c d Ha Hb Hc Hd. rewrite forallb_forall in H. specialize (H a (range_In _ _ Ha)).
  rewrite forallb_forall in H. specialize (H b (range_In _ _ Hb)).
  rewrite forallb_forall in H. specialize (H c (range_In _ _ Hc)).
  rewrite forallb_forall in H. apply H. apply range_In. exact Hd.
Qed.

(* ------------------------------------------------------------------ list helpers *)

Lemma list_ind2 {A} (P : list A -> Prop) :
  P [] -> (forall a, P [a]) -> (forall a b r, P r -> P (a :: b :: r)) -> forall l, P l.
Proof.
  intros H0 H1 H2. fix IH 1. intros [|a [|b r]]; [exact H0 | apply H1 | apply H2, IH].
Qed.

Lemma list_ind4 {A} (P : list A -> Prop) :
  P [] -> (forall a, P [a]) -> (forall a b, P [a; b]) -> (forall a b c, P [a; b; c]) ->
  (forall a b c d r, P r -> P (a :: b :: c :: d :: r)) -> forall l, P l.
Proof.
  intros H0 H1 H2 H3 H4. fix IH 1.
  intros [|a [|b [|c [|d r]]]]; [exact H0 | apply H1 | apply H2 | apply H3 | apply H4, IH].
Qed.

Lemma resize_exact n l : length l = n -> resize n l = l.
Proof.
  intros <-. unfold resize. rewrite firstn_all, Nat.sub_diag. simpl. apply app_nil_r.
Qed.

Lemma resize_length n l : length (resize n l) = n.
Proof.
  unfold resize. rewrite app_length, firstn_length, repeat_length. lia.
Qed.

Lemma resize_le n l : (n <= length l)%nat -> resize n l = firstn n l.
Proof.
  intros H. unfold resize. replace (n - length l)%nat with 0%nat by lia. simpl. apply app_nil_r.
Qed.

Lemma resize_grow n l : (length l <= n)%nat -> resize n l = l ++ repeat 0 (n - length l).
Proof. intros H. unfold resize. rewrite firstn_all2 by exact H. reflexivity. Qed.

(* ------------------------------------------------------------------ little endian *)

Lemma le_encode_length nb x : length (le_encode nb x) = nb.
Proof. revert x. induction nb as [|k IH]; intros x; simpl; [reflexivity | rewrite IH; reflexivity]. Qed.

Lemma le_encode_bytes nb x : Forall (fun b => b < 256) (le_encode nb x).
Proof.
  revert x. induction nb as [|k IH]; intros x; simpl; constructor; [|apply IH].
  apply N.mod_lt. discriminate.
Qed.

Lemma le_decode_encode nb x : x < 256 ^ N.of_nat nb -> le_decode (le_encode nb x) = x.
Proof.
  revert x. induction nb as [|k IH]; intros x Hx.
  - simpl in *. lia.
  - cbn [le_encode le_decode]. rewrite IH.
    + pose proof (N.div_mod x 256). lia.
    + rewrite Nat2N.inj_succ, N.pow_succ_r' in Hx.
      apply N.div_lt_upper_bound; [discriminate | exact Hx].
Qed.

Lemma encode_elems_length nb xs : length (encode_elems nb xs) = (nb * length xs)%nat.
Proof.
  unfold encode_elems. induction xs as [|x r IH]; simpl; [lia|].
  rewrite app_length, le_encode_length, IH. lia.
Qed.

Lemma encode_elems_bytes nb xs : Forall (fun b => b < 256) (encode_elems nb xs).
Proof.
  unfold encode_elems. induction xs as [|x r IH]; simpl; [constructor|].
  apply Forall_app. split; [apply le_encode_bytes | exact IH].
Qed.

Lemma groups_encode fuel nb xs :
  (0 < nb)%nat -> (length xs <= fuel)%nat ->
  groups fuel nb (encode_elems nb xs) = map (le_encode nb) xs.
Proof.
  intros Hnb. revert fuel. induction xs as [|x r IH]; intros fuel Hf.
  - destruct fuel; reflexivity.
  - destruct fuel as [|f]; [simpl in Hf; lia|].
    cbn [encode_elems flat_map map]. cbn [groups].
    destruct (le_encode nb x ++ flat_map (le_encode nb) r) eqn:E.
    + apply (f_equal (@length N)) in E. rewrite app_length, le_encode_length in E. simpl in E. lia.
    + rewrite <- E. clear E.
      rewrite firstn_app, le_encode_length, Nat.sub_diag, firstn_O, app_nil_r.
      rewrite firstn_all2 by (rewrite le_encode_length; lia).
      rewrite skipn_app, le_encode_length, Nat.sub_diag, skipn_O.
      rewrite skipn_all2 by (rewrite le_encode_length; lia). simpl.
      f_equal. apply IH. simpl in Hf. lia.
Qed.

Lemma decode_encode_elems nb xs :
  (0 < nb)%nat -> Forall (fun x => x < 256 ^ N.of_nat nb) xs ->
  decode_elems nb (encode_elems nb xs) = xs.
Proof.
  intros Hnb Hr. unfold decode_elems. rewrite groups_encode; [| exact Hnb |].
  - rewrite map_map. induction Hr as [|x r Hx _ IH]; simpl; [reflexivity|].
    rewrite le_decode_encode by exact Hx. f_equal. exact IH.
  - rewrite encode_elems_length. nia.
Qed.

(* one-byte items: the codec is the identity on bytes *)
Lemma encode1_bytes bs : Forall (fun b => b < 256) bs -> encode_elems 1 bs = bs.
Proof.
  intros H. unfold encode_elems. induction H as [|b r Hb _ IH]; [reflexivity|].
  change (flat_map (le_encode 1) (b :: r)) with (le_encode 1 b ++ flat_map (le_encode 1) r).
  rewrite IH. cbn. f_equal. apply N.mod_small. exact Hb.
Qed.

Lemma decode1_bytes bs : Forall (fun b => b < 256) bs -> decode_elems 1 bs = bs.
Proof.
  intros H. rewrite <- (encode1_bytes bs H) at 1. apply decode_encode_elems; [lia|].
  simpl. exact H.
Qed.

(* splitting an encoding into a low and a high half (complex = re ++ im) *)
Lemma le_encode_split a b x :
  le_encode (a + b) x = le_encode a (x mod 256 ^ N.of_nat a) ++ le_encode b (x / 256 ^ N.of_nat a).
Proof.
  revert x. induction a as [|k IH]; intros x.
  - simpl. rewrite N.div_1_r. reflexivity.
  - cbn [Nat.add le_encode app]. rewrite IH. rewrite Nat2N.inj_succ, N.pow_succ_r'.
    assert (Hp : 256 ^ N.of_nat k <> 0) by (apply N.pow_nonzero; discriminate).
    set (p := 256 ^ N.of_nat k) in *.
    f_equal; [| f_equal].
    + rewrite N.mod_mul_r by (try discriminate; exact Hp).
      rewrite (N.mul_comm 256), N.mod_add by discriminate. rewrite N.mod_mod by discriminate. reflexivity.
    + f_equal. rewrite N.mod_mul_r by (try discriminate; exact Hp).
      rewrite (N.mul_comm 256), N.div_add by discriminate.
      rewrite (N.div_small (x mod 256) 256) by (apply N.mod_lt; discriminate). reflexivity.
    + f_equal. rewrite N.div_div by (try discriminate; exact Hp). reflexivity.
Qed.

(* ------------------------------------------------------------------ 4-bit packing *)

Lemma land15 x : N.land x 15 = x mod 16.
Proof. change 15 with (N.ones 4). rewrite N.land_ones. reflexivity. Qed.

Lemma land3 x : N.land x 3 = x mod 4.
Proof. change 3 with (N.ones 2). rewrite N.land_ones. reflexivity. Qed.

Lemma pack4_bits a b : a < 16 -> b < 16 -> N.lor a (u8 (N.shiftl b 4)) = a + 16 * b.
Proof.
  intros Ha Hb.
  assert (H : (N.lor a (u8 (N.shiftl b 4)) =? a + 16 * b) = true);
    [| apply N.eqb_eq in H; exact H].
  revert a b Ha Hb.
  apply (sweep2 16 (fun a b => N.lor a (u8 (N.shiftl b 4)) =? a + 16 * b)). vm_compute. reflexivity.
Qed.

Lemma unpack4_bits a b : a < 16 -> b < 16 ->
  N.land (a + 16 * b) 15 = a /\ N.shiftr (N.land (a + 16 * b) 240) 4 = b.
Proof.
  intros Ha Hb.
  assert (H : ((N.land (a + 16 * b) 15 =? a) && (N.shiftr (N.land (a + 16 * b) 240) 4 =? b)) = true).
  { revert a b Ha Hb.
    apply (sweep2 16 (fun a b => (N.land (a + 16 * b) 15 =? a) && (N.shiftr (N.land (a + 16 * b) 240) 4 =? b))).
    vm_compute. reflexivity. }
  apply andb_prop in H. destruct H as [H1 H2]. apply N.eqb_eq in H1, H2. split; assumption.
Qed.

Definition pad2 (l : list N) : list N := if Nat.odd (length l) then l ++ [0] else l.

Lemma pad2_step a b r : pad2 (a :: b :: r) = a :: b :: pad2 r.
Proof.
  unfold pad2. cbn [length]. rewrite Nat.odd_succ, Nat.even_succ. destruct (Nat.odd (length r)); reflexivity.
Qed.

Lemma pack4_flat store :
  (if Nat.odd (length store) then resize (S (length store)) store else store) = pad2 store.
Proof.
  unfold pad2. destruct (Nat.odd (length store)); [|reflexivity].
  rewrite resize_grow by lia. replace (S (length store) - length store)%nat with 1%nat by lia. reflexivity.
Qed.

(* pack_4bitx2_hand (numpy code) = arithmetic packing of the low nibbles of the storage bytes *)
Lemma pack4_correct_hand store : pack_4bitx2_hand store = spec_pack4 (map (fun s => s mod 16) store).
Proof.
  unfold pack_4bitx2_hand. rewrite pack4_flat.
  induction store as [| a | a b r IH] using list_ind2.
  - reflexivity.
  - change (pad2 [a]) with [a; 0]. cbn [map pack4_pairs spec_pack4]. rewrite land15. change (N.land 0 15) with 0.
    rewrite pack4_bits; [f_equal; lia | apply N.mod_lt; discriminate | lia].
  - rewrite pad2_step. cbn [map pack4_pairs spec_pack4]. rewrite IH, !land15.
    rewrite pack4_bits by (apply N.mod_lt; discriminate). reflexivity.
Qed.

Lemma spec_pack4_bytes xs : Forall (fun x => x < 16) xs -> Forall (fun b => b < 256) (spec_pack4 xs).
Proof.
  induction xs as [| a | a b r IH] using list_ind2; intros H.
  - constructor.
  - inversion H; subst. constructor; [lia | constructor].
  - inversion H as [|? ? Ha H']; subst. inversion H' as [|? ? Hb H'']; subst.
    cbn [spec_pack4]. constructor; [lia | apply IH; exact H''].
Qed.

Lemma unpack4_raw xs : Forall (fun x => x < 16) xs ->
  flat_map (fun d => [N.land d 15; N.shiftr (N.land d 240) 4]) (spec_pack4 xs) = pad2 xs.
Proof.
  induction xs as [| a | a b r IH] using list_ind2; intros H.
  - reflexivity.
  - inversion H; subst. cbn [spec_pack4 flat_map app]. unfold pad2. simpl length. cbn [Nat.odd Nat.even negb app].
    destruct (unpack4_bits a 0) as [E1 E2]; [assumption | lia |].
    rewrite N.mul_0_r, N.add_0_r in E1, E2. rewrite E1, E2. reflexivity.
  - inversion H as [|? ? Ha H']; subst. inversion H' as [|? ? Hb H'']; subst.
    rewrite pad2_step. cbn [spec_pack4 flat_map app]. rewrite IH by exact H''.
    destruct (unpack4_bits a b Ha Hb) as [E1 E2]. rewrite E1, E2. reflexivity.
Qed.

Lemma unpack4_correct_hand xs : Forall (fun x => x < 16) xs -> unpack_4bitx2_hand (spec_pack4 xs) (length xs) = xs.
Proof.
  intros H. unfold unpack_4bitx2_hand. rewrite unpack4_raw by exact H. unfold pad2.
  destruct (Nat.odd (length xs)) eqn:E.
  - rewrite app_length. simpl length. replace (length xs + 1)%nat with (S (length xs)) by lia.
    rewrite Nat.eqb_refl, removelast_last. apply resize_exact. reflexivity.
  - destruct (Nat.eqb (length xs) (S (length xs))) eqn:E2; [apply Nat.eqb_eq in E2; lia|].
    apply resize_exact. reflexivity.
Qed.

Lemma spec_pack4_length xs : N.of_nat (length (spec_pack4 xs)) = (N.of_nat (length xs) * 4 + 7) / 8.
Proof.
  induction xs as [| a | a b r IH] using list_ind2.
  - reflexivity.
  - reflexivity.
  - cbn [spec_pack4 length]. rewrite !Nat2N.inj_succ, IH.
    replace (N.succ (N.succ (N.of_nat (length r))) * 4 + 7) with (1 * 8 + (N.of_nat (length r) * 4 + 7)) by lia.
    rewrite N.div_add_l by discriminate. lia.
Qed.

(* ------------------------------------------------------------------ 2-bit packing *)

Lemma pack2_bits a b c d : a < 4 -> b < 4 -> c < 4 -> d < 4 ->
  N.lor (N.lor (N.lor a (u8 (N.shiftl b 2))) (u8 (N.shiftl c 4))) (u8 (N.shiftl d 6)) = a + 4 * b + 16 * c + 64 * d.
Proof.
  intros Ha Hb Hc Hd.
  assert (H : (N.lor (N.lor (N.lor a (u8 (N.shiftl b 2))) (u8 (N.shiftl c 4))) (u8 (N.shiftl d 6))
               =? a + 4 * b + 16 * c + 64 * d) = true); [| apply N.eqb_eq in H; exact H].
  revert a b c d Ha Hb Hc Hd.
  apply (sweep4 4 (fun a b c d =>
    N.lor (N.lor (N.lor a (u8 (N.shiftl b 2))) (u8 (N.shiftl c 4))) (u8 (N.shiftl d 6)) =? a + 4 * b + 16 * c + 64 * d)).
  vm_compute. reflexivity.
Qed.

Definition crumbs (d : N) : list N :=
  [N.land d 3; N.shiftr (N.land d 12) 2; N.shiftr (N.land d 48) 4; N.shiftr (N.land d 192) 6].

Lemma unpack2_bits a b c d : a < 4 -> b < 4 -> c < 4 -> d < 4 ->
  crumbs (a + 4 * b + 16 * c + 64 * d) = [a; b; c; d].
Proof.
  intros Ha Hb Hc Hd.
  assert (H : list_eqb N.eqb (crumbs (a + 4 * b + 16 * c + 64 * d)) [a; b; c; d] = true).
  { revert a b c d Ha Hb Hc Hd.
    apply (sweep4 4 (fun a b c d => list_eqb N.eqb (crumbs (a + 4 * b + 16 * c + 64 * d)) [a; b; c; d])).
    vm_compute. reflexivity. }
  apply (list_eqb_eq N.eqb N.eqb_eq) in H. exact H.
Qed.

Definition pad4 (l : list N) : list N := l ++ repeat 0 ((4 - length l mod 4) mod 4)%nat.

Lemma pad4_step a b c d r : pad4 (a :: b :: c :: d :: r) = a :: b :: c :: d :: pad4 r.
Proof.
  unfold pad4. cbn [length app].
  replace (S (S (S (S (length r)))) mod 4)%nat with (length r mod 4)%nat; [reflexivity|].
  replace (S (S (S (S (length r))))) with (length r + 1 * 4)%nat by lia.
  rewrite Nat.mod_add by discriminate. reflexivity.
Qed.

Lemma pack2_flat store :
  (let size := length store in
   let padding := ((4 - size mod 4) mod 4)%nat in
   if Nat.ltb 0 padding then resize (size + padding) store else store) = pad4 store.
Proof.
  cbv zeta. unfold pad4. destruct (Nat.ltb 0 ((4 - length store mod 4) mod 4)) eqn:E.
  - rewrite resize_grow by lia. f_equal. f_equal. lia.
  - apply Nat.ltb_ge in E. replace ((4 - length store mod 4) mod 4)%nat with 0%nat by lia.
    simpl. rewrite app_nil_r. reflexivity.
Qed.

Lemma pack2_correct_hand store : pack_2bitx4_hand store = spec_pack2 (map (fun s => s mod 4) store).
Proof.
  unfold pack_2bitx4_hand. rewrite pack2_flat.
  induction store as [| a | a b | a b c | a b c d r IH] using list_ind4.
  - reflexivity.
  - change (pad4 [a]) with [a; 0; 0; 0]. cbn [map pack2_quads spec_pack2]. rewrite land3. change (N.land 0 3) with 0.
    rewrite (pack2_bits (a mod 4) 0 0 0) by (try apply N.mod_lt; try discriminate; lia). f_equal. lia.
  - change (pad4 [a; b]) with [a; b; 0; 0]. cbn [map pack2_quads spec_pack2]. change (N.land 0 3) with 0. rewrite !land3.
    rewrite (pack2_bits (a mod 4) (b mod 4) 0 0) by (try apply N.mod_lt; try discriminate; lia). f_equal. lia.
  - change (pad4 [a; b; c]) with [a; b; c; 0]. cbn [map pack2_quads spec_pack2]. change (N.land 0 3) with 0. rewrite !land3.
    rewrite (pack2_bits (a mod 4) (b mod 4) (c mod 4) 0) by (try apply N.mod_lt; try discriminate; lia). f_equal. lia.
  - rewrite pad4_step. cbn [map pack2_quads spec_pack2]. rewrite IH, !land3.
    rewrite pack2_bits by (apply N.mod_lt; discriminate). reflexivity.
Qed.

Lemma spec_pack2_bytes xs : Forall (fun x => x < 4) xs -> Forall (fun b => b < 256) (spec_pack2 xs).
Proof.
  induction xs as [| a | a b | a b c | a b c d r IH] using list_ind4; intros H.
  - constructor.
  - inversion H; subst. constructor; [lia | constructor].
  - inversion H as [|? ? Ha H']; subst. inversion H'; subst. constructor; [lia | constructor].
  - inversion H as [|? ? Ha H']; subst. inversion H' as [|? ? Hb H'']; subst. inversion H''; subst.
    constructor; [lia | constructor].
  - inversion H as [|? ? Ha H1]; subst. inversion H1 as [|? ? Hb H2]; subst.
    inversion H2 as [|? ? Hc H3]; subst. inversion H3 as [|? ? Hd H4]; subst.
    cbn [spec_pack2]. constructor; [lia | apply IH; exact H4].
Qed.

Lemma unpack2_raw xs : Forall (fun x => x < 4) xs -> flat_map crumbs (spec_pack2 xs) = pad4 xs.
Proof.
  induction xs as [| a | a b | a b c | a b c d r IH] using list_ind4; intros H.
  - reflexivity.
  - inversion H; subst. cbn [spec_pack2 flat_map app].
    replace a with (a + 4 * 0 + 16 * 0 + 64 * 0) at 1 by lia. rewrite unpack2_bits by (assumption || lia). reflexivity.
  - inversion H as [|? ? Ha H']; subst. inversion H' as [|? ? Hb ?]; subst. cbn [spec_pack2 flat_map app].
    replace (a + 4 * b) with (a + 4 * b + 16 * 0 + 64 * 0) by lia. rewrite unpack2_bits by (assumption || lia). reflexivity.
  - inversion H as [|? ? Ha H']; subst. inversion H' as [|? ? Hb H'']; subst. inversion H'' as [|? ? Hc ?]; subst.
    cbn [spec_pack2 flat_map app].
    replace (a + 4 * b + 16 * c) with (a + 4 * b + 16 * c + 64 * 0) by lia.
    rewrite unpack2_bits by (assumption || lia). reflexivity.
  - inversion H as [|? ? Ha H1]; subst. inversion H1 as [|? ? Hb H2]; subst.
    inversion H2 as [|? ? Hc H3]; subst. inversion H3 as [|? ? Hd H4]; subst.
    rewrite pad4_step. cbn [spec_pack2 flat_map]. rewrite IH by exact H4.
    rewrite unpack2_bits by assumption. reflexivity.
Qed.

Lemma unpack2_correct_hand xs : Forall (fun x => x < 4) xs -> unpack_2bitx4_hand (spec_pack2 xs) (length xs) = xs.
Proof.
  intros H. unfold unpack_2bitx4_hand. fold crumbs. change (fun d : N => crumbs d) with crumbs.
  rewrite unpack2_raw by exact H. unfold pad4.
  set (k := ((4 - length xs mod 4) mod 4)%nat).
  rewrite app_length, repeat_length.
  destruct (Nat.ltb (length xs) (length xs + k)) eqn:E.
  - rewrite firstn_app, Nat.sub_diag, firstn_O, app_nil_r, firstn_all. apply resize_exact. reflexivity.
  - apply Nat.ltb_ge in E. assert (k = 0)%nat by lia. rewrite H0. simpl. rewrite app_nil_r.
    apply resize_exact. reflexivity.
Qed.

Lemma spec_pack2_length xs : N.of_nat (length (spec_pack2 xs)) = (N.of_nat (length xs) * 2 + 7) / 8.
Proof.
  induction xs as [| a | a b | a b c | a b c d r IH] using list_ind4; try reflexivity.
  cbn [spec_pack2 length]. rewrite !Nat2N.inj_succ, IH.
  replace (N.succ (N.succ (N.succ (N.succ (N.of_nat (length r))))) * 2 + 7)
    with (1 * 8 + (N.of_nat (length r) * 2 + 7)) by lia.
  rewrite N.div_add_l by discriminate. lia.
Qed.

(* ------------------------------------------------------------------ C04_pack_unpack *)

Lemma pack_unpack4_hand xs :
  unpack_4bitx2_hand (pack_4bitx2_hand xs) (length xs) = map (fun x => x mod 16) xs.
Proof.
  rewrite pack4_correct_hand. rewrite <- (map_length (fun x => x mod 16) xs) at 1.
  apply unpack4_correct_hand. apply Forall_forall. intros y Hy. apply in_map_iff in Hy.
  destruct Hy as [x [<- _]]. apply N.mod_lt. discriminate.
Qed.

Lemma pack_unpack2_hand xs :
  unpack_2bitx4_hand (pack_2bitx4_hand xs) (length xs) = map (fun x => x mod 4) xs.
Proof.
  rewrite pack2_correct_hand. rewrite <- (map_length (fun x => x mod 4) xs) at 1.
  apply unpack2_correct_hand. apply Forall_forall. intros y Hy. apply in_map_iff in Hy.
  destruct Hy as [x [<- _]]. apply N.mod_lt. discriminate.
Qed.

Lemma map_mod_small k xs : Forall (fun x => x < k) xs -> map (fun x => x mod k) xs = xs.
Proof.
  intros H. induction H as [|x r Hx _ IH]; simpl; [reflexivity|]. rewrite IH, N.mod_small by exact Hx. reflexivity.
Qed.

(* bytes whose padding bits are zero are exactly the images of in-range element lists *)
Lemma unpack_pack4_hand xs : Forall (fun x => x < 16) xs ->
  pack_4bitx2_hand (unpack_4bitx2_hand (spec_pack4 xs) (length xs)) = spec_pack4 xs.
Proof.
  intros H. rewrite unpack4_correct_hand by exact H. rewrite pack4_correct_hand, map_mod_small by exact H. reflexivity.
Qed.

Lemma unpack_pack2_hand xs : Forall (fun x => x < 4) xs ->
  pack_2bitx4_hand (unpack_2bitx4_hand (spec_pack2 xs) (length xs)) = spec_pack2 xs.
Proof.
  intros H. rewrite unpack2_correct_hand by exact H. rewrite pack2_correct_hand, map_mod_small by exact H. reflexivity.
Qed.

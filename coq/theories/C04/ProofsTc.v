(* C04/ProofsTc.v — the functions translated from _type_casting.py (Gen/C04Gen.v, strided numpy operations of
   C04/Np.v) compute, for EVERY input, the pair/quad-recursion forms of Model.v; hence all the packing theorems
   of Proofs1.v hold for the translated code.  A change of a mask, shift, stride, padding formula or truncation
   rule in the source changes Gen/C04Gen.v and breaks these proofs. *)
From Coq Require Import NArith ZArith List Bool Arith Lia.
From IRV Require Import Base.Exn C04.Np Gen.C04Gen C04.Model C04.Proofs1.
Import ListNotations.
Open Scope N_scope.

Ltac np := cbn [map np_upd_aux np_stride_aux np_set_aux np_or Nat.sub].

(* ------------------------------------------------------------------ 4-bit *)

Definition f4 := (fun x : N => np_u8 (N.shiftl x 4)).

Lemma tc_pairs l :
  np_or (np_stride_aux 0 2 (np_upd_aux f4 1 2 l)) (np_stride_aux 1 2 (np_upd_aux f4 1 2 l)) = pack4_pairs l.
Proof.
  induction l as [| a | a b r IH] using list_ind2; [reflexivity | reflexivity |].
  np. rewrite IH. reflexivity.
Qed.

Lemma tc_flat2 l :
  (if Nat.eqb (length l mod 2) 1 then np_resize l (length l + 1) else l) = pad2 l.
Proof.
  induction l as [| a | a b r IH] using list_ind2; [reflexivity | reflexivity |].
  rewrite pad2_step, <- IH. cbn [length].
  replace (S (S (length r)) mod 2)%nat with (length r mod 2)%nat.
  2:{ replace (S (S (length r))) with (length r + 1 * 2)%nat by lia. rewrite Nat.mod_add by discriminate. reflexivity. }
  destruct (Nat.eqb (length r mod 2) 1); [|reflexivity].
  unfold np_resize. replace (S (S (length r)) + 1)%nat with (S (S (length r + 1))) by lia.
  cbn [firstn length Nat.sub app]. reflexivity.
Qed.

Lemma tc_pack4_hand store : pack_4bitx2 store = pack_4bitx2_hand store.
Proof.
  unfold pack_4bitx2, tc_pack_4bitx2, pack_4bitx2_hand, np_size, np_stride, np_upd_stride.
  rewrite tc_flat2, pack4_flat. apply tc_pairs.
Qed.

Lemma tc_interleave2 data :
  np_set_aux 1 2 (np_set_aux 0 2 (np_empty (length data * 2)) (np_and_s data 15))
             (map (fun x => N.shiftr x 4) (np_and_s data 240))
  = flat_map (fun d => [N.land d 15; N.shiftr (N.land d 240) 4]) data.
Proof.
  unfold np_empty, np_and_s. induction data as [|d r IH]; [reflexivity|].
  cbn [length Nat.mul Nat.add repeat map flat_map app]. np. rewrite IH. reflexivity.
Qed.

Lemma tc_unpack4_hand data n : unpack_4bitx2 data n = unpack_4bitx2_hand data n.
Proof.
  unfold unpack_4bitx2, tc_unpack_4bitx2, unpack_4bitx2_hand, np_size, np_set_stride, np_drop_last.
  rewrite tc_interleave2, Nat.add_1_r. reflexivity.
Qed.

(* ------------------------------------------------------------------ 2-bit *)

Definition g2 := (fun x : N => np_u8 (N.shiftl x 2)).
Definition g4 := (fun x : N => np_u8 (N.shiftl x 4)).
Definition g6 := (fun x : N => np_u8 (N.shiftl x 6)).

Lemma tc_quads l :
  let u := np_upd_aux g6 3 4 (np_upd_aux g4 2 4 (np_upd_aux g2 1 4 l)) in
  np_or (np_or (np_or (np_stride_aux 0 4 u) (np_stride_aux 1 4 u)) (np_stride_aux 2 4 u)) (np_stride_aux 3 4 u)
  = pack2_quads l.
Proof.
  cbv zeta. induction l as [| a | a b | a b c | a b c d r IH] using list_ind4; try reflexivity.
  np. rewrite IH. reflexivity.
Qed.

Lemma tc_pack2_hand store : pack_2bitx4 store = pack_2bitx4_hand store.
Proof.
  unfold pack_2bitx4, tc_pack_2bitx4, pack_2bitx4_hand, np_size, np_stride, np_upd_stride.
  cbv zeta. apply tc_quads.
Qed.

Lemma tc_interleave4 data :
  np_set_aux 3 4 (np_set_aux 2 4 (np_set_aux 1 4 (np_set_aux 0 4 (np_empty (length data * 4)) (np_and_s data 3))
    (np_shr_s (np_and_s data 12) 2)) (np_shr_s (np_and_s data 48) 4)) (np_shr_s (np_and_s data 192) 6)
  = flat_map (fun d => [N.land d 3; N.shiftr (N.land d 12) 2; N.shiftr (N.land d 48) 4; N.shiftr (N.land d 192) 6]) data.
Proof.
  unfold np_empty, np_and_s, np_shr_s. induction data as [|d r IH]; [reflexivity|].
  cbn [length Nat.mul Nat.add repeat map flat_map app]. np. rewrite IH. reflexivity.
Qed.

Lemma tc_unpack2_hand data n : unpack_2bitx4 data n = unpack_2bitx4_hand data n.
Proof.
  unfold unpack_2bitx4, tc_unpack_2bitx4, unpack_2bitx4_hand, np_size, np_set_stride, np_take.
  rewrite tc_interleave4. reflexivity.
Qed.

(* ------------------------------------------------------------------ the packing lemmas, for the translated code *)

Lemma pack4_correct store : pack_4bitx2 store = spec_pack4 (map (fun s => s mod 16) store).
Proof. rewrite tc_pack4_hand. apply pack4_correct_hand. Qed.
Lemma pack2_correct store : pack_2bitx4 store = spec_pack2 (map (fun s => s mod 4) store).
Proof. rewrite tc_pack2_hand. apply pack2_correct_hand. Qed.
Lemma unpack4_correct xs : Forall (fun x => x < 16) xs -> unpack_4bitx2 (spec_pack4 xs) (length xs) = xs.
Proof. rewrite tc_unpack4_hand. apply unpack4_correct_hand. Qed.
Lemma unpack2_correct xs : Forall (fun x => x < 4) xs -> unpack_2bitx4 (spec_pack2 xs) (length xs) = xs.
Proof. rewrite tc_unpack2_hand. apply unpack2_correct_hand. Qed.
Lemma pack_unpack4 xs : unpack_4bitx2 (pack_4bitx2 xs) (length xs) = map (fun x => x mod 16) xs.
Proof. rewrite tc_unpack4_hand, tc_pack4_hand. apply pack_unpack4_hand. Qed.
Lemma pack_unpack2 xs : unpack_2bitx4 (pack_2bitx4 xs) (length xs) = map (fun x => x mod 4) xs.
Proof. rewrite tc_unpack2_hand, tc_pack2_hand. apply pack_unpack2_hand. Qed.
Lemma unpack_pack4 xs : Forall (fun x => x < 16) xs ->
  pack_4bitx2 (unpack_4bitx2 (spec_pack4 xs) (length xs)) = spec_pack4 xs.
Proof. rewrite tc_unpack4_hand, tc_pack4_hand. apply unpack_pack4_hand. Qed.
Lemma unpack_pack2 xs : Forall (fun x => x < 4) xs ->
  pack_2bitx4 (unpack_2bitx4 (spec_pack2 xs) (length xs)) = spec_pack2 xs.
Proof. rewrite tc_unpack2_hand, tc_pack2_hand. apply unpack_pack2_hand. Qed.

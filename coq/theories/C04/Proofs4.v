(* C04/Proofs4.v — destinations, external files at any offset, copy schedules, and the main theorems by
   induction on `represents`. *)
From Coq Require Import NArith ZArith List Bool Arith Lia ZifyBool.
From IRV Require Import Base.Exn Gen.C04Gen C04.Model C04.Proofs1 C04.ProofsTc C04.Proofs2 C04.Proofs3.
Import ListNotations.
Open Scope N_scope.
Ltac Zify.zify_post_hook ::= Z.to_euclidean_division_equations.

(* ------------------------------------------------------------------ lists *)

Lemma firstn_add {A} a b (l : list A) : firstn (a + b) l = firstn a l ++ firstn b (skipn a l).
Proof.
  revert l. induction a as [|a IH]; intros l; [reflexivity|].
  destruct l as [|x l]; [simpl; rewrite firstn_nil; reflexivity|]. simpl. rewrite IH. reflexivity.
Qed.

Lemma skipn_add {A} a b (l : list A) : skipn b (skipn a l) = skipn (a + b) l.
Proof.
  revert l. induction a as [|a IH]; intros l; [reflexivity|].
  destruct l as [|x l]; [simpl; rewrite skipn_nil; reflexivity|]. simpl. apply IH.
Qed.

Lemma slice_mid {A} (pre data post : list A) k :
  k = length data -> firstn k (skipn (length pre) (pre ++ data ++ post)) = data.
Proof.
  intros ->. rewrite skipn_app, Nat.sub_diag, skipn_all, skipn_O. simpl.
  rewrite firstn_app, Nat.sub_diag, firstn_O, firstn_all, app_nil_r. reflexivity.
Qed.

(* ------------------------------------------------------------------ destinations *)

Lemma write_nil d : write d [] = d.
Proof. reflexivity. Qed.

Lemma write_ne d bs : bs <> [] ->
  write d bs = {| d_content := resize (d_pos d) (d_content d) ++ bs ++ skipn (d_pos d + length bs) (d_content d);
                  d_pos := d_pos d + length bs |}.
Proof. destruct bs; [intros H; contradiction H; reflexivity | reflexivity]. Qed.

Lemma write_app d a b : write (write d a) b = write d (a ++ b).
Proof.
  destruct (nil_or_not a) as [-> | Ha]; [reflexivity|].
  destruct (nil_or_not b) as [-> | Hb]; [rewrite app_nil_r; reflexivity|].
  assert (Hab : a ++ b <> []) by (destruct a; [contradiction Ha; reflexivity | discriminate]).
  destruct d as [c p]. rewrite (write_ne _ a Ha), (write_ne _ b Hb), (write_ne _ (a ++ b) Hab).
  cbn [d_content d_pos].
  f_equal; [| rewrite app_length; lia].
  assert (LA : length (resize p c) = p) by apply resize_length.
  set (X := resize p c) in *.
  assert (E1 : resize (p + length a) (X ++ a ++ skipn (p + length a) c) = X ++ a).
  { rewrite app_assoc. rewrite resize_le by (rewrite !app_length; lia).
    rewrite firstn_app. rewrite app_length, LA. replace (p + length a - (p + length a))%nat with 0%nat by lia.
    rewrite firstn_O, app_nil_r. apply firstn_all2. rewrite app_length. lia. }
  rewrite E1. rewrite <- !app_assoc. f_equal. f_equal. f_equal.
  rewrite app_assoc. rewrite skipn_app. rewrite app_length, LA.
  rewrite skipn_all2 by (rewrite app_length; lia). simpl.
  replace (p + length a + length b - (p + length a))%nat with (length b) by lia.
  rewrite skipn_add. rewrite app_length. f_equal. lia.
Qed.

(* ------------------------------------------------------------------ copy schedules *)

Lemma firstn_nil_inv {A} k (l : list A) : firstn k l = [] -> k = 0%nat \/ l = [].
Proof. destruct k; [left; reflexivity|]. destruct l; [right; reflexivity | discriminate]. Qed.

(* whatever the kernel decides to copy per call (and however early the phase ends), phase 1 has copied a
   prefix of the requested bytes *)
Lemma kernel_phase_spec ks kmax : forall src togo d,
  togo <= N.of_nat (length src) ->
  exists c, (c <= N.to_nat togo)%nat /\
    kernel_phase ks kmax src togo d = (skipn c src, togo - N.of_nat c, write d (firstn c src)).
Proof.
  induction ks as [|k ks IH]; intros src togo d Hs.
  - exists 0%nat. split; [lia|]. cbn. rewrite N.sub_0_r. reflexivity.
  - cbn [kernel_phase]. destruct (togo =? 0) eqn:E0.
    + exists 0%nat. split; [lia|]. cbn. rewrite N.sub_0_r. reflexivity.
    + set (m := N.to_nat (N.min k (N.min kmax togo))).
      destruct (firstn m src) as [|x c0] eqn:Ec.
      * exists 0%nat. split; [lia|]. cbn. rewrite N.sub_0_r. reflexivity.
      * rewrite <- Ec. set (c := firstn m src) in *.
        assert (Lc : (length c <= m)%nat) by (unfold c; rewrite firstn_length; lia).
        assert (Lm : (m <= N.to_nat togo)%nat) by (unfold m; lia).
        assert (Fc : firstn (length c) src = c).
        { unfold c. rewrite firstn_length. destruct (Nat.min_spec m (length src)) as [[? ->] | [? ->]];
            [reflexivity | rewrite firstn_all; symmetry; apply firstn_all2; lia]. }
        destruct (IH (skipn (length c) src) (togo - N.of_nat (length c)) (write d c)) as [c' [Hc' E]].
        { rewrite skipn_length. lia. }
        exists (length c + c')%nat. split; [lia|].
        rewrite E. rewrite skipn_add, write_app. f_equal; [f_equal; lia|].
        f_equal. rewrite firstn_add, Fc. reflexivity.
Qed.

Lemma copy_loop_spec chunk : 0 < chunk -> forall fuel src togo d,
  togo <= N.of_nat (length src) -> (N.to_nat togo <= fuel)%nat ->
  copy_loop fuel chunk src togo d = Ok (write d (firstn (N.to_nat togo) src)).
Proof.
  intros Hc. induction fuel as [|f IH]; intros src togo d Hs Hf.
  - assert (togo = 0) by lia. subst. reflexivity.
  - cbn [copy_loop]. destruct (togo =? 0) eqn:E0.
    + apply N.eqb_eq in E0. subst. reflexivity.
    + apply N.eqb_neq in E0.
      set (m := N.to_nat (N.min chunk togo)).
      assert (Hm : (1 <= m <= N.to_nat togo)%nat) by (unfold m; lia).
      assert (Lc : length (firstn m src) = m) by (rewrite firstn_length; lia).
      destruct (firstn m src) as [|x c0] eqn:Ec; [simpl in Lc; lia|].
      rewrite <- Ec in *. set (c := firstn m src) in *.
      rewrite IH; [| rewrite skipn_length; lia | lia].
      rewrite write_app. f_equal. f_equal. rewrite Lc.
      replace (N.to_nat (togo - N.of_nat m)) with (N.to_nat togo - m)%nat by lia.
      unfold c. rewrite <- firstn_add. f_equal. lia.
Qed.

(* ------------------------------------------------------------------ external tensors at any offset *)

Lemma or_else_nbytes len nb : len = None \/ len = Some nb -> or_else len nb = nb.
Proof. intros [-> | ->]; unfold or_else; [reflexivity|]. destruct (nb =? 0); reflexivity. Qed.

Section External.
  Variables (dt bw : N) (shape xs pre post : list N) (len : option N).
  Hypothesis H : bitwidth dt = Some bw.
  Hypothesis R : in_range bw xs.
  Hypothesis L : length xs = nsize shape.
  Hypothesis HL : len = None \/ len = Some (nbytes_bw bw (shape_size shape)).

  Let data := le_pack dt xs.
  Let file := pre ++ data ++ post.

  Lemma ext_data_len : N.of_nat (length data) = nbytes_bw bw (shape_size shape).
  Proof using H L. unfold data. rewrite (le_pack_length dt bw xs H), (size_of_logical shape xs L). reflexivity. Qed.

  Lemma ext_data_nonempty : xs <> [] -> (0 < length data)%nat.
  Proof using H L pre post.
    intros Hne. unfold data. destruct (le_pack dt xs) eqn:E2.
    - exfalso. apply Hne. apply (le_pack_empty dt bw xs H E2).
    - simpl. lia.
  Qed.

  Lemma ext_load_ok off : or0 off = N.of_nat (length pre) -> ext_load dt shape file off = Ok xs.
  Proof using H R L HL.
    intros Hoff. unfold ext_load. rewrite H, (nbytes_code_exact bw _), <- L.
    destruct (nil_or_not xs) as [E | Hne]; [rewrite E; reflexivity|].
    assert (Lx : (0 < length xs)%nat) by (destruct xs; [contradiction Hne; reflexivity | simpl; lia]).
    pose proof (ext_data_nonempty Hne) as Ld. pose proof ext_data_len as Dl.
    assert (Lf : length file = (length pre + length data + length post)%nat) by (unfold file; rewrite !app_length; lia).
    replace (Nat.eqb (length xs) 0) with false by (symmetry; apply Nat.eqb_neq; lia).
    replace (Nat.eqb (length file) 0) with false by (symmetry; apply Nat.eqb_neq; lia).
    rewrite Hoff, Nat2N.id. rewrite (f_subbyte dt bw H).
    destruct (unpack_le_pack dt bw xs H R) as [U4 U2]. fold data in U4, U2.
    destruct (bw <? 8) eqn:E8.
    - apply N.ltb_lt in E8.
      assert (Cn : N.to_nat (nbytes_bw bw (shape_size shape)) = length data) by lia.
      rewrite Cn, Nat.mul_1_r.
      replace (Nat.ltb (length file) (length pre)) with false by (symmetry; apply Nat.ltb_ge; lia).
      replace (Nat.ltb (length file - length pre) (length data)) with false by (symmetry; apply Nat.ltb_ge; lia).
      unfold file. rewrite slice_mid by reflexivity.
      rewrite decode1_bytes by (apply (le_pack_bytes dt bw xs H R)).
      destruct (sub_of dt bw H E8) as [-> | ->]; numcmp; [rewrite (U2 eq_refl) | rewrite (U4 eq_refl)]; reflexivity.
    - pose proof (whole_of dt bw H E8) as W. destruct (whole_byte bw W) as [Hpos [_ [E4 [E2 _]]]].
      assert (Dw : data = encode_elems (itemsize_of bw) xs) by (unfold data; apply (le_pack_whole dt bw xs H W)).
      assert (Ln : length data = (length xs * itemsize_of bw)%nat) by (rewrite Dw, encode_elems_length; lia).
      replace (Nat.max 1 (itemsize_of bw)) with (itemsize_of bw) by lia.
      replace (Nat.ltb (length file) (length pre)) with false by (symmetry; apply Nat.ltb_ge; lia).
      replace (Nat.ltb (length file - length pre) (length xs * itemsize_of bw)) with false by (symmetry; apply Nat.ltb_ge; lia).
      unfold file. rewrite slice_mid by (symmetry; exact Ln). rewrite E4, E2.
      rewrite Dw, decode_encode_elems by (try exact Hpos; apply in_range_bytes; assumption).
      apply reshape_ok. reflexivity.
  Qed.

  Lemma ext_tobytes_ok off : or0 off = N.of_nat (length pre) -> ext_tobytes dt shape file off len = Ok data.
  Proof using H R L HL.
    intros Hoff. unfold ext_tobytes. rewrite H, (nbytes_code_exact bw _), <- L.
    destruct (nil_or_not xs) as [E | Hne].
    - unfold data. rewrite E, le_pack_nil. reflexivity.
    - assert (Lx : (0 < length xs)%nat) by (destruct xs; [contradiction Hne; reflexivity | simpl; lia]).
      replace (Nat.eqb (length xs) 0) with false by (symmetry; apply Nat.eqb_neq; lia).
      rewrite (ext_load_ok off Hoff). cbn [res_bind].
      rewrite (or_else_nbytes len _ HL), <- ext_data_len, Hoff, !Nat2N.id.
      unfold file. rewrite slice_mid by reflexivity. reflexivity.
  Qed.

  Lemma ext_tofile_ok off env d : or0 off = N.of_nat (length pre) -> 0 < e_chunk env ->
    ext_tofile env dt shape file off len d = Ok (write d data).
  Proof using H R L HL.
    intros Hoff Hc. unfold ext_tofile. rewrite H, (nbytes_code_exact bw _).
    rewrite (or_else_nbytes len _ HL), <- ext_data_len, Hoff, Nat2N.id.
    assert (Es : skipn (length pre) file = data ++ post).
    { unfold file. rewrite skipn_app, Nat.sub_diag, skipn_all, skipn_O. reflexivity. }
    rewrite Es.
    destruct (kernel_phase_spec (e_kernel env) (e_kmax env) (data ++ post) (N.of_nat (length data)) d) as [c [Hcl E]].
    { rewrite app_length. lia. }
    rewrite E. rewrite copy_loop_spec; [| exact Hc | rewrite skipn_length, app_length; lia | lia].
    rewrite write_app. f_equal. f_equal.
    replace (N.to_nat (N.of_nat (length data) - N.of_nat c)) with (length data - c)%nat by lia.
    rewrite <- firstn_add. replace (c + (length data - c))%nat with (length data) by lia.
    rewrite firstn_app, Nat.sub_diag, firstn_O, firstn_all, app_nil_r. reflexivity.
  Qed.
End External.

(* ------------------------------------------------------------------ main theorems *)

Lemma represents_meta dt shape xs r : represents dt shape xs r -> r_dtype r = dt /\ r_shape r = shape.
Proof. induction 1; cbn; tauto. Qed.

Lemma same_bw dt a b : bitwidth dt = Some a -> bitwidth dt = Some b -> a = b.
Proof. intros Ha Hb. rewrite Ha in Hb. inversion Hb. reflexivity. Qed.

Lemma numpy_bytes_agree dt shape xs r :
  logical dt shape xs -> represents dt shape xs r -> good_numpy dt xs r /\ good_bytes dt xs r.
Proof.
  intros [bw [H [R L]]] HR.
  induction HR as [store E | bw' H' Hb | bw' storage H' Hb EC | bw' H' Hb | | bw' es H' M C | es M C | bw' es H' M C F | M | M
                   | pre post len bw' H' HL | post len bw' H' HL | inner HR IH];
    try (pose proof (same_bw dt bw' bw H' H); subst bw').
  - subst xs. apply (array_good dt shape bw store H).
  - apply (torch_good dt shape bw xs H Hb).
  - subst xs. apply (torch_conj_good dt shape bw storage H Hb).
  - apply (packed_good dt shape bw xs H Hb R L).
  - apply (proto_raw_good dt shape bw xs H R L).
  - apply (proto_int32_good dt shape bw xs es H R L M C).
  - apply (proto_int64_good dt shape bw xs es H R L M C).
  - apply (proto_uint64_good dt shape bw xs es H R L M C F).
  - apply (proto_float_good dt shape bw xs H R L M).
  - apply (proto_double_good dt shape bw xs H R L M).
  - split.
    + exists xs. split; [| apply (elem_id dt bw xs H R)]. cbn [r_numpy].
      apply (ext_load_ok dt bw shape xs pre post len H R L HL). cbn. reflexivity.
    + unfold good_bytes. cbn [r_tobytes].
      apply (ext_tobytes_ok dt bw shape xs pre post len H R L HL). cbn. reflexivity.
  - split.
    + exists xs. split; [| apply (elem_id dt bw xs H R)]. cbn [r_numpy].
      apply (ext_load_ok dt bw shape xs [] post len H R L HL). reflexivity.
    + unfold good_bytes. cbn [r_tobytes].
      apply (ext_tobytes_ok dt bw shape xs [] post len H R L HL). reflexivity.
  - destruct IH as [[st [N1 N2]] B]. split; [exists st; split; assumption | exact B].
Qed.

Lemma tofile_agree dt shape xs r :
  logical dt shape xs -> represents dt shape xs r ->
  forall env d, 0 < e_chunk env -> r_tofile env r d = Ok (write d (le_pack dt xs)).
Proof.
  intros HLg HR env d Hc. pose proof HLg as [bw [H [R L]]].
  induction HR as [store E | bw' H' Hb | bw' storage H' Hb EC | bw' H' Hb | | bw' es H' M C | es M C | bw' es H' M C F | M | M
                   | pre post len bw' H' HL | post len bw' H' HL | inner HR IH];
    try (pose proof (same_bw dt bw' bw H' H); subst bw').
  11: { cbn [r_tofile].
        apply (ext_tofile_ok dt bw shape xs pre post len H R L HL); [cbn; reflexivity | exact Hc]. }
  11: { cbn [r_tofile].
        apply (ext_tofile_ok dt bw shape xs [] post len H R L HL); [reflexivity | exact Hc]. }
  11: { cbn [r_tofile]. exact IH. }
  all: match goal with |- r_tofile _ ?r _ = _ =>
         assert (HR' : represents dt shape xs r) by (econstructor; eassumption);
         destruct (numpy_bytes_agree dt shape xs r HLg HR') as [_ B];
         unfold good_bytes in B; cbn [r_tofile]; rewrite B; reflexivity
       end.
Qed.

Lemma nbytes_agree dt shape xs r :
  logical dt shape xs -> represents dt shape xs r ->
  r_nbytes r = Ok (N.of_nat (length (le_pack dt xs))).
Proof.
  intros [bw [H [R L]]] HR. destruct (represents_meta dt shape xs r HR) as [Ed Es].
  unfold r_nbytes. rewrite Ed, Es, H, (nbytes_code_exact bw _), (le_pack_length dt bw xs H), (size_of_logical shape xs L). reflexivity.
Qed.

(* serialization: a representation of the data serializes to a representation of the same data *)
Lemma serialize_represents dt shape xs r :
  logical dt shape xs -> represents dt shape xs r ->
  match r with
  | RExternal _ _ _ _ _ => True       (* stays a reference to the same file range *)
  | _ => exists p, serialize r = Ok p /\ represents dt shape xs (RProto p)
  end.
Proof.
  intros HLg HR. destruct (numpy_bytes_agree dt shape xs r HLg HR) as [_ B]. unfold good_bytes in B.
  destruct (represents_meta dt shape xs r HR) as [Ed Es].
  destruct r as [dt0 sh0 st0 | dt0 sh0 st0 | dt0 sh0 st0 | dt0 sh0 raw0 | p0 | dt0 sh0 f0 o0 l0 | dt0 sh0 inner0]; try exact I.
  5: { exists p0. split; [reflexivity | exact HR]. }
  all: unfold serialize; rewrite B; cbn [res_bind]; eexists; split; [reflexivity|];
       rewrite Ed, Es; apply rep_proto_raw.
Qed.

(* ------------------------------------------------------------------ strings *)

Lemma strip_nul_rev_no_nul l : Forall (fun b => b <> 0) l -> strip_nul_rev l = l.
Proof. intros F. destruct F as [|x r Hx _]; [reflexivity|]. simpl. destruct x; [contradiction Hx; reflexivity | reflexivity]. Qed.

Lemma np_bytes_elem_id s : last s 1 <> 0 -> np_bytes_elem s = s.
Proof.
  intros Hl. unfold np_bytes_elem.
  destruct s as [|x s' _] using rev_ind; [reflexivity|].
  rewrite rev_unit. rewrite last_last in Hl.
  destruct x; [contradiction Hl; reflexivity|]. simpl. rewrite rev_involutive. reflexivity.
Qed.

Lemma string_reps_agree_before_fix shape ss :
  Forall (fun s => last s 1 <> 0) ss ->
  forall r, In r [SList shape ss; SObjArray shape ss; SBytesArray shape ss; SProto shape ss] ->
  s_numpy_before_fix r = ss /\ s_string_data r = ss.
Proof.
  intros F.
  assert (E : map np_bytes_elem ss = ss).
  { induction F as [|s r' Hs _ IH]; [reflexivity|]. simpl. rewrite IH, np_bytes_elem_id by exact Hs. reflexivity. }
  intros r Hr. simpl in Hr. destruct Hr as [<-|[<-|[<-|[<-|[]]]]]; cbn; rewrite ?E; split; reflexivity.
Qed.

(* the values numpy() returns drop trailing NUL bytes for list/proto backed string tensors, so an element
   ending in NUL is NOT reproduced (while an object-array backed tensor keeps it) *)
Lemma string_trailing_nul_refuted_before_fix :
  exists shape ss, s_numpy_before_fix (SList shape ss) <> s_numpy_before_fix (SObjArray shape ss)
                   /\ s_string_data (SList shape ss) = s_string_data (SObjArray shape ss).
Proof. exists [1], [[97; 0]]. split; [vm_compute; discriminate | reflexivity]. Qed.

(* ------------------------------------------------------------------ packaged statements *)

Lemma nbytes_full dt shape xs r :
  logical dt shape xs -> represents dt shape xs r ->
  exists bw bs, bitwidth dt = Some bw /\ r_tobytes r = Ok bs /\
    r_nbytes r = Ok (N.of_nat (length bs)) /\ N.of_nat (length bs) = ceil_div (shape_size shape * bw) 8.
Proof.
  intros HL HR. pose proof HL as [bw [H [R L]]].
  destruct (numpy_bytes_agree dt shape xs r HL HR) as [_ B].
  exists bw, (le_pack dt xs). repeat split; [exact H | exact B | apply (nbytes_agree dt shape xs r HL HR) |].
  rewrite (le_pack_length dt bw xs H), (size_of_logical shape xs L). reflexivity.
Qed.

Lemma external_any_offset dt shape xs pre post len bw env d :
  logical dt shape xs -> bitwidth dt = Some bw ->
  len = None \/ len = Some (nbytes_bw bw (shape_size shape)) -> 0 < e_chunk env ->
  let r := RExternal dt shape (pre ++ le_pack dt xs ++ post) (Some (N.of_nat (length pre))) len in
  good_numpy dt xs r /\ r_tobytes r = Ok (le_pack dt xs) /\ r_tofile env r d = Ok (write d (le_pack dt xs)).
Proof.
  intros HL H Hlen Hc r.
  assert (HR : represents dt shape xs r) by (apply (rep_external dt shape xs pre post len bw H Hlen)).
  destruct (numpy_bytes_agree dt shape xs r HL HR) as [Nn B]. repeat split; [exact Nn | exact B |].
  apply (tofile_agree dt shape xs r HL HR env d Hc).
Qed.

(* write leaves everything outside [pos, pos + |bs|) unchanged and advances the position *)
Lemma write_frame d bs : (d_pos d <= length (d_content d))%nat ->
  let d' := write d bs in
  firstn (d_pos d) (d_content d') = firstn (d_pos d) (d_content d)
  /\ firstn (length bs) (skipn (d_pos d) (d_content d')) = bs
  /\ skipn (d_pos d + length bs) (d_content d') = skipn (d_pos d + length bs) (d_content d)
  /\ d_pos d' = (d_pos d + length bs)%nat.
Proof.
  intros Hp d'. destruct (nil_or_not bs) as [-> | Hne].
  - unfold d'. rewrite write_nil. simpl. rewrite Nat.add_0_r. repeat split; reflexivity.
  - unfold d'. rewrite (write_ne d bs Hne). cbn [d_content d_pos]. destruct d as [c p]. cbn [d_content d_pos] in *.
    rewrite (resize_le p c Hp).
    assert (Lf : length (firstn p c) = p) by (rewrite firstn_length; lia).
    repeat split.
    + rewrite firstn_app, Lf, Nat.sub_diag, firstn_O, app_nil_r. rewrite firstn_all2 by lia. reflexivity.
    + rewrite skipn_app, Lf, Nat.sub_diag, skipn_O. rewrite skipn_all2 by lia. simpl.
      rewrite firstn_app, Nat.sub_diag, firstn_O, firstn_all, app_nil_r. reflexivity.
    + rewrite app_assoc, skipn_app. rewrite app_length, Lf, Nat.sub_diag, skipn_O.
      rewrite skipn_all2 by (rewrite app_length; lia). reflexivity.
Qed.

(* examples: the hypotheses are satisfiable by non-trivial data (the witnesses of the three repaired defects) *)
Example ex_logical_uint2 : logical DT_UINT2 [5] [0; 1; 2; 3; 1].
Proof. exists 2. split; [reflexivity|]. split; [repeat constructor | reflexivity]. Qed.
Example ex_packed_uint2 : represents DT_UINT2 [5] [0; 1; 2; 3; 1] (RPacked DT_UINT2 [5] [228; 1]).
Proof. apply (rep_packed DT_UINT2 [5] [0; 1; 2; 3; 1] 2); [reflexivity | reflexivity]. Qed.
Example ex_external_uint2_eof :
  represents DT_UINT2 [8] [0; 1; 2; 3; 3; 2; 1; 0] (RExternal DT_UINT2 [8] ([7; 7; 7] ++ [228; 27] ++ []) (Some 3) None).
Proof. apply (rep_external DT_UINT2 [8] [0; 1; 2; 3; 3; 2; 1; 0] [7; 7; 7] [] None 2); [reflexivity | left; reflexivity]. Qed.
Example ex_external_empty : represents DT_UINT8 [0] [] (RExternal DT_UINT8 [0] ([] ++ [] ++ []) (Some 0) None).
Proof. apply (rep_external DT_UINT8 [0] [] [] [] None 8); [reflexivity | left; reflexivity]. Qed.
Example ex_int4_odd_int32 :
  represents DT_INT4 [3] [1; 2; 13] (RProto {| p_dtype := DT_INT4; p_dims := [3]; p_raw := None; p_float := [];
     p_int32 := [33%Z; 13%Z]; p_int64 := []; p_double := []; p_uint64 := [] |}).
Proof. apply (rep_proto_int32 DT_INT4 [3] [1; 2; 13] 4 [33%Z; 13%Z]); reflexivity. Qed.

(* ------------------------------------------------------------------ nbytes arithmetic *)

Lemma nbytes_exact bw size : nbytes_code bw size = ceil_div (size * bw) 8.
Proof. rewrite nbytes_code_exact. reflexivity. Qed.

Lemma nbytes_float_refuted_before_fix :
  exists dt bw size, bitwidth dt = Some bw /\ nbytes_float_before_fix bw size <> ceil_div (size * bw) 8.
Proof. exists DT_INT4, 4, (2 ^ 53 + 1). split; [reflexivity | vm_compute; discriminate]. Qed.

Example ex_nbytes_float_uint8 : nbytes_float_before_fix 8 (2 ^ 53 + 1) = 2 ^ 53.
Proof. vm_compute. reflexivity. Qed.

(* ------------------------------------------------------------------ strings (full statement, after fix 5633eae) *)

Lemma strings_agree shape ss :
  (forall r, In r [SList shape ss; SObjArray shape ss; SProto shape ss] ->
     s_numpy r = ss /\ s_string_data r = ss)
  /\ s_numpy (SBytesArray shape ss) = s_string_data (SBytesArray shape ss).
Proof.
  split; [| reflexivity]. intros r Hr. simpl in Hr.
  destruct Hr as [<-|[<-|[<-|[]]]]; split; reflexivity.
Qed.

(* ------------------------------------------------------------------ lazily conjugated torch views *)

(* before fix c3d2ba2: numpy() resolved the conjugation, tobytes() did not *)
Lemma torch_conj_refuted_before_fix :
  exists dt shape storage xs,
    logical dt shape xs /\ r_numpy (RTorchConj dt shape storage) = Ok xs
    /\ tobytes_conj_before_fix dt storage <> Ok (le_pack dt xs).
Proof.
  exists DT_COMPLEX64, [1], [1 + 2 ^ 32 * 2], [1 + 2 ^ 32 * 2 + 2 ^ 63].
  split; [exists 64; split; [reflexivity|]; split; [repeat constructor | reflexivity] |].
  split; [vm_compute; reflexivity | vm_compute; discriminate].
Qed.

Example ex_torch_conj :
  represents DT_COMPLEX64 [1] [1 + 2 ^ 32 * 2 + 2 ^ 63] (RTorchConj DT_COMPLEX64 [1] [1 + 2 ^ 32 * 2]).
Proof. apply (rep_torch_conj DT_COMPLEX64 [1] _ 64 [1 + 2 ^ 32 * 2]); [reflexivity | discriminate | vm_compute; reflexivity]. Qed.

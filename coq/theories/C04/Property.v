(* C04/Property.v — ONLY the property theorems (each closed by a lemma of Proofs*.v) + Print Assumptions.

   Vocabulary (C04/Model.v): an element is its bit pattern x < 2^bitwidth; `logical dt shape xs` = the
   dtype has a bit width, every element is in range and there are prod(shape) of them; `represents dt
   shape xs r` = r is one of the representations built from that data (array-backed Tensor with any
   storage whose low bits are the elements, TorchTensor (also over a lazily conjugated view), PackedTensor, proto-backed through raw_data /
   int32_data / int64_data / uint64_data / float_data / double_data with any legal widening of the stored
   integers, ExternalTensor over a file  pre ++ bytes ++ post  at offset |pre| (or offset None with pre = []),
   LazyTensor over any of them); `le_pack` is the ONNX little-endian packed encoding stated arithmetically.
   Satisfiability examples: Proofs4.ex_* (the witnesses of the three repaired defects and the odd-length
   int4-in-int32_data case). *)
From Coq Require Import NArith ZArith List Bool.
From IRV Require Import Base.Exn Gen.C04Gen C04.Model C04.Proofs1 C04.ProofsTc C04.Proofs2 C04.Proofs3 C04.Proofs4.
Import ListNotations.
Open Scope N_scope.

(* The element-type tables regenerated from _enums.py / _core.py / serde.py are mutually consistent
   (see Proofs2.tables_consistent for the 30 clauses: bit width defined exactly for the non-STRING/UNDEFINED
   members, itemsize*8 = bitwidth, short names injective so from_short_name (short_name d) = d, numpy map
   injective with from_numpy (numpy d) = d, numpy item sizes match, classification sets) and every
   `dtype in {...}` dispatch set of the code selects exactly the dtypes of the bit width the branch handles. *)
Theorem C04_tables_consistent :
  tables_consistent = true /\ forallb (fun p => dispatch_ok (fst p) (snd p)) bitwidth_map = true.
Proof. split; [exact tables_consistent_true | exact dispatch_table_true]. Qed.
Print Assumptions C04_tables_consistent.

(* Every representation reports the declared dtype and shape. *)
Theorem C04_meta_agree :
  forall dt shape xs r, represents dt shape xs r -> r_dtype r = dt /\ r_shape r = shape.
Proof. exact represents_meta. Qed.
Print Assumptions C04_meta_agree.

(* len(tobytes()) = nbytes = ceil(size * bitwidth / 8), for every representation, dtype, shape. *)
Theorem C04_nbytes :
  forall dt shape xs r, logical dt shape xs -> represents dt shape xs r ->
  exists bw bs, bitwidth dt = Some bw /\ r_tobytes r = Ok bs /\
    r_nbytes r = Ok (N.of_nat (length bs)) /\ N.of_nat (length bs) = ceil_div (shape_size shape * bw) 8.
Proof. exact nbytes_full. Qed.
Print Assumptions C04_nbytes.

(* TensorBase.nbytes as written — `(bitwidth * size + 7) // 8`, translated into Gen.nbytes_code — is
   ceil(size * bitwidth / 8) for EVERY element count (no bound).  Before fix c6a08a9 the code used float64
   arithmetic, which is refuted for 2^53+1 INT4 elements (kept for the record; the witness is a corpus case). *)
Theorem C04_nbytes_exact : forall bw size, nbytes_code bw size = ceil_div (size * bw) 8.
Proof. exact nbytes_exact. Qed.
Print Assumptions C04_nbytes_exact.

Theorem C04_nbytes_float_refuted_before_fix :
  exists dt bw size, bitwidth dt = Some bw /\ nbytes_float_before_fix bw size <> ceil_div (size * bw) 8.
Proof. exact nbytes_float_refuted_before_fix. Qed.
Print Assumptions C04_nbytes_float_refuted_before_fix.

(* pack/unpack of _type_casting.py, any length (odd, non-multiple of 4, zero), any storage bytes. *)
Theorem C04_pack_unpack :
  (forall xs, unpack_4bitx2 (pack_4bitx2 xs) (length xs) = map (fun x => x mod 2 ^ 4) xs) /\
  (forall xs, unpack_2bitx4 (pack_2bitx4 xs) (length xs) = map (fun x => x mod 2 ^ 2) xs) /\
  (* bytes with zero padding bits (= images of in-range lists) are fixed points of pack . unpack *)
  (forall xs, in_range 4 xs -> pack_4bitx2 (unpack_4bitx2 (spec_pack4 xs) (length xs)) = spec_pack4 xs) /\
  (forall xs, in_range 2 xs -> pack_2bitx4 (unpack_2bitx4 (spec_pack2 xs) (length xs)) = spec_pack2 xs) /\
  (* and the numpy code computes the arithmetic packing *)
  (forall xs, pack_4bitx2 xs = spec_pack4 (map (fun x => x mod 16) xs)) /\
  (forall xs, pack_2bitx4 xs = spec_pack2 (map (fun x => x mod 4) xs)).
Proof.
  repeat split; [exact pack_unpack4 | exact pack_unpack2 | exact unpack_pack4 | exact unpack_pack2
                | exact pack4_correct | exact pack2_correct].
Qed.
Print Assumptions C04_pack_unpack.

(* The pack/unpack functions used by the whole model are the statement-by-statement translation of
   _type_casting.py (Gen/C04Gen.v over the strided numpy vocabulary of C04/Np.v, regenerated on every run); for
   every input and every target size they compute the readable pair/quad recursions of Model.v.  So the theorem
   above and everything below is about the code as written: masks, shifts, strides, the padding formula, the
   `size == prod+1` / `size > total` truncations and the final resize. *)
Theorem C04_type_casting_translated :
  (forall a, tc_pack_4bitx2 a = pack_4bitx2_hand a) /\ (forall d n, tc_unpack_4bitx2 d n = unpack_4bitx2_hand d n) /\
  (forall a, tc_pack_2bitx4 a = pack_2bitx4_hand a) /\ (forall d n, tc_unpack_2bitx4 d n = unpack_2bitx4_hand d n).
Proof. repeat split; [exact tc_pack4_hand | exact tc_unpack4_hand | exact tc_pack2_hand | exact tc_unpack2_hand]. Qed.
Print Assumptions C04_type_casting_translated.

(* numpy() of every representation holds the logical elements (in the low `bw` bits of each cell). *)
Theorem C04_numpy_agree :
  forall dt shape xs r, logical dt shape xs -> represents dt shape xs r ->
  exists st, r_numpy r = Ok st /\ map (elem dt) st = xs.
Proof. intros dt shape xs r HL HR. exact (proj1 (numpy_bytes_agree dt shape xs r HL HR)). Qed.
Print Assumptions C04_numpy_agree.

(* tobytes() of every representation is the little-endian packed encoding; tofile() writes exactly those
   bytes at the current position for every copy schedule of the kernel / chunk loop, and a write leaves the
   bytes before and after the written range unchanged and advances the position by nbytes. *)
Theorem C04_bytes_agree :
  forall dt shape xs r, logical dt shape xs -> represents dt shape xs r ->
  r_tobytes r = Ok (le_pack dt xs) /\
  (forall env d, 0 < e_chunk env -> r_tofile env r d = Ok (write d (le_pack dt xs))) /\
  (forall d bs, (d_pos d <= length (d_content d))%nat ->
     firstn (d_pos d) (d_content (write d bs)) = firstn (d_pos d) (d_content d)
     /\ firstn (length bs) (skipn (d_pos d) (d_content (write d bs))) = bs
     /\ skipn (d_pos d + length bs) (d_content (write d bs)) = skipn (d_pos d + length bs) (d_content d)
     /\ d_pos (write d bs) = (d_pos d + length bs)%nat).
Proof.
  intros dt shape xs r HL HR. split; [exact (proj2 (numpy_bytes_agree dt shape xs r HL HR))|].
  split; [exact (tofile_agree dt shape xs r HL HR) | exact write_frame].
Qed.
Print Assumptions C04_bytes_agree.

(* Memory-mapped external data at any offset, with anything before and after it (post = [] included). *)
Theorem C04_external_any_offset :
  forall dt shape xs pre post len bw env d,
  logical dt shape xs -> bitwidth dt = Some bw ->
  len = None \/ len = Some (nbytes_bw bw (shape_size shape)) -> 0 < e_chunk env ->
  let r := RExternal dt shape (pre ++ le_pack dt xs ++ post) (Some (N.of_nat (length pre))) len in
  (exists st, r_numpy r = Ok st /\ map (elem dt) st = xs) /\ r_tobytes r = Ok (le_pack dt xs)
  /\ r_tofile env r d = Ok (write d (le_pack dt xs)).
Proof. exact external_any_offset. Qed.
Print Assumptions C04_external_any_offset.

(* A TorchTensor over a lazily conjugated complex torch view (RTorchConj, a `represents` constructor since fix
   c3d2ba2) is covered by the theorems above; before the fix its tobytes()/tofile() returned the unresolved storage. *)
Theorem C04_torch_conj_refuted_before_fix :
  exists dt shape storage xs,
    logical dt shape xs /\ r_numpy (RTorchConj dt shape storage) = Ok xs
    /\ tobytes_conj_before_fix dt storage <> Ok (le_pack dt xs).
Proof. exact torch_conj_refuted_before_fix. Qed.
Print Assumptions C04_torch_conj_refuted_before_fix.

(* Serialization keeps the data: the proto written for a representation represents the same data. *)
Theorem C04_serialize_represents :
  forall dt shape xs r, logical dt shape xs -> represents dt shape xs r ->
  match r with
  | RExternal _ _ _ _ _ => True
  | _ => exists p, serialize r = Ok p /\ represents dt shape xs (RProto p)
  end.
Proof. exact serialize_represents. Qed.
Print Assumptions C04_serialize_represents.

(* String tensors (full statement): every list-, object-array- and proto-backed representation returns exactly
   the element byte strings from numpy() and string_data(), for ALL byte strings; a tensor over a caller-supplied
   fixed-width 'S' array is consistent with itself (numpy already dropped the trailing NULs in the caller's array). *)
Theorem C04_strings_agree :
  forall shape ss,
  (forall r, In r [SList shape ss; SObjArray shape ss; SProto shape ss] ->
     s_numpy r = ss /\ s_string_data r = ss)
  /\ s_numpy (SBytesArray shape ss) = s_string_data (SBytesArray shape ss).
Proof. exact strings_agree. Qed.
Print Assumptions C04_strings_agree.

(* Before fix 5633eae numpy() went through numpy's 'S' dtype: elements ending in NUL were not reproduced. *)
Theorem C04_string_trailing_nul_refuted_before_fix :
  exists shape ss, s_numpy_before_fix (SList shape ss) <> s_numpy_before_fix (SObjArray shape ss)
                   /\ s_string_data (SList shape ss) = s_string_data (SObjArray shape ss).
Proof. exact string_trailing_nul_refuted_before_fix. Qed.
Print Assumptions C04_string_trailing_nul_refuted_before_fix.

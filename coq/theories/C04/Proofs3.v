(* C04/Proofs3.v — every representation built from the same logical data returns the elements and the
   specification bytes; destinations; external files at any offset; kernel/chunk copy schedules. *)
From Coq Require Import NArith ZArith List Bool Arith Lia ZifyBool.
From IRV Require Import Base.Exn Gen.C04Gen C04.Model C04.Proofs1 C04.ProofsTc C04.Proofs2.
Import ListNotations.
Open Scope N_scope.
Ltac Zify.zify_post_hook ::= Z.to_euclidean_division_equations.

Definition good_numpy (dt : N) (xs : list N) (r : rep) : Prop :=
  exists st, r_numpy r = Ok st /\ map (elem dt) st = xs.
Definition good_bytes (dt : N) (xs : list N) (r : rep) : Prop := r_tobytes r = Ok (le_pack dt xs).

Lemma reshape_ok n l : length l = n -> reshape n l = Ok l.
Proof. intros H. unfold reshape. rewrite H, Nat.eqb_refl. reflexivity. Qed.

Lemma whole_of dt bw : bitwidth dt = Some bw -> (bw <? 8) = false ->
  bw = 8 \/ bw = 16 \/ bw = 32 \/ bw = 64 \/ bw = 128.
Proof. intros H E. bw_cases H; try discriminate; tauto. Qed.

Lemma sub_of dt bw : bitwidth dt = Some bw -> bw < 8 -> bw = 2 \/ bw = 4.
Proof. intros H E. bw_cases H; try lia; tauto. Qed.

Lemma frombuffer_encode nb xs : (0 < nb)%nat -> Forall (fun x => x < 256 ^ N.of_nat nb) xs ->
  frombuffer_all nb (encode_elems nb xs) = Ok xs.
Proof.
  intros Hnb R. unfold frombuffer_all. rewrite encode_elems_length.
  rewrite Nat.mul_comm, Nat.mod_mul by lia. simpl. rewrite decode_encode_elems by assumption. reflexivity.
Qed.

(* ------------------------------------------------------------------ array / torch / packed *)

Lemma array_good dt shape bw store :
  bitwidth dt = Some bw ->
  good_numpy dt (map (elem dt) store) (RArray dt shape store) /\ good_bytes dt (map (elem dt) store) (RArray dt shape store).
Proof.
  intros H. split; [exists store; split; reflexivity|].
  unfold good_bytes. cbn [r_tobytes]. unfold array_tobytes.
  rewrite (f_pack4 dt bw H), (f_pack2 dt bw H), H.
  destruct (pack_store dt bw store H) as [P4 P2].
  destruct (bw =? 4) eqn:E4; [apply N.eqb_eq in E4; rewrite (P4 E4); reflexivity|].
  destruct (bw =? 2) eqn:E2; [apply N.eqb_eq in E2; rewrite (P2 E2); reflexivity|].
  destruct (bw <? 8) eqn:E8.
  - exfalso. apply N.ltb_lt in E8. destruct (sub_of dt bw H E8); subst; discriminate.
  - rewrite (elem_whole dt bw store H E8). rewrite (le_pack_whole dt bw store H (whole_of dt bw H E8)). reflexivity.
Qed.

Lemma torch_good dt shape bw xs :
  bitwidth dt = Some bw -> 8 <= bw ->
  good_numpy dt xs (RTorch dt shape xs) /\ good_bytes dt xs (RTorch dt shape xs).
Proof.
  intros H Hb. assert (E8 : (bw <? 8) = false) by (apply N.ltb_ge; exact Hb). split.
  - exists xs. split; [reflexivity | apply (elem_whole dt bw xs H E8)].
  - unfold good_bytes. cbn [r_tobytes]. rewrite H. rewrite (le_pack_whole dt bw xs H (whole_of dt bw H E8)). reflexivity.
Qed.

Lemma torch_conj_good dt shape bw storage :
  bitwidth dt = Some bw -> 8 <= bw ->
  let xs := map (fun s => N.lxor s (2 ^ (bw - 1))) storage in
  good_numpy dt xs (RTorchConj dt shape storage) /\ good_bytes dt xs (RTorchConj dt shape storage).
Proof.
  intros H Hb xs. assert (E8 : (bw <? 8) = false) by (apply N.ltb_ge; exact Hb). split.
  - exists xs. split; [cbn [r_numpy]; rewrite H; reflexivity | apply (elem_whole dt bw xs H E8)].
  - unfold good_bytes. cbn [r_tobytes]. rewrite H. rewrite (le_pack_whole dt bw xs H (whole_of dt bw H E8)). reflexivity.
Qed.

Lemma packed_good dt shape bw xs :
  bitwidth dt = Some bw -> bw < 8 -> in_range bw xs -> length xs = nsize shape ->
  good_numpy dt xs (RPacked dt shape (le_pack dt xs)) /\ good_bytes dt xs (RPacked dt shape (le_pack dt xs)).
Proof.
  intros H Hb R L.
  assert (PR : packed_raw dt shape (le_pack dt xs) = Ok (le_pack dt xs)).
  { unfold packed_raw. rewrite H, (nbytes_code_exact bw _), (le_pack_length dt bw xs H), (size_of_logical shape xs L), N.eqb_refl. reflexivity. }
  split.
  - exists xs. split; [| apply (elem_id dt bw xs H R)].
    cbn [r_numpy]. unfold packed_numpy. rewrite PR. cbn [res_bind]. rewrite H, <- L.
    destruct (unpack_le_pack dt bw xs H R) as [U4 U2].
    destruct (sub_of dt bw H Hb) as [-> | ->]; [rewrite U2 | rewrite U4]; reflexivity.
  - unfold good_bytes. cbn [r_tobytes]. exact PR.
Qed.

(* ------------------------------------------------------------------ proto-backed *)

Lemma proto_raw_good dt shape bw xs :
  bitwidth dt = Some bw -> in_range bw xs -> length xs = nsize shape ->
  let r := RProto {| p_dtype := dt; p_dims := shape; p_raw := Some (le_pack dt xs);
                     p_float := []; p_int32 := []; p_int64 := []; p_double := []; p_uint64 := [] |} in
  good_numpy dt xs r /\ good_bytes dt xs r.
Proof.
  intros H R L r. destruct (f_not_string dt bw H) as [NS NU]. split.
  - exists xs. split; [| apply (elem_id dt bw xs H R)].
    unfold r. cbn [r_numpy]. unfold proto_numpy. cbn [p_dtype p_dims p_raw]. rewrite NU, H, <- L.
    destruct (unpack_le_pack dt bw xs H R) as [U4 U2].
    destruct (bw =? 4) eqn:E4; [apply N.eqb_eq in E4; rewrite (U4 E4); reflexivity|].
    destruct (bw =? 2) eqn:E2; [apply N.eqb_eq in E2; rewrite (U2 E2); reflexivity|].
    assert (W : bw = 8 \/ bw = 16 \/ bw = 32 \/ bw = 64 \/ bw = 128).
    { bw_cases H; try discriminate; tauto. }
    rewrite (le_pack_whole dt bw xs H W).
    destruct (whole_byte bw W) as [Hpos _].
    rewrite frombuffer_encode by (try exact Hpos; apply in_range_bytes; assumption).
    cbn [res_bind]. apply reshape_ok. reflexivity.
  - unfold good_bytes, r. cbn [r_tobytes]. unfold proto_tobytes. cbn [p_dtype p_raw]. rewrite NS, NU. reflexivity.
Qed.

Lemma narrow8_bytes es : Forall (fun b => b < 256) (map (narrow 8) es).
Proof.
  apply Forall_forall. intros b Hb. apply in_map_iff in Hb. destruct Hb as [e [<- _]].
  unfold narrow. change (2 ^ Z.of_N 8)%Z with 256%Z. lia.
Qed.

Lemma nbytes_zero_size bw n : bw = 2 \/ bw = 4 \/ bw = 8 \/ bw = 16 \/ bw = 32 \/ bw = 64 \/ bw = 128 ->
  nbytes_bw bw n = 0 -> n = 0.
Proof.
  unfold nbytes_bw, ceil_div, itemsize_divisor. intros [->|[->|[->|[->|[->|[->| ->]]]]]] E; lia.
Qed.

Lemma le_pack_empty dt bw xs : bitwidth dt = Some bw -> le_pack dt xs = [] -> xs = [].
Proof.
  intros H E. pose proof (le_pack_length dt bw xs H) as L. rewrite E in L. simpl in L.
  symmetry in L. apply nbytes_zero_size in L; [| apply (bw_values dt bw H)].
  destruct xs; [reflexivity | simpl in L; lia].
Qed.

Lemma map_nil_inv {A B} (f : A -> B) l : map f l = [] -> l = [].
Proof. destruct l; [reflexivity | discriminate]. Qed.

Lemma nil_or_not {A} (l : list A) : l = [] \/ l <> [].
Proof. destruct l; [left; reflexivity | right; discriminate]. Qed.

Lemma match_cons {A B} (l : list A) (a b : B) : l <> [] -> match l with _ :: _ => a | [] => b end = a.
Proof. destruct l; [intros H; contradiction H; reflexivity | reflexivity]. Qed.

Ltac numcmp := cbn [N.eqb Pos.eqb N.ltb N.leb N.compare Pos.compare Pos.compare_cont negb].
Ltac numcmp_in C := cbn [N.eqb Pos.eqb N.ltb N.leb N.compare Pos.compare Pos.compare_cont negb] in C.
Ltac pfields := cbn [p_dtype p_dims p_raw p_int32 p_int64 p_uint64 p_float p_double].

(* a proto with no data in any field is the size-0 tensor *)
Lemma proto_empty_good dt shape bw :
  bitwidth dt = Some bw -> 0%nat = nsize shape ->
  let r := RProto (empty_proto dt shape) in
  good_numpy dt [] r /\ good_bytes dt [] r.
Proof.
  intros H L r. destruct (f_not_string dt bw H) as [NS NU]. split.
  - exists []. split; [| reflexivity]. unfold r, empty_proto. cbn [r_numpy]. unfold proto_numpy. pfields.
    rewrite NU, NS, <- L. reflexivity.
  - unfold good_bytes, r, empty_proto. cbn [r_tobytes]. unfold proto_tobytes. pfields.
    rewrite NS, NU, le_pack_nil. reflexivity.
Qed.

Lemma proto_int32_good dt shape bw xs es :
  bitwidth dt = Some bw -> in_range bw xs -> length xs = nsize shape ->
  memN dt set_pn_int32 = true ->
  (if bw <? 8 then map (narrow 8) es = le_pack dt xs else map (narrow bw) es = xs) ->
  let r := RProto {| p_dtype := dt; p_dims := shape; p_raw := None;
                     p_float := []; p_int32 := es; p_int64 := []; p_double := []; p_uint64 := [] |} in
  good_numpy dt xs r /\ good_bytes dt xs r.
Proof.
  intros H R L M C r. destruct (f_not_string dt bw H) as [NS NU].
  destruct (f_int32 dt bw H M) as [B32 [P16 [P8 I32]]].
  destruct (nil_or_not es) as [-> | Hne].
  - assert (X : xs = []).
    { destruct (bw <? 8); simpl in C; [symmetry in C; apply (le_pack_empty dt bw xs H C) | symmetry; exact C]. }
    subst xs. apply (proto_empty_good dt shape bw H L).
  - split.
    + exists xs. split; [| apply (elem_id dt bw xs H R)].
      unfold r. cbn [r_numpy]. unfold proto_numpy. pfields.
      rewrite NU, NS, (match_cons es) by exact Hne. rewrite M. cbn [negb]. rewrite H, <- L.
      destruct (unpack_le_pack dt bw xs H R) as [U4 U2].
      bw_cases H; try discriminate B32; numcmp; numcmp_in C; rewrite C.
      * rewrite (U2 eq_refl). reflexivity.
      * rewrite (U4 eq_refl). reflexivity.
      * apply reshape_ok. reflexivity.
      * apply reshape_ok. reflexivity.
      * apply reshape_ok. reflexivity.
    + unfold good_bytes, r. cbn [r_tobytes]. unfold proto_tobytes. pfields.
      rewrite NS, NU, (match_cons es) by exact Hne. rewrite P16, P8.
      bw_cases H; try discriminate B32; numcmp; numcmp_in C.
      * rewrite C. rewrite encode1_bytes by (apply (le_pack_bytes dt 2 xs H R)). reflexivity.
      * rewrite C. rewrite encode1_bytes by (apply (le_pack_bytes dt 4 xs H R)). reflexivity.
      * rewrite C. rewrite (le_pack_whole dt 8 xs H) by tauto. reflexivity.
      * rewrite C. rewrite (le_pack_whole dt 16 xs H) by tauto. reflexivity.
      * rewrite (I32 eq_refl) in *. change (DT_INT32 =? DT_INT32) with true. cbv iota.
        rewrite C. rewrite (le_pack_whole DT_INT32 32 xs H) by tauto. reflexivity.
Qed.

Lemma proto_int64_good dt shape bw xs es :
  bitwidth dt = Some bw -> in_range bw xs -> length xs = nsize shape ->
  memN dt set_pn_int64 = true -> map (narrow 64) es = xs ->
  let r := RProto {| p_dtype := dt; p_dims := shape; p_raw := None;
                     p_float := []; p_int32 := []; p_int64 := es; p_double := []; p_uint64 := [] |} in
  good_numpy dt xs r /\ good_bytes dt xs r.
Proof.
  intros H R L M C r. destruct (f_int64 dt bw H M) as [-> ->].
  destruct (nil_or_not es) as [-> | Hne].
  - simpl in C. subst xs. apply (proto_empty_good DT_INT64 shape 64 H L).
  - split.
    + exists xs. split; [| apply (elem_id DT_INT64 64 xs H R)].
      unfold r. cbn [r_numpy]. unfold proto_numpy. pfields.
      change (DT_INT64 =? DT_UNDEFINED) with false. change (DT_INT64 =? DT_STRING) with false. cbv iota.
      rewrite (match_cons es) by exact Hne. change (memN DT_INT64 set_pn_int64) with true. cbn [negb].
      rewrite C, <- L. apply reshape_ok. reflexivity.
    + unfold good_bytes, r. cbn [r_tobytes]. unfold proto_tobytes. pfields.
      change (DT_INT64 =? DT_UNDEFINED) with false. change (DT_INT64 =? DT_STRING) with false. cbv iota.
      rewrite (match_cons es) by exact Hne.
      rewrite C. rewrite (le_pack_whole DT_INT64 64 xs H) by tauto. reflexivity.
Qed.

Lemma proto_uint64_good dt shape bw xs es :
  bitwidth dt = Some bw -> in_range bw xs -> length xs = nsize shape ->
  memN dt set_pn_uint64 = true -> map (fun e => e mod 2 ^ bw) es = xs -> Forall (fun e => e < 2 ^ 64) es ->
  let r := RProto {| p_dtype := dt; p_dims := shape; p_raw := None;
                     p_float := []; p_int32 := []; p_int64 := []; p_double := []; p_uint64 := es |} in
  good_numpy dt xs r /\ good_bytes dt xs r.
Proof.
  intros H R L M C F r.
  destruct (nil_or_not es) as [-> | Hne].
  - simpl in C. subst xs. apply (proto_empty_good dt shape bw H L).
  - destruct (f_uint64 dt bw H M) as [[-> ->] | [-> ->]].
    + assert (E : es = xs) by (rewrite <- C; symmetry; apply map_mod_small; exact F).
      split.
      * exists xs. split; [| apply (elem_id DT_UINT64 64 xs H R)].
        unfold r. cbn [r_numpy]. unfold proto_numpy. pfields.
        change (DT_UINT64 =? DT_UNDEFINED) with false. change (DT_UINT64 =? DT_STRING) with false. cbv iota.
        rewrite (match_cons es) by exact Hne. change (memN DT_UINT64 set_pn_uint64) with true.
        change (DT_UINT64 =? DT_UINT32) with false. cbn [negb].
        rewrite E, <- L. apply reshape_ok. reflexivity.
      * unfold good_bytes, r. cbn [r_tobytes]. unfold proto_tobytes. pfields.
        change (DT_UINT64 =? DT_UNDEFINED) with false. change (DT_UINT64 =? DT_STRING) with false. cbv iota.
        rewrite (match_cons es) by exact Hne.
        change (DT_UINT64 =? DT_UINT32) with false. change (DT_UINT64 =? DT_UINT64) with true. cbv iota.
        rewrite E. rewrite (le_pack_whole DT_UINT64 64 xs H) by tauto. reflexivity.
    + split.
      * exists xs. split; [| apply (elem_id DT_UINT32 32 xs H R)].
        unfold r. cbn [r_numpy]. unfold proto_numpy. pfields.
        change (DT_UINT32 =? DT_UNDEFINED) with false. change (DT_UINT32 =? DT_STRING) with false. cbv iota.
        rewrite (match_cons es) by exact Hne. change (memN DT_UINT32 set_pn_uint64) with true.
        change (DT_UINT32 =? DT_UINT32) with true. cbn [negb].
        rewrite C, <- L. apply reshape_ok. reflexivity.
      * unfold good_bytes, r. cbn [r_tobytes]. unfold proto_tobytes. pfields.
        change (DT_UINT32 =? DT_UNDEFINED) with false. change (DT_UINT32 =? DT_STRING) with false. cbv iota.
        rewrite (match_cons es) by exact Hne.
        change (DT_UINT32 =? DT_UINT32) with true. cbv iota.
        rewrite C. rewrite (le_pack_whole DT_UINT32 32 xs H) by tauto. reflexivity.
Qed.

Lemma interleave_not_nil w xs : xs <> [] -> interleave w xs <> [].
Proof. destruct xs; [intros H; contradiction H; reflexivity | discriminate]. Qed.

Lemma proto_float_good dt shape bw xs :
  bitwidth dt = Some bw -> in_range bw xs -> length xs = nsize shape ->
  memN dt set_pn_float = true ->
  let r := RProto {| p_dtype := dt; p_dims := shape; p_raw := None;
                     p_float := (if dt =? DT_COMPLEX64 then interleave 32 xs else xs);
                     p_int32 := []; p_int64 := []; p_double := []; p_uint64 := [] |} in
  good_numpy dt xs r /\ good_bytes dt xs r.
Proof.
  intros H R L M r.
  destruct (nil_or_not xs) as [-> | Hne].
  - assert (E : (if dt =? DT_COMPLEX64 then interleave 32 [] else []) = []) by (destruct (dt =? DT_COMPLEX64); reflexivity).
    unfold r. rewrite E. apply (proto_empty_good dt shape bw H L).
  - destruct (f_float dt bw H M) as [[-> ->] | [-> ->]]; unfold r.
    + change (DT_FLOAT =? DT_COMPLEX64) with false. cbv iota. split.
      * exists xs. split; [| apply (elem_id DT_FLOAT 32 xs H R)].
        cbn [r_numpy]. unfold proto_numpy. pfields.
        change (DT_FLOAT =? DT_UNDEFINED) with false. change (DT_FLOAT =? DT_STRING) with false. cbv iota.
        rewrite (match_cons xs) by exact Hne. change (memN DT_FLOAT set_pn_float) with true.
        change (DT_FLOAT =? DT_COMPLEX64) with false. cbn [negb].
        rewrite <- L. apply reshape_ok. reflexivity.
      * unfold good_bytes. cbn [r_tobytes]. unfold proto_tobytes. pfields.
        change (DT_FLOAT =? DT_UNDEFINED) with false. change (DT_FLOAT =? DT_STRING) with false. cbv iota.
        rewrite (match_cons xs) by exact Hne.
        rewrite (le_pack_whole DT_FLOAT 32 xs H) by tauto. reflexivity.
    + change (DT_COMPLEX64 =? DT_COMPLEX64) with true. cbv iota.
      pose proof (interleave_not_nil 32 xs Hne) as Hni. split.
      * exists xs. split; [| apply (elem_id DT_COMPLEX64 64 xs H R)].
        cbn [r_numpy]. unfold proto_numpy. pfields.
        change (DT_COMPLEX64 =? DT_UNDEFINED) with false. change (DT_COMPLEX64 =? DT_STRING) with false. cbv iota.
        rewrite (match_cons (interleave 32 xs)) by exact Hni. change (memN DT_COMPLEX64 set_pn_float) with true.
        change (DT_COMPLEX64 =? DT_COMPLEX64) with true. cbn [negb].
        rewrite complex_pairs_interleave. cbn [res_bind]. rewrite <- L. apply reshape_ok. reflexivity.
      * unfold good_bytes. cbn [r_tobytes]. unfold proto_tobytes. pfields.
        change (DT_COMPLEX64 =? DT_UNDEFINED) with false. change (DT_COMPLEX64 =? DT_STRING) with false. cbv iota.
        rewrite (match_cons (interleave 32 xs)) by exact Hni.
        rewrite (le_pack_whole DT_COMPLEX64 64 xs H) by tauto.
        change (itemsize_of 64) with (4 + 4)%nat. rewrite <- encode_interleave. reflexivity.
Qed.

Lemma proto_double_good dt shape bw xs :
  bitwidth dt = Some bw -> in_range bw xs -> length xs = nsize shape ->
  memN dt set_pn_double = true ->
  let r := RProto {| p_dtype := dt; p_dims := shape; p_raw := None;
                     p_float := []; p_int32 := []; p_int64 := [];
                     p_double := (if dt =? DT_COMPLEX128 then interleave 64 xs else xs); p_uint64 := [] |} in
  good_numpy dt xs r /\ good_bytes dt xs r.
Proof.
  intros H R L M r.
  destruct (nil_or_not xs) as [-> | Hne].
  - assert (E : (if dt =? DT_COMPLEX128 then interleave 64 [] else []) = []) by (destruct (dt =? DT_COMPLEX128); reflexivity).
    unfold r. rewrite E. apply (proto_empty_good dt shape bw H L).
  - destruct (f_double dt bw H M) as [[-> ->] | [-> ->]]; unfold r.
    + change (DT_DOUBLE =? DT_COMPLEX128) with false. cbv iota. split.
      * exists xs. split; [| apply (elem_id DT_DOUBLE 64 xs H R)].
        cbn [r_numpy]. unfold proto_numpy. pfields.
        change (DT_DOUBLE =? DT_UNDEFINED) with false. change (DT_DOUBLE =? DT_STRING) with false. cbv iota.
        rewrite (match_cons xs) by exact Hne. change (memN DT_DOUBLE set_pn_double) with true.
        change (DT_DOUBLE =? DT_COMPLEX128) with false. cbn [negb].
        rewrite <- L. apply reshape_ok. reflexivity.
      * unfold good_bytes. cbn [r_tobytes]. unfold proto_tobytes. pfields.
        change (DT_DOUBLE =? DT_UNDEFINED) with false. change (DT_DOUBLE =? DT_STRING) with false. cbv iota.
        rewrite (match_cons xs) by exact Hne.
        rewrite (le_pack_whole DT_DOUBLE 64 xs H) by tauto. reflexivity.
    + change (DT_COMPLEX128 =? DT_COMPLEX128) with true. cbv iota.
      pose proof (interleave_not_nil 64 xs Hne) as Hni. split.
      * exists xs. split; [| apply (elem_id DT_COMPLEX128 128 xs H R)].
        cbn [r_numpy]. unfold proto_numpy. pfields.
        change (DT_COMPLEX128 =? DT_UNDEFINED) with false. change (DT_COMPLEX128 =? DT_STRING) with false. cbv iota.
        rewrite (match_cons (interleave 64 xs)) by exact Hni. change (memN DT_COMPLEX128 set_pn_double) with true.
        change (DT_COMPLEX128 =? DT_COMPLEX128) with true. cbn [negb].
        rewrite complex_pairs_interleave. cbn [res_bind]. rewrite <- L. apply reshape_ok. reflexivity.
      * unfold good_bytes. cbn [r_tobytes]. unfold proto_tobytes. pfields.
        change (DT_COMPLEX128 =? DT_UNDEFINED) with false. change (DT_COMPLEX128 =? DT_STRING) with false. cbv iota.
        rewrite (match_cons (interleave 64 xs)) by exact Hni.
        rewrite (le_pack_whole DT_COMPLEX128 128 xs H) by tauto.
        change (itemsize_of 128) with (8 + 8)%nat. rewrite <- encode_interleave. reflexivity.
Qed.

(* C04/Np.v — the small vocabulary of numpy operations that _type_casting.py uses, on flat uint8 arrays as
   `list N`.  Gen/C04Gen.v (the statement-by-statement translation of pack_4bitx2 / unpack_4bitx2 / pack_2bitx4 /
   unpack_2bitx4) is written in terms of these; they are the trusted reading of numpy (checked by the
   correspondence, which runs the translated functions against the real ones).  Definitions only. *)
From Coq Require Import NArith List Arith.
Import ListNotations.
Open Scope N_scope.

Definition np_u8 (x : N) : N := x mod 256.                         (* uint8 wrap-around *)
Definition np_size (a : list N) : nat := length a.
(* ndarray.resize(n, refcheck=False) of an array that owns its data (or whose size does not change) *)
Definition np_resize (a : list N) (n : nat) : list N := firstn n a ++ repeat 0 (n - length a).
(* np.empty([n]): contents unspecified; every use in _type_casting.py overwrites all of it *)
Definition np_empty (n : nat) : list N := repeat 0 n.
Definition np_and_s (a : list N) (c : N) : list N := map (fun x => N.land x c) a.
Definition np_shr_s (a : list N) (k : N) : list N := map (fun x => N.shiftr x k) a.
Definition np_shl_s (a : list N) (k : N) : list N := map (fun x => np_u8 (N.shiftl x k)) a.
Fixpoint np_or (a b : list N) : list N :=
  match a, b with
  | x :: a', y :: b' => N.lor x y :: np_or a' b'
  | _, _ => []
  end.
(* a[start::step]  (phase = distance to the next selected index) *)
Fixpoint np_stride_aux (phase step : nat) (a : list N) : list N :=
  match a with
  | [] => []
  | x :: r => match phase with
              | O => x :: np_stride_aux (step - 1) step r
              | S p => np_stride_aux p step r
              end
  end.
Definition np_stride (a : list N) (start step : nat) : list N := np_stride_aux start step a.
(* a[start::step] op= ...   (in place, elementwise f) *)
Fixpoint np_upd_aux (f : N -> N) (phase step : nat) (a : list N) : list N :=
  match a with
  | [] => []
  | x :: r => match phase with
              | O => f x :: np_upd_aux f (step - 1) step r
              | S p => x :: np_upd_aux f p step r
              end
  end.
Definition np_upd_stride (f : N -> N) (a : list N) (start step : nat) : list N := np_upd_aux f start step a.
(* a[start::step] = values *)
Fixpoint np_set_aux (phase step : nat) (a vals : list N) : list N :=
  match a with
  | [] => []
  | x :: r => match phase with
              | O => match vals with
                     | v :: vs => v :: np_set_aux (step - 1) step r vs
                     | [] => x :: r          (* numpy would raise a broadcast error; not reachable here *)
                     end
              | S p => x :: np_set_aux p step r vals
              end
  end.
Definition np_set_stride (a : list N) (start step : nat) (vals : list N) : list N := np_set_aux start step a vals.
Definition np_drop_last (a : list N) : list N := removelast a.      (* a[:-1] *)
Definition np_take (a : list N) (n : nat) : list N := firstn n a.   (* a[:n] *)

(* C04/Proofs2.v — table consistency (finite, by computation over Gen/C04Gen.v) and the encoding facts
   that depend on the dtype tables. *)
From Coq Require Import NArith ZArith List Bool Arith Lia ZifyBool.
From IRV Require Import Base.Exn Gen.C04Gen C04.Model C04.Proofs1 C04.ProofsTc.
Import ListNotations.
Open Scope N_scope.
Ltac Zify.zify_post_hook ::= Z.to_euclidean_division_equations.

(* ------------------------------------------------------------------ finite tables *)

Lemma lookup_In {B} k (m : list (N * B)) v : lookup k m = Some v -> In (k, v) m.
Proof.
  induction m as [|[k' v'] r IH]; simpl; [discriminate|].
  destruct (N.eqb k k') eqn:E; intros H.
  - apply N.eqb_eq in E. inversion H; subst. left. reflexivity.
  - right. apply IH. exact H.
Qed.

Lemma table_forall (P : N -> N -> bool) :
  forallb (fun p => P (fst p) (snd p)) bitwidth_map = true ->
  forall dt bw, bitwidth dt = Some bw -> P dt bw = true.
Proof.
  intros H dt bw Hb. rewrite forallb_forall in H. apply (H (dt, bw)). apply lookup_In. exact Hb.
Qed.

Ltac by_table P H :=
  apply (table_forall P) in H; [| vm_compute; reflexivity].

Definition listN_eqb := list_eqb N.eqb.
Fixpoint nodupb {A} (eqb : A -> A -> bool) (l : list A) : bool :=
  match l with [] => true | x :: r => negb (existsb (eqb x) r) && nodupb eqb r end.
Definition subsetb (a b : list N) : bool := forallb (fun x => memN x b) a.
Definition values : list N := map snd dt_members.
Fixpoint lookupL {B} (k : list N) (m : list (list N * B)) : option B :=
  match m with [] => None | (k', v) :: r => if listN_eqb k k' then Some v else lookupL k r end.
Definition starts_with (p s : list N) : bool := listN_eqb p (firstn (length p) s).
Definition name_of (v : N) : list N :=
  match find (fun p => snd p =? v) dt_members with Some p => fst p | None => [] end.

(* DataType.short_name / from_short_name over the generated tables (the second dict is the inversion of the
   first, as checked syntactically by the generator) *)
Definition short_name (dt : N) : option (list N) := lookup dt short_name_map.
Definition from_short_name (s : list N) : option N := lookupL s (map (fun p => (snd p, fst p)) short_name_map).
(* DataType.numpy / from_numpy restricted to the table *)
Definition np_of (dt : N) : option (list N) := option_map fst (find (fun p => snd p =? dt) np_type_map).
Definition from_np (k : list N) : option N := lookupL k np_type_map.

Definition ml_prefix : list N := [109; 108; 95; 100; 116; 121; 112; 101; 115; 46].  (* "ml_dtypes." *)

Definition tables_consistent : bool :=
  (* members: distinct names and values *)
  nodupb N.eqb values && nodupb listN_eqb (map fst dt_members)
  (* bit width: defined exactly for the members other than STRING and UNDEFINED, no duplicate keys, legal widths *)
  && nodupb N.eqb (map fst bitwidth_map)
  && forallb (fun v => Bool.eqb (match bitwidth v with Some _ => true | None => false end)
                                (negb (v =? DT_STRING) && negb (v =? DT_UNDEFINED))) values
  && subsetb (map fst bitwidth_map) values
  && forallb (fun p => memN (snd p) [2; 4; 8; 16; 32; 64; 128]) bitwidth_map
  (* itemsize * 8 = bitwidth (itemsize = bitwidth / itemsize_divisor as a rational) *)
  && (itemsize_divisor =? 8)
  (* short names: total on members, injective, so from_short_name inverts short_name *)
  && nodupb N.eqb (map fst short_name_map) && nodupb listN_eqb (map snd short_name_map)
  && forallb (fun v => match short_name v with
                       | Some s => match from_short_name s with Some v' => v' =? v | None => false end
                       | None => false end) values
  && subsetb (map fst short_name_map) values
  (* numpy types: keys distinct, values distinct (so the inverted dict loses nothing), every member except
     UNDEFINED has one, and from_numpy (numpy dt) = dt *)
  && nodupb listN_eqb (map fst np_type_map) && nodupb N.eqb (map snd np_type_map)
  && forallb (fun v => if v =? DT_UNDEFINED then match np_of v with None => true | Some _ => false end
                       else match np_of v with
                            | Some k => match from_np k with Some v' => v' =? v | None => false end
                            | None => false end) values
  && subsetb (map snd np_type_map) values
  (* numpy item size (environment table) agrees with the bit width: whole bytes, sub-byte types in one byte;
     this is the `assert tensor.dtype.itemsize == array.itemsize` of the byte-representation builder *)
  && forallb (fun p => match bitwidth (snd p), lookupL (fst p) np_itemsize_env with
                       | Some bw, Some sz => if bw <? 8 then sz =? 1 else sz * 8 =? bw
                       | None, Some _ => snd p =? DT_STRING
                       | _, None => false end) np_type_map
  (* _NON_NUMPY_NATIVE_TYPES = the members whose numpy type comes from ml_dtypes *)
  && forallb (fun p => Bool.eqb (memN (snd p) set_non_native) (starts_with ml_prefix (fst p))) np_type_map
  && nodupb N.eqb set_non_native
  (* classification sets: inside the members, floating and integer disjoint, every floating type signed,
     integer types signed iff the name does not start with "U", everything sized is classified *)
  && subsetb set_floating values && subsetb set_integer values && subsetb set_signed values
  && forallb (fun v => negb (memN v set_integer)) set_floating
  && subsetb set_floating set_signed
  && forallb (fun v => Bool.eqb (memN v set_signed) (negb (starts_with [85] (name_of v)))) set_integer
  && forallb (fun v => memN v set_floating || memN v set_integer || memN v [DT_BOOL; DT_COMPLEX64; DT_COMPLEX128])
             (map fst bitwidth_map)
  && nodupb N.eqb set_floating && nodupb N.eqb set_integer && nodupb N.eqb set_signed.

Lemma tables_consistent_true : tables_consistent = true.
Proof. vm_compute. reflexivity. Qed.

(* dispatch sets of the code vs. the bit width (what the model's case analysis relies on) *)
Definition dispatch_ok (dt bw : N) : bool :=
  Bool.eqb (memN dt set_bytes_pack4) (bw =? 4)
  && Bool.eqb (memN dt set_bytes_pack2) (bw =? 2)
  && Bool.eqb (memN dt set_ext_subbyte) (bw <? 8)
  && negb (dt =? DT_STRING) && negb (dt =? DT_UNDEFINED)
  && Bool.eqb (memN dt set_pn_int32) ((bw <=? 32) && negb (dt =? DT_FLOAT) && negb (dt =? DT_UINT32))
  && (if memN dt set_pn_int32 then Bool.eqb (memN dt set_pb_16) (bw =? 16) && Bool.eqb (memN dt set_pb_8) (bw <=? 8)
                                   && (if bw =? 32 then dt =? DT_INT32 else true) else true)
  && Bool.eqb (memN dt set_pn_int64) (dt =? DT_INT64)
  && Bool.eqb (memN dt set_pn_uint64) ((dt =? DT_UINT64) || (dt =? DT_UINT32))
  && Bool.eqb (memN dt set_pn_float) ((dt =? DT_FLOAT) || (dt =? DT_COMPLEX64))
  && Bool.eqb (memN dt set_pn_double) ((dt =? DT_DOUBLE) || (dt =? DT_COMPLEX128)).

Lemma dispatch_table_true : forallb (fun p => dispatch_ok (fst p) (snd p)) bitwidth_map = true.
Proof. vm_compute. reflexivity. Qed.

Lemma bw_values dt bw : bitwidth dt = Some bw ->
  bw = 2 \/ bw = 4 \/ bw = 8 \/ bw = 16 \/ bw = 32 \/ bw = 64 \/ bw = 128.
Proof.
  intros H. by_table (fun (_ bw : N) => memN bw [2; 4; 8; 16; 32; 64; 128]) H.
  unfold memN in H. cbn [existsb] in H.
  repeat (apply orb_prop in H; destruct H as [H|H]; [apply N.eqb_eq in H; subst; tauto|]).
  discriminate.
Qed.

Ltac bw_cases H :=
  let V := fresh "V" in
  pose proof (bw_values _ _ H) as V;
  destruct V as [V|[V|[V|[V|[V|[V|V]]]]]]; subst.

Lemma f_pack4 dt bw : bitwidth dt = Some bw -> memN dt set_bytes_pack4 = (bw =? 4).
Proof. intros H. by_table (fun dt bw => Bool.eqb (memN dt set_bytes_pack4) (bw =? 4)) H. apply eqb_prop. exact H. Qed.
Lemma f_pack2 dt bw : bitwidth dt = Some bw -> memN dt set_bytes_pack2 = (bw =? 2).
Proof. intros H. by_table (fun dt bw => Bool.eqb (memN dt set_bytes_pack2) (bw =? 2)) H. apply eqb_prop. exact H. Qed.
Lemma f_subbyte dt bw : bitwidth dt = Some bw -> memN dt set_ext_subbyte = (bw <? 8).
Proof. intros H. by_table (fun dt bw => Bool.eqb (memN dt set_ext_subbyte) (bw <? 8)) H. apply eqb_prop. exact H. Qed.
Lemma f_not_string dt bw : bitwidth dt = Some bw -> (dt =? DT_STRING) = false /\ (dt =? DT_UNDEFINED) = false.
Proof.
  intros H. by_table (fun dt (_ : N) => negb (dt =? DT_STRING) && negb (dt =? DT_UNDEFINED)) H.
  apply andb_prop in H. destruct H as [H1 H2]. apply negb_true_iff in H1, H2. split; assumption.
Qed.
Lemma f_int32 dt bw : bitwidth dt = Some bw -> memN dt set_pn_int32 = true ->
  (bw <=? 32) = true /\ memN dt set_pb_16 = (bw =? 16) /\ memN dt set_pb_8 = (bw <=? 8)
  /\ (bw = 32 -> dt = DT_INT32).
Proof.
  intros H M.
  by_table (fun dt bw => if memN dt set_pn_int32 then (bw <=? 32) && Bool.eqb (memN dt set_pb_16) (bw =? 16)
     && Bool.eqb (memN dt set_pb_8) (bw <=? 8) && (if bw =? 32 then dt =? DT_INT32 else true) else true) H.
  rewrite M in H. repeat (apply andb_prop in H; destruct H as [H ?]).
  repeat split; try (apply eqb_prop; assumption); try assumption.
  intros ->. rewrite N.eqb_refl in *. apply N.eqb_eq. assumption.
Qed.
Lemma f_int64 dt bw : bitwidth dt = Some bw -> memN dt set_pn_int64 = true -> dt = DT_INT64 /\ bw = 64.
Proof.
  intros H M. by_table (fun dt bw => if memN dt set_pn_int64 then (dt =? DT_INT64) && (bw =? 64) else true) H.
  rewrite M in H. apply andb_prop in H. destruct H as [H1 H2]. apply N.eqb_eq in H1, H2. split; assumption.
Qed.
Lemma f_uint64 dt bw : bitwidth dt = Some bw -> memN dt set_pn_uint64 = true ->
  (dt = DT_UINT64 /\ bw = 64) \/ (dt = DT_UINT32 /\ bw = 32).
Proof.
  intros H M. by_table (fun dt bw => if memN dt set_pn_uint64 then ((dt =? DT_UINT64) && (bw =? 64)) || ((dt =? DT_UINT32) && (bw =? 32)) else true) H.
  rewrite M in H. apply orb_prop in H. destruct H as [H|H]; apply andb_prop in H; destruct H as [H1 H2];
    apply N.eqb_eq in H1, H2; [left | right]; split; assumption.
Qed.
Lemma f_float dt bw : bitwidth dt = Some bw -> memN dt set_pn_float = true ->
  (dt = DT_FLOAT /\ bw = 32) \/ (dt = DT_COMPLEX64 /\ bw = 64).
Proof.
  intros H M. by_table (fun dt bw => if memN dt set_pn_float then ((dt =? DT_FLOAT) && (bw =? 32)) || ((dt =? DT_COMPLEX64) && (bw =? 64)) else true) H.
  rewrite M in H. apply orb_prop in H. destruct H as [H|H]; apply andb_prop in H; destruct H as [H1 H2];
    apply N.eqb_eq in H1, H2; [left | right]; split; assumption.
Qed.
Lemma f_double dt bw : bitwidth dt = Some bw -> memN dt set_pn_double = true ->
  (dt = DT_DOUBLE /\ bw = 64) \/ (dt = DT_COMPLEX128 /\ bw = 128).
Proof.
  intros H M. by_table (fun dt bw => if memN dt set_pn_double then ((dt =? DT_DOUBLE) && (bw =? 64)) || ((dt =? DT_COMPLEX128) && (bw =? 128)) else true) H.
  rewrite M in H. apply orb_prop in H. destruct H as [H|H]; apply andb_prop in H; destruct H as [H1 H2];
    apply N.eqb_eq in H1, H2; [left | right]; split; assumption.
Qed.

(* ------------------------------------------------------------------ whole-byte widths *)

Lemma whole_byte bw : bw = 8 \/ bw = 16 \/ bw = 32 \/ bw = 64 \/ bw = 128 ->
  (0 < itemsize_of bw)%nat /\ 2 ^ bw = 256 ^ N.of_nat (itemsize_of bw) /\ (bw =? 4) = false /\ (bw =? 2) = false
  /\ (bw <? 8) = false /\ N.of_nat (itemsize_of bw) * 8 = bw.
Proof.
  intros [->|[->|[->|[->| ->]]]]; vm_compute; repeat split; try reflexivity; lia.
Qed.

Lemma in_range_bytes bw xs : bw = 8 \/ bw = 16 \/ bw = 32 \/ bw = 64 \/ bw = 128 ->
  in_range bw xs -> Forall (fun x => x < 256 ^ N.of_nat (itemsize_of bw)) xs.
Proof.
  intros Hb H. destruct (whole_byte bw Hb) as [_ [E _]]. rewrite <- E. exact H.
Qed.

(* ------------------------------------------------------------------ le_pack *)

Lemma le_pack_eq dt bw xs : bitwidth dt = Some bw -> le_pack dt xs = le_pack_bw bw xs.
Proof. intros H. unfold le_pack. rewrite H. reflexivity. Qed.

Lemma le_pack_nil dt : le_pack dt [] = [].
Proof.
  unfold le_pack. destruct (bitwidth dt) as [bw|]; [|reflexivity].
  unfold le_pack_bw. destruct (bw =? 4); [reflexivity|]. destruct (bw =? 2); reflexivity.
Qed.

Lemma nbytes_whole bw n : bw = 8 \/ bw = 16 \/ bw = 32 \/ bw = 64 \/ bw = 128 ->
  nbytes_bw bw n = N.of_nat (itemsize_of bw) * n.
Proof.
  unfold nbytes_bw, ceil_div, itemsize_divisor.
  intros [->|[->|[->|[->| ->]]]];
    match goal with |- context [itemsize_of ?b] => let v := eval vm_compute in (itemsize_of b) in change (itemsize_of b) with v end;
    lia.
Qed.

Lemma nbytes_code_exact bw size : nbytes_code bw size = nbytes_bw bw size.
Proof. unfold nbytes_code, nbytes_bw, ceil_div, itemsize_divisor. f_equal. lia. Qed.

Lemma le_pack_length dt bw xs : bitwidth dt = Some bw ->
  N.of_nat (length (le_pack dt xs)) = nbytes_bw bw (N.of_nat (length xs)).
Proof.
  intros H. rewrite (le_pack_eq dt bw xs H). unfold le_pack_bw. bw_cases H.
  - change (2 =? 4) with false. change (2 =? 2) with true. cbv iota. rewrite spec_pack2_length.
    unfold nbytes_bw, ceil_div, itemsize_divisor. f_equal. lia.
  - change (4 =? 4) with true. cbv iota. rewrite spec_pack4_length.
    unfold nbytes_bw, ceil_div, itemsize_divisor. f_equal. lia.
  - change (8 =? 4) with false. change (8 =? 2) with false. cbv iota.
    rewrite encode_elems_length, nbytes_whole by tauto. lia.
  - change (16 =? 4) with false. change (16 =? 2) with false. cbv iota.
    rewrite encode_elems_length, nbytes_whole by tauto. lia.
  - change (32 =? 4) with false. change (32 =? 2) with false. cbv iota.
    rewrite encode_elems_length, nbytes_whole by tauto. lia.
  - change (64 =? 4) with false. change (64 =? 2) with false. cbv iota.
    rewrite encode_elems_length, nbytes_whole by tauto. lia.
  - change (128 =? 4) with false. change (128 =? 2) with false. cbv iota.
    rewrite encode_elems_length, nbytes_whole by tauto. lia.
Qed.

Lemma le_pack_bytes dt bw xs : bitwidth dt = Some bw -> in_range bw xs ->
  Forall (fun b => b < 256) (le_pack dt xs).
Proof.
  intros H R. rewrite (le_pack_eq dt bw xs H). unfold le_pack_bw.
  destruct (bw =? 4) eqn:E4; [apply N.eqb_eq in E4; subst; apply spec_pack4_bytes; exact R|].
  destruct (bw =? 2) eqn:E2; [apply N.eqb_eq in E2; subst; apply spec_pack2_bytes; exact R|].
  apply encode_elems_bytes.
Qed.

Lemma le_pack_whole dt bw xs : bitwidth dt = Some bw -> bw = 8 \/ bw = 16 \/ bw = 32 \/ bw = 64 \/ bw = 128 ->
  le_pack dt xs = encode_elems (itemsize_of bw) xs.
Proof.
  intros H Hb. rewrite (le_pack_eq dt bw xs H). unfold le_pack_bw.
  destruct (whole_byte bw Hb) as [_ [_ [E4 [E2 _]]]]. rewrite E4, E2. reflexivity.
Qed.

Lemma elem_id dt bw xs : bitwidth dt = Some bw -> in_range bw xs -> map (elem dt) xs = xs.
Proof.
  intros H R. unfold elem. rewrite H. unfold elem_bw. destruct (bw <? 8).
  - apply map_mod_small. exact R.
  - apply map_id.
Qed.

Lemma elem_whole dt bw st : bitwidth dt = Some bw -> (bw <? 8) = false -> map (elem dt) st = st.
Proof. intros H E. unfold elem. rewrite H. unfold elem_bw. rewrite E. apply map_id. Qed.

Lemma size_of_logical (shape xs : list N) : length xs = nsize shape -> shape_size shape = N.of_nat (length xs).
Proof. unfold nsize. intros ->. rewrite N2Nat.id. reflexivity. Qed.

(* unpacking the specification bytes gives the elements back *)
Lemma unpack_le_pack dt bw xs : bitwidth dt = Some bw -> in_range bw xs ->
  (bw = 4 -> unpack_4bitx2 (le_pack dt xs) (length xs) = xs) /\
  (bw = 2 -> unpack_2bitx4 (le_pack dt xs) (length xs) = xs).
Proof.
  intros H R. rewrite (le_pack_eq dt bw xs H). split; intros ->; unfold le_pack_bw.
  - change (4 =? 4) with true. cbv iota. apply unpack4_correct. exact R.
  - change (2 =? 4) with false. change (2 =? 2) with true. cbv iota. apply unpack2_correct. exact R.
Qed.

(* the array-backed packing is the specification packing of the logical elements *)
Lemma pack_store dt bw store : bitwidth dt = Some bw ->
  (bw = 4 -> pack_4bitx2 store = le_pack dt (map (elem dt) store)) /\
  (bw = 2 -> pack_2bitx4 store = le_pack dt (map (elem dt) store)).
Proof.
  intros H. split; intros ->; rewrite (le_pack_eq dt _ _ H); unfold le_pack_bw, elem; rewrite H; unfold elem_bw.
  - change (4 =? 4) with true. change (4 <? 8) with true. cbv iota. apply pack4_correct.
  - change (2 =? 4) with false. change (2 =? 2) with true. change (2 <? 8) with true. cbv iota. apply pack2_correct.
Qed.

(* complex: interleaved halves *)
Lemma complex_pairs_interleave w xs : complex_pairs w (interleave w xs) = Ok xs.
Proof.
  induction xs as [|x r IH]; [reflexivity|]. cbn [interleave complex_pairs]. rewrite IH. f_equal. f_equal.
  pose proof (N.div_mod x (2 ^ w)) as D. assert (2 ^ w <> 0) by (apply N.pow_nonzero; discriminate).
  specialize (D H). lia.
Qed.

Lemma encode_interleave (h : nat) xs :
  encode_elems h (interleave (N.of_nat h * 8) xs) = encode_elems (h + h) xs.
Proof.
  unfold encode_elems. induction xs as [|x r IH]; [reflexivity|].
  cbn [interleave flat_map]. rewrite IH, app_assoc. f_equal. rewrite le_encode_split.
  assert (E : 2 ^ (N.of_nat h * 8) = 256 ^ N.of_nat h).
  { rewrite N.mul_comm, N.pow_mul_r. reflexivity. }
  rewrite E. reflexivity.
Qed.

Lemma interleave_nil w xs : interleave w xs = [] -> xs = [].
Proof. destruct xs; [reflexivity | discriminate]. Qed.

(* C04/Model.v — executable model of the tensor representations of onnx_ir (values and bytes).

   An element is its bit pattern x : N (x < 2^bitwidth): floats, complex halves, bools and integers alike;
   no float arithmetic is modelled, values are compared as bit patterns.  For the sub-byte types (2/4 bit)
   numpy()/ml_dtypes keep one element per *storage byte*; the logical element is the low `bw` bits of it
   (`elem`), which is what ml_dtypes reads (checked by the harness on all 256 bytes).

   The dtype dispatch of the code (`dtype in {...}`, `dtype.bitwidth == 4`) is modelled with the sets and the
   bit-width table of Gen/C04Gen.v, which are regenerated from the sources on every run.

   Definitions only; this file must keep running when a proof breaks. *)
From Coq Require Import NArith ZArith List Bool Arith.
From IRV Require Import Base.Exn Gen.C04Gen.
Import ListNotations.
Open Scope N_scope.

(* ------------------------------------------------------------------ tables *)

Fixpoint lookup {B} (k : N) (m : list (N * B)) : option B :=
  match m with
  | [] => None
  | (k', v) :: r => if N.eqb k k' then Some v else lookup k r
  end.

Definition memN (x : N) (s : list N) : bool := existsb (N.eqb x) s.

(* DataType.bitwidth: raises TypeError outside the table *)
Definition bitwidth (dt : N) : option N := lookup dt bitwidth_map.

Definition ceil_div (a b : N) : N := (a + b - 1) / b.

(* TensorBase.nbytes = math.ceil(itemsize * size), itemsize = bitwidth / 8 (exact for size < 2^50) *)
Definition nbytes_bw (bw size : N) : N := ceil_div (size * bw) itemsize_divisor.

(* TensorBase.nbytes is `(bitwidth * size + 7) // 8` = Gen.nbytes_code (integer arithmetic, since fix c6a08a9).
   Before that fix it was `math.ceil(self.dtype.itemsize * self.size)` in float64: itemsize = bitwidth/8 is a power
   of two, so the only rounding was the int -> float conversion of `size` (nearest, ties to even, 53 significant
   bits); kept as `nbytes_float_before_fix` for the record of the repaired defect. *)
Definition rne53 (n : N) : N :=
  if n <? 2 ^ 53 then n
  else let e := N.log2 n - 52 in
       let q := N.shiftr n e in
       let r := n - N.shiftl q e in
       let half := 2 ^ (e - 1) in
       if (half <? r) || ((r =? half) && N.odd q) then N.shiftl (q + 1) e else N.shiftl q e.
Definition nbytes_float_before_fix (bw size : N) : N := ceil_div (rne53 size * bw) itemsize_divisor.

Definition shape_size (shape : list N) : N := fold_right N.mul 1 shape.
Definition nsize (shape : list N) : nat := N.to_nat (shape_size shape).

(* ------------------------------------------------------------------ little-endian bytes *)

Fixpoint le_encode (nb : nat) (x : N) : list N :=
  match nb with
  | O => []
  | S k => x mod 256 :: le_encode k (x / 256)
  end.

Fixpoint le_decode (bs : list N) : N :=
  match bs with
  | [] => 0
  | b :: r => b + 256 * le_decode r
  end.

Fixpoint groups (fuel nb : nat) (bs : list N) : list (list N) :=
  match fuel with
  | O => []
  | S f => match bs with
           | [] => []
           | _ => firstn nb bs :: groups f nb (skipn nb bs)
           end
  end.

Definition encode_elems (nb : nat) (xs : list N) : list N := flat_map (le_encode nb) xs.
Definition decode_elems (nb : nat) (bs : list N) : list N := map le_decode (groups (length bs) nb bs).

(* ndarray.resize(n, refcheck=False) on a flat array that owns its data: truncate or zero-fill *)
Definition resize (n : nat) (l : list N) : list N := firstn n l ++ repeat 0 (n - length l).

(* ndarray.reshape: element count must match *)
Definition reshape (n : nat) (l : list N) : res (list N) :=
  if Nat.eqb (length l) n then Ok l else Raise ValueError.

Definition u8 (x : N) : N := x mod 256.     (* uint8 wrap-around of in-place shifts *)

(* ------------------------------------------------------------------ _type_casting.py *)

(* array_flat &= 0x0F ; array_flat[1::2] <<= 4 ; array_flat[0::2] | array_flat[1::2] *)
Fixpoint pack4_pairs (l : list N) : list N :=
  match l with
  | a :: b :: r => N.lor a (u8 (N.shiftl b 4)) :: pack4_pairs r
  | _ => []
  end.

Definition pack_4bitx2_hand (store : list N) : list N :=
  let size := length store in
  let flat := if Nat.odd size then resize (S size) store else store in
  pack4_pairs (map (fun x => N.land x 15) flat).

Definition unpack_4bitx2_hand (data : list N) (n : nat) : list N :=
  let result := flat_map (fun d => [N.land d 15; N.shiftr (N.land d 240) 4]) data in
  let result := if Nat.eqb (length result) (S n) then removelast result else result in
  resize n result.

Fixpoint pack2_quads (l : list N) : list N :=
  match l with
  | a :: b :: c :: d :: r =>
      N.lor (N.lor (N.lor a (u8 (N.shiftl b 2))) (u8 (N.shiftl c 4))) (u8 (N.shiftl d 6)) :: pack2_quads r
  | _ => []
  end.

Definition pack_2bitx4_hand (store : list N) : list N :=
  let size := length store in
  let padding := ((4 - size mod 4) mod 4)%nat in
  let flat := if Nat.ltb 0 padding then resize (size + padding) store else store in
  pack2_quads (map (fun x => N.land x 3) flat).

Definition unpack_2bitx4_hand (data : list N) (n : nat) : list N :=
  let result := flat_map (fun d => [N.land d 3; N.shiftr (N.land d 12) 2;
                                    N.shiftr (N.land d 48) 4; N.shiftr (N.land d 192) 6]) data in
  let result := if Nat.ltb n (length result) then firstn n result else result in
  resize n result.

(* The functions the rest of the model uses are the TRANSLATED ones (Gen/C04Gen.v, regenerated from
   _type_casting.py on every run); the `_hand` versions above are the readable pair/quad-recursion forms that
   ProofsTc.v proves equal to them for every input. *)
Definition pack_4bitx2 := tc_pack_4bitx2.
Definition unpack_4bitx2 := tc_unpack_4bitx2.
Definition pack_2bitx4 := tc_pack_2bitx4.
Definition unpack_2bitx4 := tc_unpack_2bitx4.

(* ------------------------------------------------------------------ specification encoding *)

(* The ONNX packing of in-range elements, stated arithmetically (no bit operations). *)
Fixpoint spec_pack4 (xs : list N) : list N :=
  match xs with
  | a :: b :: r => a + 16 * b :: spec_pack4 r
  | [a] => [a]
  | [] => []
  end.

Fixpoint spec_pack2 (xs : list N) : list N :=
  match xs with
  | a :: b :: c :: d :: r => a + 4 * b + 16 * c + 64 * d :: spec_pack2 r
  | [a; b; c] => [a + 4 * b + 16 * c]
  | [a; b] => [a + 4 * b]
  | [a] => [a]
  | [] => []
  end.

Definition itemsize_of (bw : N) : nat := N.to_nat (bw / 8).

Definition le_pack_bw (bw : N) (xs : list N) : list N :=
  if bw =? 4 then spec_pack4 xs
  else if bw =? 2 then spec_pack2 xs
  else encode_elems (itemsize_of bw) xs.

Definition le_pack (dt : N) (xs : list N) : list N :=
  match bitwidth dt with
  | Some bw => le_pack_bw bw xs
  | None => []
  end.

(* logical element of a numpy() storage cell *)
Definition elem_bw (bw : N) (s : N) : N := if bw <? 8 then s mod 2 ^ bw else s.
Definition elem (dt : N) (s : N) : N :=
  match bitwidth dt with Some bw => elem_bw bw s | None => s end.

(* ------------------------------------------------------------------ representations *)

Record proto := {
  p_dtype : N;
  p_dims : list N;
  p_raw : option (list N);      (* HasField("raw_data") *)
  p_float : list N;             (* float32 bit patterns *)
  p_int32 : list Z;
  p_int64 : list Z;
  p_double : list N;            (* float64 bit patterns *)
  p_uint64 : list N
}.

Inductive rep : Type :=
| RArray (dt : N) (shape : list N) (store : list N)        (* ir.Tensor over a numpy array *)
| RTorch (dt : N) (shape : list N) (store : list N)        (* tensor_adapters.TorchTensor *)
| RTorchConj (dt : N) (shape : list N) (storage : list N)  (* TorchTensor over a lazily conjugated complex view *)
| RPacked (dt : N) (shape : list N) (raw : list N)         (* ir.PackedTensor over packed uint8 *)
| RProto (p : proto)                                       (* serde.TensorProtoTensor *)
| RExternal (dt : N) (shape : list N) (file : list N) (offset length : option N)
| RLazy (dt : N) (shape : list N) (inner : rep).           (* declared dtype/shape + thunk *)

Fixpoint r_dtype (r : rep) : N :=
  match r with
  | RArray dt _ _ | RTorch dt _ _ | RTorchConj dt _ _ | RPacked dt _ _ | RExternal dt _ _ _ _ | RLazy dt _ _ => dt
  | RProto p => p_dtype p
  end.

Fixpoint r_shape (r : rep) : list N :=
  match r with
  | RArray _ s _ | RTorch _ s _ | RTorchConj _ s _ | RPacked _ s _ | RExternal _ s _ _ _ | RLazy _ s _ => s
  | RProto p => p_dims p
  end.

Definition r_nbytes (r : rep) : res N :=
  match bitwidth (r_dtype r) with
  | Some bw => Ok (nbytes_code bw (shape_size (r_shape r)))
  | None => Raise TypeError
  end.

Definition narrow (k : N) (e : Z) : N := Z.to_N (e mod 2 ^ Z.of_N k).

(* array.view(complex): consecutive (re, im) pairs of w-bit patterns *)
Fixpoint complex_pairs (w : N) (l : list N) : res (list N) :=
  match l with
  | [] => Ok []
  | [_] => Raise ValueError
  | re :: im :: r => match complex_pairs w r with
                     | Ok t => Ok (re + 2 ^ w * im :: t)
                     | Raise e => Raise e
                     end
  end.

(* np.frombuffer(raw, dtype) with count=-1: the buffer must be a whole number of items *)
Definition frombuffer_all (nb : nat) (bs : list N) : res (list N) :=
  if Nat.eqb (length bs mod nb) 0 then Ok (decode_elems nb bs) else Raise ValueError.

(* serde.TensorProtoTensor.numpy *)
Definition proto_numpy (p : proto) : res (list N) :=
  let dt := p_dtype p in
  let n := nsize (p_dims p) in
  if dt =? DT_UNDEFINED then Raise ValueError else
  match p_raw p with
  | Some raw =>
      match bitwidth dt with
      | None => Raise TypeError
      | Some bw =>
          if bw =? 4 then Ok (unpack_4bitx2 raw n)
          else if bw =? 2 then Ok (unpack_2bitx4 raw n)
          else res_bind (frombuffer_all (itemsize_of bw) raw) (reshape n)
      end
  | None =>
  if dt =? DT_STRING then Raise OtherError (* string tensors: see the string section *) else
  match p_int32 p with
  | _ :: _ =>
      if negb (memN dt set_pn_int32) then Raise AssertionError else
      match bitwidth dt with
      | None => Raise TypeError
      | Some bw =>
          if bw =? 32 then reshape n (map (narrow 32) (p_int32 p))
          else if bw =? 16 then reshape n (map (narrow 16) (p_int32 p))
          else if bw =? 8 then reshape n (map (narrow 8) (p_int32 p))
          else if bw =? 4 then Ok (unpack_4bitx2 (map (narrow 8) (p_int32 p)) n)
          else if bw =? 2 then Ok (unpack_2bitx4 (map (narrow 8) (p_int32 p)) n)
          else Raise ValueError
      end
  | [] =>
  match p_int64 p with
  | _ :: _ =>
      if negb (memN dt set_pn_int64) then Raise AssertionError
      else reshape n (map (narrow 64) (p_int64 p))
  | [] =>
  match p_uint64 p with
  | _ :: _ =>
      if negb (memN dt set_pn_uint64) then Raise AssertionError
      else if dt =? DT_UINT32 then reshape n (map (fun x => x mod 2 ^ 32) (p_uint64 p))
      else reshape n (p_uint64 p)
  | [] =>
  match p_float p with
  | _ :: _ =>
      if negb (memN dt set_pn_float) then Raise AssertionError
      else if dt =? DT_COMPLEX64 then res_bind (complex_pairs 32 (p_float p)) (reshape n)
      else reshape n (p_float p)
  | [] =>
  match p_double p with
  | _ :: _ =>
      if negb (memN dt set_pn_double) then Raise AssertionError
      else if dt =? DT_COMPLEX128 then res_bind (complex_pairs 64 (p_double p)) (reshape n)
      else reshape n (p_double p)
  | [] => Ok (repeat 0 n)           (* np.zeros(shape) *)
  end end end end end end.

(* serde.TensorProtoTensor.tobytes (note the different field order) *)
Definition proto_tobytes (p : proto) : res (list N) :=
  let dt := p_dtype p in
  if dt =? DT_STRING then Raise ValueError else
  if dt =? DT_UNDEFINED then Raise ValueError else
  match p_raw p with
  | Some raw => Ok raw
  | None =>
  match p_float p with
  | _ :: _ => Ok (encode_elems 4 (p_float p))
  | [] =>
  match p_int32 p with
  | _ :: _ =>
      if memN dt set_pb_16 then Ok (encode_elems 2 (map (narrow 16) (p_int32 p)))
      else if memN dt set_pb_8 then Ok (encode_elems 1 (map (narrow 8) (p_int32 p)))
      else if dt =? DT_INT32 then Ok (encode_elems 4 (map (narrow 32) (p_int32 p)))
      else Raise AssertionError
  | [] =>
  match p_int64 p with
  | _ :: _ => Ok (encode_elems 8 (map (narrow 64) (p_int64 p)))
  | [] =>
  match p_double p with
  | _ :: _ => Ok (encode_elems 8 (p_double p))
  | [] =>
  match p_uint64 p with
  | _ :: _ =>
      if dt =? DT_UINT32 then Ok (encode_elems 4 (map (fun x => x mod 2 ^ 32) (p_uint64 p)))
      else if dt =? DT_UINT64 then Ok (encode_elems 8 (p_uint64 p))
      else Raise AssertionError
  | [] => Ok []
  end end end end end end.

(* _core._create_np_array_for_byte_representation + ndarray.tobytes *)
Definition array_tobytes (dt : N) (store : list N) : res (list N) :=
  if memN dt set_bytes_pack4 then Ok (pack_4bitx2 store)
  else if memN dt set_bytes_pack2 then Ok (pack_2bitx4 store)
  else match bitwidth dt with
       | None => Raise TypeError
       | Some bw =>
           (* assert tensor.dtype.itemsize == array.itemsize : numpy stores sub-byte types in one byte *)
           if bw <? 8 then Raise AssertionError else Ok (encode_elems (itemsize_of bw) store)
       end.

(* PackedTensor.numpy_packed *)
Definition packed_raw (dt : N) (shape raw : list N) : res (list N) :=
  match bitwidth dt with
  | None => Raise TypeError
  | Some bw => if N.of_nat (length raw) =? nbytes_code bw (shape_size shape) then Ok raw else Raise ValueError
  end.

Definition packed_numpy (dt : N) (shape raw : list N) : res (list N) :=
  res_bind (packed_raw dt shape raw) (fun a =>
    match bitwidth dt with
    | Some 2 => Ok (unpack_2bitx4 a (nsize shape))
    | _ => Ok (unpack_4bitx2 a (nsize shape))
    end).

Definition or0 (o : option N) : N := match o with Some x => x | None => 0 end.
(* `self._length or self.nbytes` *)
Definition or_else (o : option N) (d : N) : N :=
  match o with Some x => if x =? 0 then d else x | None => d end.

(* ExternalTensor._load: mmap of the whole file, np.frombuffer(offset, count), unpack *)
Definition ext_load (dt : N) (shape file : list N) (offset : option N) : res (list N) :=
  let n := nsize shape in
  match bitwidth dt with
  | None => Raise TypeError
  | Some bw =>
      if Nat.eqb n 0 then Ok [] else
      if Nat.eqb (length file) 0 then Raise ValueError else
      let off := N.to_nat (or0 offset) in
      let itemsize := if memN dt set_ext_subbyte then 1%nat else Nat.max 1 (itemsize_of bw) in
      let count := if memN dt set_ext_subbyte then N.to_nat (nbytes_code bw (shape_size shape)) else n in
      if Nat.ltb (length file) off then Raise ValueError else
      if Nat.ltb (length file - off) (count * itemsize) then Raise ValueError else
      let arr := decode_elems itemsize (firstn (count * itemsize) (skipn off file)) in
      if bw =? 4 then Ok (unpack_4bitx2 arr n)
      else if bw =? 2 then Ok (unpack_2bitx4 arr n)
      else reshape n arr
  end.

Definition ext_tobytes (dt : N) (shape file : list N) (offset length : option N) : res (list N) :=
  match bitwidth dt with
  | None => Raise TypeError
  | Some bw =>
      if Nat.eqb (nsize shape) 0 then Ok [] else
      res_bind (ext_load dt shape file offset) (fun _ =>
        let off := N.to_nat (or0 offset) in
        let len := N.to_nat (or_else length (nbytes_code bw (shape_size shape))) in
        Ok (firstn len (skipn off file)))
  end.

Fixpoint r_numpy (r : rep) : res (list N) :=
  match r with
  | RArray _ _ store => Ok store
  | RTorch _ _ store => Ok store
  | RTorchConj dt _ storage =>
      (* numpy(force=True) resolves the conjugation: the sign bit of the imaginary (high) half flips *)
      match bitwidth dt with
      | Some bw => Ok (map (fun s => N.lxor s (2 ^ (bw - 1))) storage)
      | None => Raise TypeError
      end
  | RPacked dt shape raw => packed_numpy dt shape raw
  | RProto p => proto_numpy p
  | RExternal dt shape file off _ => ext_load dt shape file off
  | RLazy _ _ inner => r_numpy inner
  end.

Fixpoint r_tobytes (r : rep) : res (list N) :=
  match r with
  | RArray dt _ store => array_tobytes dt store
  | RTorch dt _ store =>
      (* bytes of the contiguous torch storage: element_size() bytes per element *)
      match bitwidth dt with
      | Some bw => Ok (encode_elems (itemsize_of bw) store)
      | None => Raise TypeError
      end
  | RTorchConj dt _ storage =>
      (* _get_cbytes: detach().cpu().resolve_conj().resolve_neg().contiguous() — the resolved values (since fix
         c3d2ba2; before it the bytes were the unresolved storage, see tobytes_conj_before_fix) *)
      match bitwidth dt with
      | Some bw => Ok (encode_elems (itemsize_of bw) (map (fun s => N.lxor s (2 ^ (bw - 1))) storage))
      | None => Raise TypeError
      end
  | RPacked dt shape raw => packed_raw dt shape raw
  | RProto p => proto_tobytes p
  | RExternal dt shape file off len => ext_tobytes dt shape file off len
  | RLazy _ _ inner => r_tobytes inner
  end.

(* before fix c3d2ba2: the bytes of a lazily conjugated view were its unresolved storage *)
Definition tobytes_conj_before_fix (dt : N) (storage : list N) : res (list N) :=
  match bitwidth dt with
  | Some bw => Ok (encode_elems (itemsize_of bw) storage)
  | None => Raise TypeError
  end.

(* ------------------------------------------------------------------ tofile *)

(* a destination: content and current position (regular file opened for writing, or io.BytesIO) *)
Record dest := { d_content : list N; d_pos : nat }.

(* write(bs) at the current position: overwrites / extends (zero fill after a seek past the end) *)
Definition write (d : dest) (bs : list N) : dest :=
  match bs with
  | [] => d
  | _ => {| d_content := resize (d_pos d) (d_content d) ++ bs ++ skipn (d_pos d + length bs) (d_content d);
            d_pos := d_pos d + length bs |}
  end.

(* Phase 1 of ExternalTensor.tofile: os.copy_file_range called until it returns 0 or an error ends the
   phase; `ks` is the sequence of byte counts the kernel chooses to copy (environment), each clamped to
   min(kmax, remaining) and to what the source file still holds.  Explicit offsets + final seek are
   modelled as writes on a destination whose position tracks destination_offset + copied. *)
Fixpoint kernel_phase (ks : list N) (kmax : N) (src : list N) (togo : N) (d : dest) : list N * N * dest :=
  match ks with
  | [] => (src, togo, d)
  | k :: ks' =>
      if togo =? 0 then (src, togo, d) else
      let c := firstn (N.to_nat (N.min k (N.min kmax togo))) src in
      match c with
      | [] => (src, togo, d)
      | _ => kernel_phase ks' kmax (skipn (length c) src) (togo - N.of_nat (length c)) (write d c)
      end
  end.

(* Phase 2: src.read(min(chunk, togo)) / file.write(chunk) until done; an empty read raises OSError. *)
Fixpoint copy_loop (fuel : nat) (chunk : N) (src : list N) (togo : N) (d : dest) : res dest :=
  if togo =? 0 then Ok d else
  match fuel with
  | O => Raise OtherError          (* out of fuel: excluded by the theorems (fuel = bytes to copy) *)
  | S f =>
      let c := firstn (N.to_nat (N.min chunk togo)) src in
      match c with
      | [] => Raise OSError
      | _ => copy_loop f chunk (skipn (length c) src) (togo - N.of_nat (length c)) (write d c)
      end
  end.

Record tofile_env := { e_kernel : list N; e_kmax : N; e_chunk : N }.

Definition ext_tofile (env : tofile_env) (dt : N) (shape file : list N) (offset length : option N) (d : dest)
  : res dest :=
  match bitwidth dt with
  | None => Raise TypeError
  | Some bw =>
      let togo := or_else length (nbytes_code bw (shape_size shape)) in
      let src := skipn (N.to_nat (or0 offset)) file in
      let '(src', togo', d') := kernel_phase (e_kernel env) (e_kmax env) src togo d in
      copy_loop (N.to_nat togo') (e_chunk env) src' togo' d'
  end.

Fixpoint r_tofile (env : tofile_env) (r : rep) (d : dest) : res dest :=
  match r with
  | RExternal dt shape file off len => ext_tofile env dt shape file off len d
  | RLazy _ _ inner => r_tofile env inner d
  | _ => res_bind (r_tobytes r) (fun bs => Ok (write d bs))   (* ndarray.tofile / file.write(tobytes()) *)
  end.

(* serde.serialize_tensor_into: proto-backed tensors are copied, everything else goes to raw_data *)
Definition empty_proto (dt : N) (dims : list N) : proto :=
  {| p_dtype := dt; p_dims := dims; p_raw := None; p_float := []; p_int32 := []; p_int64 := [];
     p_double := []; p_uint64 := [] |}.

Definition serialize (r : rep) : res proto :=
  match r with
  | RProto p => Ok p
  | _ => res_bind (r_tobytes r) (fun bs =>
           Ok {| p_dtype := r_dtype r; p_dims := r_shape r; p_raw := Some bs; p_float := []; p_int32 := [];
                 p_int64 := []; p_double := []; p_uint64 := [] |})
  end.

(* ------------------------------------------------------------------ "r represents the logical data (dt, shape, xs)" *)

Definition in_range (bw : N) (xs : list N) : Prop := Forall (fun x => x < 2 ^ bw) xs.

Fixpoint interleave (w : N) (xs : list N) : list N :=
  match xs with
  | [] => []
  | x :: r => x mod 2 ^ w :: x / 2 ^ w :: interleave w r
  end.

Inductive represents (dt : N) (shape : list N) (xs : list N) : rep -> Prop :=
| rep_array store :
    map (elem dt) store = xs ->
    represents dt shape xs (RArray dt shape store)
| rep_torch bw : bitwidth dt = Some bw -> 8 <= bw ->
    represents dt shape xs (RTorch dt shape xs)
| rep_torch_conj bw storage : bitwidth dt = Some bw -> 8 <= bw ->
    map (fun s => N.lxor s (2 ^ (bw - 1))) storage = xs ->
    represents dt shape xs (RTorchConj dt shape storage)
| rep_packed bw : bitwidth dt = Some bw -> bw < 8 ->
    represents dt shape xs (RPacked dt shape (le_pack dt xs))
| rep_proto_raw :
    represents dt shape xs (RProto {| p_dtype := dt; p_dims := shape; p_raw := Some (le_pack dt xs);
        p_float := []; p_int32 := []; p_int64 := []; p_double := []; p_uint64 := [] |})
| rep_proto_int32 bw es : bitwidth dt = Some bw -> memN dt set_pn_int32 = true ->
    (if bw <? 8 then map (narrow 8) es = le_pack dt xs else map (narrow bw) es = xs) ->
    represents dt shape xs (RProto {| p_dtype := dt; p_dims := shape; p_raw := None;
        p_float := []; p_int32 := es; p_int64 := []; p_double := []; p_uint64 := [] |})
| rep_proto_int64 es : memN dt set_pn_int64 = true -> map (narrow 64) es = xs ->
    represents dt shape xs (RProto {| p_dtype := dt; p_dims := shape; p_raw := None;
        p_float := []; p_int32 := []; p_int64 := es; p_double := []; p_uint64 := [] |})
| rep_proto_uint64 bw es : bitwidth dt = Some bw -> memN dt set_pn_uint64 = true -> map (fun e => e mod 2 ^ bw) es = xs ->
    Forall (fun e => e < 2 ^ 64) es ->
    represents dt shape xs (RProto {| p_dtype := dt; p_dims := shape; p_raw := None;
        p_float := []; p_int32 := []; p_int64 := []; p_double := []; p_uint64 := es |})
| rep_proto_float : memN dt set_pn_float = true ->
    represents dt shape xs (RProto {| p_dtype := dt; p_dims := shape; p_raw := None;
        p_float := (if dt =? DT_COMPLEX64 then interleave 32 xs else xs);
        p_int32 := []; p_int64 := []; p_double := []; p_uint64 := [] |})
| rep_proto_double : memN dt set_pn_double = true ->
    represents dt shape xs (RProto {| p_dtype := dt; p_dims := shape; p_raw := None;
        p_float := []; p_int32 := []; p_int64 := [];
        p_double := (if dt =? DT_COMPLEX128 then interleave 64 xs else xs); p_uint64 := [] |})
| rep_external pre post len bw : bitwidth dt = Some bw ->
    len = None \/ len = Some (nbytes_bw bw (shape_size shape)) ->
    represents dt shape xs (RExternal dt shape (pre ++ le_pack dt xs ++ post)
                              (Some (N.of_nat (length pre))) len)
| rep_external_offset_none post len bw : bitwidth dt = Some bw ->
    len = None \/ len = Some (nbytes_bw bw (shape_size shape)) ->
    represents dt shape xs (RExternal dt shape (le_pack dt xs ++ post) None len)
| rep_lazy inner : represents dt shape xs inner -> represents dt shape xs (RLazy dt shape inner).

(* the logical data itself is well formed *)
Definition logical (dt : N) (shape : list N) (xs : list N) : Prop :=
  exists bw, bitwidth dt = Some bw /\ in_range bw xs /\ length xs = nsize shape.

(* ------------------------------------------------------------------ string tensors *)

(* Elements are byte strings.  StringTensor / TensorProtoTensor(STRING) return np.array(list_of_bytes)
   from numpy(): numpy's fixed-width 'S' dtype drops trailing NUL bytes of every element. *)
Fixpoint strip_nul_rev (l : list N) : list N :=
  match l with
  | 0 :: r => strip_nul_rev r
  | _ => l
  end.
Definition np_bytes_elem (s : list N) : list N := rev (strip_nul_rev (rev s)).

Inductive srep : Type :=
| SList (shape : list N) (ss : list (list N))       (* StringTensor over a Sequence[bytes] / proto.string_data *)
| SObjArray (shape : list N) (ss : list (list N))   (* StringTensor over an object ndarray *)
| SBytesArray (shape : list N) (ss : list (list N)) (* StringTensor over an 'S' ndarray (already fixed width) *)
| SProto (shape : list N) (ss : list (list N)).     (* TensorProtoTensor with data_type STRING *)

(* numpy(): list/proto-backed tensors build an object array, which keeps every byte (since fix 5633eae) *)
Definition s_numpy (r : srep) : list (list N) :=
  match r with
  | SList _ ss | SProto _ ss | SObjArray _ ss => ss
  | SBytesArray _ ss => map np_bytes_elem ss
  end.

(* before fix 5633eae: np.array(list_of_bytes) -> fixed-width 'S' dtype, trailing NULs dropped *)
Definition s_numpy_before_fix (r : srep) : list (list N) :=
  match r with
  | SList _ ss | SProto _ ss | SBytesArray _ ss => map np_bytes_elem ss
  | SObjArray _ ss => ss
  end.

Definition s_string_data (r : srep) : list (list N) :=
  match r with
  | SList _ ss | SProto _ ss | SObjArray _ ss => ss
  | SBytesArray _ ss => map np_bytes_elem ss
  end.

Definition s_nbytes (r : srep) : N := fold_right (fun s a => N.of_nat (length s) + a) 0 (s_string_data r).

(* C07/Property.v — ONLY the property theorems, each closed by an `exact` of a lemma from
   Proofs.v and followed by Print Assumptions.  Statements are over the regenerated
   Gen/C07Gen.v (align_offset, validate_write_options) and the model in C07/Model.v. *)
From Coq Require Import ZArith List Bool Lia Permutation.
From IRV Require Import Base.Exn Base.PyList Gen.C07Gen Gen.C07LoopsGen C07.Model C07.Proofs C07.Names C07.EndToEnd C07.GenEquiv.
Import ListNotations.
Open Scope Z_scope.

(* Options that pass the (translated) validator are exactly those the layout theorems assume. *)
Theorem C07_validated_options :
  forall mw mif al thr, validate_write_options mw mif al thr = Ok tt -> opts_ok al thr.
Proof. exact validate_ok_opts. Qed.
Print Assumptions C07_validated_options.

(* Ranges follow declaration order and never overlap: every later range starts at or after the
   end of every earlier one (for all tensor size lists, alignments and thresholds). *)
Theorem C07_offsets_ordered_disjoint :
  forall sizes al thr, opts_ok al thr -> sizes_ok sizes -> separated (layout sizes al thr).
Proof. intros. apply layout_from_separated; assumption. Qed.
Print Assumptions C07_offsets_ordered_disjoint.

(* The recorded lengths are the tensor sizes, in declaration order. *)
Theorem C07_lengths_in_order : forall sizes al thr, map snd (layout sizes al thr) = sizes.
Proof. intros. apply layout_from_lengths. Qed.
Print Assumptions C07_lengths_in_order.

(* Every range lies within the file. *)
Theorem C07_ranges_within_file :
  forall sizes al thr, opts_ok al thr -> sizes_ok sizes ->
  Forall (fun on => 0 <= fst on /\ fst on + snd on <= file_size sizes al thr) (layout sizes al thr).
Proof. intros sizes al thr Ho Hs. apply (layout_from_within sizes 0 al thr Ho Hs). lia. Qed.
Print Assumptions C07_ranges_within_file.

(* The requested alignment is honoured: a tensor larger than the threshold starts at a multiple
   of max(4096, alignment). *)
Theorem C07_alignment_honoured :
  forall sizes a thr, 0 < a ->
  Forall (fun on => thr < snd on -> fst on mod (Z.max 4096 a) = 0) (layout sizes (Some a) thr).
Proof. intros. apply layout_from_aligned; assumption. Qed.
Print Assumptions C07_alignment_honoured.

(* Without alignment the file is densely packed (offsets are running sums: no gaps). *)
Theorem C07_dense_without_alignment :
  forall sizes thr, map fst (layout sizes None thr) = prefix_sums sizes 0.
Proof. intros. apply layout_from_dense. Qed.
Print Assumptions C07_dense_without_alignment.

(* Padding is bounded: consecutive ranges are less than one alignment unit apart. *)
Theorem C07_padding_bounded :
  forall sizes a thr, 0 < a -> forall pre o n o' n' post,
  layout sizes (Some a) thr = pre ++ (o, n) :: (o', n') :: post -> o' < o + n + Z.max 4096 a.
Proof. intros sizes a thr Ha. apply layout_from_padding_bounded. exact Ha. Qed.
Print Assumptions C07_padding_bounded.

(* Sharding: every tensor is in exactly one shard and order is kept ... *)
Theorem C07_shards_partition :
  forall (A : Type) (size : A -> Z) ts maxb al thr, concat (shard size ts maxb al thr) = ts.
Proof. intros. unfold shard. rewrite shard_go_concat. reflexivity. Qed.
Print Assumptions C07_shards_partition.

(* ... no shard is empty (unless there is nothing to write) ... *)
Theorem C07_shards_nonempty :
  forall (A : Type) (size : A -> Z) ts maxb al thr, ts <> [] ->
  Forall (fun s => s <> []) (shard size ts maxb al thr).
Proof. intros. apply shard_go_nonempty. right. assumption. Qed.
Print Assumptions C07_shards_nonempty.

(* ... and a shard's file exceeds the limit only when it holds a single (oversized) tensor.
   shard_end s = size of the data file that `layout` produces for that shard. *)
Theorem C07_shard_limit :
  forall (A : Type) (size : A -> Z) ts maxb al thr, 0 <= maxb ->
  Forall (fun s => shard_end size s al thr <= maxb \/ (length s <= 1)%nat) (shard size ts maxb al thr).
Proof.
  intros A size ts maxb al thr Hm. apply shard_go_limit; [reflexivity|].
  left. unfold shard_end, file_size. simpl. exact Hm.
Qed.
Print Assumptions C07_shard_limit.

(* safetensors backend: partition ... *)
Theorem C07_st_shards_partition :
  forall (A : Type) (size : A -> Z) ts maxb, concat (st_shard size ts maxb) = ts.
Proof.
  intros A size ts [m|]; simpl; [|apply app_nil_r].
  rewrite st_shard_go_concat. reflexivity.
Qed.
Print Assumptions C07_st_shards_partition.

(* ... and limit, for all sizes (zero-size tensors included, since fix a217c9b) ... *)
Theorem C07_st_shard_limit :
  forall (A : Type) (size : A -> Z) ts m, 0 <= m ->
  Forall (fun s => total size s <= m \/ (length s <= 1)%nat) (st_shard size ts (Some m)).
Proof.
  intros A size ts m Hm. simpl. apply st_shard_go_limit; [reflexivity|].
  left. simpl. exact Hm.
Qed.
Print Assumptions C07_st_shard_limit.

(* ... and no shard is empty. *)
Theorem C07_st_shards_nonempty :
  forall (A : Type) (size : A -> Z) ts m, ts <> [] ->
  Forall (fun s => s <> []) (st_shard size ts (Some m)).
Proof. intros. simpl. apply st_shard_go_nonempty. right. assumption. Qed.
Print Assumptions C07_st_shards_nonempty.

(* Distinct shards get distinct file names (so "every tensor is in exactly one shard" also holds at file level). *)
Theorem C07_shard_names_distinct :
  forall stem ext total i j, total <> 1%nat ->
  shard_name stem ext i total = shard_name stem ext j total -> i = j.
Proof. exact shard_name_inj. Qed.
Print Assumptions C07_shard_names_distinct.

(* Read-back: when the ranges are pairwise disjoint, after all writes (in ANY order, i.e. any
   serial or concurrent completion order) each range holds exactly its tensor's bytes. *)
Theorem C07_read_back :
  forall jobs f, pairwise_disjoint jobs ->
  Forall (fun j => slice (write_all f jobs) (fst j) (length (snd j)) = snd j) jobs.
Proof. exact write_all_read_back. Qed.
Print Assumptions C07_read_back.

(* End to end: with the offsets the code computes (any options accepted by the validator), after all
   tensor writes have completed IN ANY ORDER, every initializer's recorded range holds exactly its bytes;
   and the recorded ranges are the layout of the tensor sizes. *)
Theorem C07_save_read_back :
  forall datas al thr order f, opts_ok al thr -> Permutation (jobs datas al thr) order ->
  Forall (fun j => slice (write_all f order) (fst j) (length (snd j)) = snd j) (jobs datas al thr).
Proof. exact save_read_back. Qed.
Print Assumptions C07_save_read_back.

Theorem C07_recorded_ranges_are_layout :
  forall datas al thr, opts_ok al thr ->
  map (fun j => (Z.of_nat (fst j), Z.of_nat (length (snd j)))) (jobs datas al thr)
  = layout (map (fun d => Z.of_nat (length d)) datas) al thr.
Proof. exact jobs_are_layout. Qed.
Print Assumptions C07_recorded_ranges_are_layout.

Theorem C07_write_order_independent :
  forall j1 j2 f1 f2, Permutation j1 j2 -> pairwise_disjoint j1 ->
  Forall (fun j => slice (write_all f1 j1) (fst j) (length (snd j))
                 = slice (write_all f2 j2) (fst j) (length (snd j))) j1.
Proof. exact write_all_order_independent. Qed.
Print Assumptions C07_write_order_independent.

(* save(): whatever the body does to the initializers' tensors and however it ends, the finally
   block puts back the tensor objects that were there on entry. *)
Theorem C07_save_restores :
  forall (body : cvmap -> cvmap * res unit) cv inits,
  NoDup inits ->
  forall v, In v inits -> fst (save_model body inits cv) v = cv v.
Proof. exact save_restores. Qed.
Print Assumptions C07_save_restores.

(* Non-vacuity: hypotheses are met by concrete, non-trivial inputs, and the layout is as expected. *)
Example C07_example_layout :
  opts_ok (Some 65536) 100 /\ sizes_ok [10; 5000; 0; 7; 200000] /\
  layout [10; 5000; 0; 7; 200000] (Some 65536) 100
    = [(0, 10); (65536, 5000); (70536, 0); (70536, 7); (131072, 200000)].
Proof. repeat split; try lia; repeat constructor; lia. Qed.

Example C07_example_shard :
  shard (fun x : Z => x) [3; 4; 20; 1; 1] 8 None 0 = [[3; 4]; [20]; [1; 1]].
Proof. reflexivity. Qed.

(* ------------------------------------------------------------------------------------------------
   The source loops themselves.  Gen/C07LoopsGen.v is re-translated from external_data.py and
   _safetensors/__init__.py on every run, statement by statement (tools/translate_loops.py).  The theorems below say
   that the translated loops ARE the model functions above, for every input — so every theorem of this file is a
   theorem about the code of the loops as it stands now, and an edit of a loop either keeps these equalities provable
   or breaks this obligation. *)
Theorem C07_source_offset_loop_is_layout :
  forall (A : Type) (nbytes : A -> Z) ts al thr, gen_layout nbytes ts al thr = layout (map nbytes ts) al thr.
Proof. exact @gen_layout_is_layout. Qed.
Print Assumptions C07_source_offset_loop_is_layout.

Theorem C07_source_shard_loop_is_shard :
  forall (A : Type) (nbytes : A -> Z) ts m al thr, gen_shard_tensors nbytes ts m al thr = shard nbytes ts m al thr.
Proof. exact @gen_shard_is_shard. Qed.
Print Assumptions C07_source_shard_loop_is_shard.

Theorem C07_source_safetensors_shard_loop_is_st_shard :
  forall (A : Type) (nbytes : A -> Z) ts mo, gen_st_shard nbytes ts mo = st_shard nbytes ts mo.
Proof. exact @gen_st_shard_is_st_shard. Qed.
Print Assumptions C07_source_safetensors_shard_loop_is_st_shard.

Theorem C07_source_threshold_is_classifier :
  forall n thr, gen_becomes_external n thr = match after_save_kind n thr with External => true | InMemory => false end.
Proof. exact gen_becomes_external_is_kind. Qed.
Print Assumptions C07_source_threshold_is_classifier.

(* the recorded ranges of a whole save, computed by the translated loops only, are the model's prediction
   (which the correspondence check compares with the files the implementation writes) *)
Theorem C07_source_prediction_is_model :
  forall sizes threshold maxshard al thr,
    gen_predict_files sizes threshold maxshard al thr = map snd (predict_files sizes threshold maxshard al thr).
Proof. exact gen_predict_files_is_model. Qed.
Print Assumptions C07_source_prediction_is_model.

(* and so the headline layout theorem holds of the translated offset loop directly *)
Theorem C07_source_offsets_ordered_disjoint :
  forall (A : Type) (nbytes : A -> Z) ts al thr, opts_ok al thr -> sizes_ok (map nbytes ts) ->
    separated (gen_layout nbytes ts al thr) /\ map snd (gen_layout nbytes ts al thr) = map nbytes ts.
Proof.
  intros A nbytes ts al thr Ho Hs. rewrite gen_layout_is_layout. split.
  - apply layout_from_separated; assumption.
  - apply layout_from_lengths.
Qed.
Print Assumptions C07_source_offsets_ordered_disjoint.

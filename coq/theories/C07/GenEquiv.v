(* C07/GenEquiv.v — the loops translated from the source on every run (Gen/C07LoopsGen.v) compute exactly the
   hand-written model functions of C07/Model.v that every C07 theorem is about.  A change to the source loops changes
   the generated definitions; these equalities then have to be re-proved (or fail, and the check searches for an input). *)
From Coq Require Import ZArith List Bool Lia.
From IRV Require Import Base.Exn Base.PyList Gen.C07Gen Gen.C07LoopsGen C07.Model.
Import ListNotations.
Open Scope Z_scope.

Section Equiv.
  Context {A : Type} (nbytes : A -> Z).

  (* ---------- the offset loop of convert_tensors_to_external = layout *)
  Lemma gen_layout_fold (ts : list A) (al : option Z) (thr : Z) :
    forall (acc : list info) (cur : Z),
      fst (fold_left (gen_layout_step nbytes al thr) ts (acc, cur))
      = acc ++ layout_from (map nbytes ts) cur al thr.
  Proof.
    induction ts as [|t r IH]; intros acc cur; cbn [fold_left map layout_from].
    - cbn [fst]. rewrite app_nil_r. reflexivity.
    - unfold gen_layout_step at 2. unfold gen_compute_info, py_append. cbn [fst snd].
      rewrite IH. rewrite <- app_assoc. reflexivity.
  Qed.

  Theorem gen_layout_is_layout (ts : list A) (al : option Z) (thr : Z) :
    gen_layout nbytes ts al thr = layout (map nbytes ts) al thr.
  Proof.
    unfold gen_layout, layout.
    pose proof (gen_layout_fold ts al thr [] 0) as H.
    destruct (fold_left (gen_layout_step nbytes al thr) ts ([], 0)) as [infos cur].
    cbn [fst] in H. rewrite H. reflexivity.
  Qed.

  (* ---------- external_data._shard_tensors = shard *)
  Lemma is_nil_rev (l : list A) :
    match rev l with [] => false | _ :: _ => true end = negb (match l with [] => true | _ => false end).
  Proof.
    destruct l as [|a l]; [reflexivity|]. cbn [rev negb].
    destruct (rev l ++ [a]) eqn:E; [|reflexivity].
    apply app_eq_nil in E. destruct E as [_ E]. discriminate.
  Qed.

  Lemma gen_shard_fold (m : Z) (al : option Z) (thr : Z) (ts : list A) :
    forall (done : list (list A)) (cur : list A) (ssize : Z),
      fst (fold_left (gen_shard_tensors_step nbytes m al thr) ts (done ++ [rev cur], ssize))
      = done ++ shard_go nbytes ts cur ssize m al thr.
  Proof.
    induction ts as [|t r IH]; intros done cur ssize; cbn [fold_left shard_go].
    - reflexivity.
    - unfold gen_shard_tensors_step at 2.
      rewrite py_last_nonempty_snoc, is_nil_rev.
      destruct ((m <? align_offset ssize (nbytes t) al thr + nbytes t)
                && negb (match cur with [] => true | _ => false end)) eqn:C.
      + unfold py_append. rewrite py_append_to_last_snoc.
        change ([] ++ [t]) with (rev [t]).
        rewrite IH. rewrite <- app_assoc. reflexivity.
      + rewrite py_append_to_last_snoc.
        change (rev cur ++ [t]) with (rev (t :: cur)).
        rewrite IH. reflexivity.
  Qed.

  Theorem gen_shard_is_shard (ts : list A) (m : Z) (al : option Z) (thr : Z) :
    gen_shard_tensors nbytes ts m al thr = shard nbytes ts m al thr.
  Proof.
    unfold gen_shard_tensors, shard.
    pose proof (gen_shard_fold m al thr ts [] [] 0) as H. cbn [rev app] in H.
    destruct (fold_left (gen_shard_tensors_step nbytes m al thr) ts ([[]], 0)) as [shards sz].
    cbn [fst] in H. exact H.
  Qed.

  (* ---------- _safetensors._shard_tensors = st_shard *)
  Lemma gen_st_shard_fold (m : Z) (ts : list A) :
    forall (done : list (list A)) (cur : list A) (ssize : Z),
      fst (fold_left (gen_st_shard_some_step nbytes m) ts (done ++ [rev cur], ssize))
      = done ++ st_shard_go nbytes ts cur ssize m.
  Proof.
    induction ts as [|t r IH]; intros done cur ssize; cbn [fold_left st_shard_go].
    - reflexivity.
    - unfold gen_st_shard_some_step at 2.
      rewrite py_last_nonempty_snoc, is_nil_rev.
      destruct ((m <? ssize + nbytes t) && negb (match cur with [] => true | _ => false end)) eqn:C.
      + unfold py_append. rewrite py_append_to_last_snoc.
        change ([] ++ [t]) with (rev [t]).
        rewrite IH. rewrite <- app_assoc. rewrite Z.add_0_l. reflexivity.
      + rewrite py_append_to_last_snoc.
        change (rev cur ++ [t]) with (rev (t :: cur)).
        rewrite IH. reflexivity.
  Qed.

  Theorem gen_st_shard_is_st_shard (ts : list A) (mo : option Z) :
    gen_st_shard nbytes ts mo = st_shard nbytes ts mo.
  Proof.
    destruct mo as [m|]; [|reflexivity].
    unfold gen_st_shard, gen_st_shard_some, st_shard.
    pose proof (gen_st_shard_fold m ts [] [] 0) as H. cbn [rev app] in H.
    destruct (fold_left (gen_st_shard_some_step nbytes m) ts ([[]], 0)) as [shards sz].
    cbn [fst] in H. exact H.
  Qed.
End Equiv.

(* ---------- unload_from_model's comparison = the threshold classifier *)
Theorem gen_becomes_external_is_kind (n thr : Z) :
  gen_becomes_external n thr = match after_save_kind n thr with External => true | InMemory => false end.
Proof. unfold gen_becomes_external, after_save_kind. destruct (thr <? n); reflexivity. Qed.

Theorem externalized_is_gen (sizes : list Z) (thr : Z) :
  externalized sizes thr = filter (fun n => gen_becomes_external n thr) sizes.
Proof. reflexivity. Qed.

(* the whole-save prediction, restated over the translated loops only *)
Definition gen_predict_files (sizes : list Z) (threshold : Z) (maxshard : option Z) (al : option Z) (thr : Z)
  : list (list (Z * Z)) :=
  let ext := filter (fun n => gen_becomes_external n threshold) sizes in
  match maxshard with
  | None => [gen_layout (fun x => x) ext al thr]
  | Some m => map (fun s => gen_layout (fun x => x) s al thr) (gen_shard_tensors (fun x => x) ext m al thr)
  end.

Theorem gen_predict_files_is_model sizes threshold maxshard al thr :
  gen_predict_files sizes threshold maxshard al thr = map snd (predict_files sizes threshold maxshard al thr).
Proof.
  unfold gen_predict_files, predict_files. rewrite <- externalized_is_gen.
  destruct maxshard as [m|].
  - rewrite gen_shard_is_shard, map_map. apply map_ext. intros s. cbn [snd].
    rewrite gen_layout_is_layout, map_id. reflexivity.
  - cbn [map snd]. rewrite gen_layout_is_layout, map_id. reflexivity.
Qed.

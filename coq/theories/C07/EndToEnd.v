(* C07/EndToEnd.v — the layout computed by the code makes the write jobs pairwise disjoint, hence
   every initializer can be read back from (offset, length) whatever order the writes complete in. *)
From Coq Require Import ZArith List Bool Lia Permutation.
From IRV Require Import Base.Exn Gen.C07Gen C07.Model C07.Proofs.
Import ListNotations.
Open Scope Z_scope.

(* the write jobs of a save: tensor i's bytes at its computed offset *)
Fixpoint jobs_from (datas : list (list byte)) (cur : Z) (al : option Z) (thr : Z) : list (nat * list byte) :=
  match datas with
  | [] => []
  | d :: r =>
      let n := Z.of_nat (length d) in
      let o := align_offset cur n al thr in
      (Z.to_nat o, d) :: jobs_from r (o + n) al thr
  end.
Definition jobs (datas : list (list byte)) (al : option Z) (thr : Z) := jobs_from datas 0 al thr.

Lemma jobs_from_layout datas : forall cur al thr,
  map (fun j => (Z.of_nat (fst j), Z.of_nat (length (snd j)))) (jobs_from datas cur al thr)
  = map (fun on => (Z.of_nat (Z.to_nat (fst on)), snd on))
        (layout_from (map (fun d => Z.of_nat (length d)) datas) cur al thr).
Proof.
  induction datas as [|d r IH]; intros; simpl; [reflexivity|]. f_equal. apply IH.
Qed.

Lemma jobs_from_lower datas : forall cur al thr, opts_ok al thr -> 0 <= cur ->
  Forall (fun j => cur <= Z.of_nat (fst j)) (jobs_from datas cur al thr).
Proof.
  induction datas as [|d r IH]; intros cur al thr Ho Hc; simpl; constructor.
  - simpl. pose proof (align_ge cur (Z.of_nat (length d)) al thr Ho). lia.
  - pose proof (align_ge cur (Z.of_nat (length d)) al thr Ho) as Hge.
    eapply Forall_impl; [|apply IH; [exact Ho | lia]].
    intros j Hj. simpl in Hj. lia.
Qed.

Lemma jobs_from_disjoint datas : forall cur al thr, opts_ok al thr -> 0 <= cur ->
  pairwise_disjoint (jobs_from datas cur al thr).
Proof.
  induction datas as [|d r IH]; intros cur al thr Ho Hc; simpl; [exact I|].
  pose proof (align_ge cur (Z.of_nat (length d)) al thr Ho) as Hge.
  split.
  - pose proof (jobs_from_lower r (align_offset cur (Z.of_nat (length d)) al thr + Z.of_nat (length d))
                                al thr Ho ltac:(lia)) as Hl.
    induction Hl as [|[o' b'] l Hj _ IHl]; simpl; [exact I|].
    split; [|exact IHl]. simpl in Hj. left. lia.
  - apply IH; [exact Ho | lia].
Qed.

(* End to end: after all writes, in any completion order, every tensor's recorded range holds its bytes. *)
Lemma save_read_back datas al thr order f :
  opts_ok al thr -> Permutation (jobs datas al thr) order ->
  Forall (fun j => slice (write_all f order) (fst j) (length (snd j)) = snd j) (jobs datas al thr).
Proof.
  intros Ho Hp.
  assert (Hd : pairwise_disjoint order).
  { eapply pairwise_disjoint_perm; [exact Hp|]. apply jobs_from_disjoint; [exact Ho | lia]. }
  pose proof (write_all_read_back order f Hd) as R.
  rewrite Forall_forall in *. intros j Hj. apply R. eapply Permutation_in; eassumption.
Qed.

(* the recorded (offset, length) pairs are exactly the layout of the tensor sizes *)
Lemma jobs_are_layout datas al thr :
  opts_ok al thr ->
  map (fun j => (Z.of_nat (fst j), Z.of_nat (length (snd j)))) (jobs datas al thr)
  = layout (map (fun d => Z.of_nat (length d)) datas) al thr.
Proof.
  intros Ho. unfold jobs, layout. rewrite jobs_from_layout.
  pose proof (layout_from_lower (map (fun d => Z.of_nat (length d)) datas) 0 al thr Ho) as Hl.
  assert (Hs : sizes_ok (map (fun d => Z.of_nat (length d)) datas)).
  { unfold sizes_ok. rewrite Forall_map. apply Forall_forall. intros; lia. }
  specialize (Hl Hs).
  induction Hl as [|[o n] l Hon _ IH]; simpl; [reflexivity|].
  f_equal; [|exact IH]. simpl in Hon. rewrite Z2Nat.id by lia. reflexivity.
Qed.

(* C07/Proofs.v — lemmas about the layout / shard / file-image model. *)
From Coq Require Import ZArith List Bool Lia ZifyBool Permutation.
From IRV Require Import Base.Exn Gen.C07Gen C07.Model.
Import ListNotations.
Open Scope Z_scope.
Ltac Zify.zify_post_hook ::= Z.to_euclidean_division_equations.

(* ---------- options accepted by _validate_write_options *)
Definition opts_ok (al : option Z) (thr : Z) : Prop :=
  (match al with None => True | Some a => 0 < a end) /\ 0 <= thr.

Lemma validate_ok_opts mw mif al thr :
  validate_write_options mw mif al thr = Ok tt -> opts_ok al thr.
Proof.
  unfold validate_write_options, opts_ok.
  destruct mw as [w|]; destruct al as [a|];
    repeat (match goal with |- context [if ?c then _ else _] => destruct c eqn:? end; try discriminate);
    intros _; split; try exact I; lia.
Qed.

(* ---------- _align_offset *)
Lemma align_ge cur n al thr : opts_ok al thr -> cur <= align_offset cur n al thr.
Proof.
  unfold align_offset, opts_ok. intros [Ha _].
  destruct al as [a|]; [|lia].
  destruct (n <=? thr) eqn:E; [lia|].
  assert (0 < Z.max 4096 a) by lia.
  set (f := Z.max 4096 a) in *. clearbody f. nia.
Qed.

Lemma align_lt_factor cur n a thr :
  0 < a -> align_offset cur n (Some a) thr < cur + Z.max 4096 a.
Proof.
  unfold align_offset. intros Ha.
  destruct (n <=? thr) eqn:E; [lia|].
  assert (0 < Z.max 4096 a) by lia.
  set (f := Z.max 4096 a) in *. clearbody f. nia.
Qed.

Lemma align_mod cur n a thr :
  0 < a -> thr < n -> align_offset cur n (Some a) thr mod (Z.max 4096 a) = 0.
Proof.
  unfold align_offset. intros Ha Hn.
  destruct (n <=? thr) eqn:E; [lia|].
  apply Z.mod_mul. lia.
Qed.

Lemma align_none cur n thr : align_offset cur n None thr = cur.
Proof. reflexivity. Qed.

Lemma align_small cur n al thr : n <= thr -> align_offset cur n al thr = cur.
Proof. unfold align_offset. destruct al; [|reflexivity]. destruct (n <=? thr) eqn:E; lia. Qed.

Lemma align_idem cur n a thr :
  0 < a -> cur mod (Z.max 4096 a) = 0 -> align_offset cur n (Some a) thr = cur.
Proof.
  unfold align_offset. intros Ha Hm. destruct (n <=? thr); [reflexivity|].
  assert (Hf : 0 < Z.max 4096 a) by lia.
  set (f := Z.max 4096 a) in *. clearbody f.
  apply Z.div_exact in Hm; [|lia].
  rewrite Hm at 1.
  replace (f * (cur / f) + f - 1) with ((cur / f) * f + (f - 1)) by lia.
  rewrite Z.div_add_l by lia. rewrite (Z.div_small (f - 1) f) by lia. lia.
Qed.

(* ---------- layout *)
Definition sizes_ok (sizes : list Z) : Prop := Forall (fun n => 0 <= n) sizes.

(* every range of the layout starts at or after `cur` *)
Lemma layout_from_lower sizes : forall cur al thr,
  opts_ok al thr -> sizes_ok sizes ->
  Forall (fun on => cur <= fst on) (layout_from sizes cur al thr).
Proof.
  induction sizes as [|n r IH]; intros cur al thr Ho Hs; simpl; constructor.
  - simpl. apply align_ge; assumption.
  - inversion Hs; subst.
    eapply Forall_impl; [|apply IH; assumption].
    intros [o l] Hol; simpl in *. pose proof (align_ge cur n al thr Ho). lia.
Qed.

(* ordered, pairwise non-overlapping: every later range starts at or after the end of every earlier one *)
Inductive separated : list (Z * Z) -> Prop :=
| sep_nil : separated []
| sep_cons o n rest :
    Forall (fun on => o + n <= fst on) rest -> separated rest -> separated ((o, n) :: rest).

Lemma layout_from_separated sizes : forall cur al thr,
  opts_ok al thr -> sizes_ok sizes -> separated (layout_from sizes cur al thr).
Proof.
  induction sizes as [|n r IH]; intros cur al thr Ho Hs; simpl; constructor.
  - inversion Hs; subst. apply layout_from_lower; assumption.
  - inversion Hs; subst. apply IH; assumption.
Qed.

Lemma layout_from_lengths sizes : forall cur al thr,
  map snd (layout_from sizes cur al thr) = sizes.
Proof. induction sizes as [|n r IH]; intros; simpl; [reflexivity|]. f_equal. apply IH. Qed.

Lemma layout_from_within sizes : forall cur al thr,
  opts_ok al thr -> sizes_ok sizes -> 0 <= cur ->
  Forall (fun on => 0 <= fst on /\ fst on + snd on <= end_from sizes cur al thr)
         (layout_from sizes cur al thr)
  /\ cur <= end_from sizes cur al thr.
Proof.
  induction sizes as [|n r IH]; intros cur al thr Ho Hs Hc; simpl.
  - split; [constructor | lia].
  - inversion Hs; subst.
    pose proof (align_ge cur n al thr Ho) as Hge.
    destruct (IH (align_offset cur n al thr + n) al thr Ho H2 ltac:(lia)) as [IH1 IH2].
    split; [constructor; [simpl; lia | exact IH1] | lia].
Qed.

Lemma layout_from_aligned sizes : forall cur a thr,
  0 < a ->
  Forall (fun on => thr < snd on -> fst on mod (Z.max 4096 a) = 0) (layout_from sizes cur (Some a) thr).
Proof.
  induction sizes as [|n r IH]; intros cur a thr Ha; simpl; constructor.
  - simpl. intros Hn. apply align_mod; assumption.
  - apply IH; assumption.
Qed.

(* dense packing without alignment: offsets are the running sums *)
Fixpoint prefix_sums (sizes : list Z) (cur : Z) : list Z :=
  match sizes with [] => [] | n :: r => cur :: prefix_sums r (cur + n) end.

Lemma layout_from_dense sizes : forall cur thr,
  map fst (layout_from sizes cur None thr) = prefix_sums sizes cur.
Proof. induction sizes as [|n r IH]; intros; simpl; [reflexivity|]. f_equal. apply IH. Qed.

(* padding is bounded: an aligned tensor starts less than one alignment unit after the previous end *)
Lemma layout_from_padding_bounded sizes : forall cur a thr,
  0 < a ->
  forall pre o n o' n' post,
    layout_from sizes cur (Some a) thr = pre ++ (o, n) :: (o', n') :: post ->
    o' < o + n + Z.max 4096 a.
Proof.
  induction sizes as [|m r IH]; intros cur a thr Ha pre o n o' n' post E; simpl in E.
  - destruct pre; discriminate.
  - destruct pre as [|p pre].
    + simpl in E. inversion E as [[E1 E2 E3]]. subst o n.
      destruct r as [|m' r']; simpl in E3; [discriminate|].
      inversion E3; subst. apply align_lt_factor. assumption.
    + simpl in E. inversion E; subst. eapply IH; eassumption.
Qed.

(* ---------- shard *)
Section ShardProofs.
  Context {A : Type} (size : A -> Z).

  Lemma shard_go_concat ts : forall cur ssize maxb al thr,
    concat (shard_go size ts cur ssize maxb al thr) = rev cur ++ ts.
  Proof.
    induction ts as [|t r IH]; intros; simpl.
    - rewrite app_nil_r. reflexivity.
    - destruct (_ && _).
      + simpl. rewrite IH. simpl. reflexivity.
      + rewrite IH. simpl. rewrite <- app_assoc. reflexivity.
  Qed.

  Lemma shard_go_nonempty ts : forall cur ssize maxb al thr,
    (cur <> [] \/ ts <> []) -> Forall (fun s => s <> []) (shard_go size ts cur ssize maxb al thr).
  Proof.
    induction ts as [|t r IH]; intros cur ssize maxb al thr H; simpl.
    - constructor; [|constructor]. destruct H as [H|H]; [|congruence].
      intros E. apply H. apply (f_equal (@rev A)) in E. rewrite rev_involutive in E. exact E.
    - destruct (_ && _) eqn:E.
      + constructor.
        * apply andb_prop in E. destruct E as [_ E]. destruct cur; [discriminate|].
          intros E'. apply (f_equal (@length A)) in E'. rewrite rev_length in E'. discriminate.
        * apply IH. left. discriminate.
      + apply IH. left. discriminate.
  Qed.

  (* the Python loop's shard_size equals the end of the layout of the current shard *)
  Definition shard_end (s : list A) (al : option Z) (thr : Z) : Z := file_size (map size s) al thr.

  Lemma end_from_app l1 : forall l2 cur al thr,
    end_from (l1 ++ l2) cur al thr = end_from l2 (end_from l1 cur al thr) al thr.
  Proof. induction l1 as [|n r IH]; intros; simpl; [reflexivity|]. apply IH. Qed.

  (* shard limit: a shard exceeds the limit only when it holds a single (oversized) tensor *)
  Lemma shard_go_limit ts : forall cur ssize maxb al thr,
    ssize = shard_end (rev cur) al thr ->
    (shard_end (rev cur) al thr <= maxb \/ (length cur <= 1)%nat) ->
    Forall (fun s => shard_end s al thr <= maxb \/ (length s <= 1)%nat)
           (shard_go size ts cur ssize maxb al thr).
  Proof.
    induction ts as [|t r IH]; intros cur ssize maxb al thr Hs Hc; simpl.
    - constructor; [|constructor]. rewrite rev_length. exact Hc.
    - destruct (_ && _) eqn:E.
      + constructor; [rewrite rev_length; exact Hc|].
        apply IH.
        * unfold shard_end, file_size. simpl. unfold align_offset.
          destruct al as [a|]; [|lia]. destruct (size t <=? thr); [lia|].
          replace (0 + Z.max 4096 a - 1) with (Z.max 4096 a - 1) by lia.
          rewrite Z.div_small by lia. lia.
        * right. simpl. lia.
      + assert (Hend : shard_end (rev (t :: cur)) al thr = align_offset ssize (size t) al thr + size t).
        { unfold shard_end, file_size. simpl. rewrite map_app, end_from_app. simpl.
          unfold shard_end, file_size in Hs. rewrite <- Hs. reflexivity. }
        apply IH.
        * symmetry. exact Hend.
        * rewrite Hend. apply andb_false_iff in E. destruct E as [E|E].
          -- left. lia.
          -- right. destruct cur; [simpl; lia | discriminate].
  Qed.

  (* safetensors variant *)
  Lemma st_shard_go_concat ts : forall cur ssize maxb,
    concat (st_shard_go size ts cur ssize maxb) = rev cur ++ ts.
  Proof.
    induction ts as [|t r IH]; intros; simpl.
    - rewrite app_nil_r. reflexivity.
    - destruct (_ && _).
      + simpl. rewrite IH. reflexivity.
      + rewrite IH. simpl. rewrite <- app_assoc. reflexivity.
  Qed.

  Definition total (s : list A) : Z := fold_right (fun t acc => size t + acc) 0 s.

  Lemma total_app s1 s2 : total (s1 ++ s2) = total s1 + total s2.
  Proof. unfold total. induction s1; simpl; lia. Qed.

  Lemma st_shard_go_limit ts : forall cur ssize maxb,
    ssize = total (rev cur) ->
    (total (rev cur) <= maxb \/ (length cur <= 1)%nat) ->
    Forall (fun s => total s <= maxb \/ (length s <= 1)%nat) (st_shard_go size ts cur ssize maxb).
  Proof.
    induction ts as [|t r IH]; intros cur ssize maxb Hs Hc; simpl.
    - constructor; [|constructor]. rewrite rev_length. exact Hc.
    - destruct (_ && _) eqn:E.
      + constructor; [rewrite rev_length; exact Hc|].
        apply IH; [simpl; lia | right; simpl; lia].
      + assert (Htot : total (rev (t :: cur)) = total (rev cur) + size t).
        { simpl. rewrite total_app. simpl. lia. }
        apply IH; [lia|].
        rewrite Htot. apply andb_false_iff in E. destruct E as [E|E]; [left; lia|].
        right. destruct cur; [simpl; lia | discriminate].
  Qed.

  Lemma st_shard_go_nonempty ts : forall cur ssize maxb,
    (cur <> [] \/ ts <> []) -> Forall (fun s => s <> []) (st_shard_go size ts cur ssize maxb).
  Proof.
    induction ts as [|t r IH]; intros cur ssize maxb H; simpl.
    - constructor; [|constructor]. destruct H as [H|H]; [|congruence].
      intros E. apply H. apply (f_equal (@rev A)) in E. rewrite rev_involutive in E. exact E.
    - destruct (_ && _) eqn:E.
      + constructor.
        * apply andb_prop in E. destruct E as [_ E]. destruct cur; [discriminate|].
          intros E'. apply (f_equal (@length A)) in E'. rewrite rev_length in E'. discriminate.
        * apply IH. left. discriminate.
      + apply IH. left. discriminate.
  Qed.
End ShardProofs.

(* ---------- file image *)
Lemma pad_to_length f n : (length (pad_to f n) = Nat.max (length f) n)%nat.
Proof. unfold pad_to. rewrite app_length, repeat_length. lia. Qed.

Lemma write_at_length f off bs :
  (length (write_at f off bs) = Nat.max (length f) (off + length bs))%nat.
Proof.
  unfold write_at. rewrite !app_length, firstn_length, skipn_length, pad_to_length. lia.
Qed.

Lemma slice_write_same f off bs : slice (write_at f off bs) off (length bs) = bs.
Proof.
  unfold slice, write_at.
  assert (H : (length (firstn off (pad_to f off)) = off)%nat).
  { rewrite firstn_length, pad_to_length. lia. }
  rewrite skipn_app, H, Nat.sub_diag. simpl.
  rewrite skipn_all2 by lia. simpl.
  rewrite firstn_app, Nat.sub_diag. simpl. rewrite firstn_all, app_nil_r. reflexivity.
Qed.

Lemma nth_error_pad f n i :
  nth_error (pad_to f n) i =
  if (i <? length f)%nat then nth_error f i else if (i <? n)%nat then Some 0 else None.
Proof.
  unfold pad_to. destruct (i <? length f)%nat eqn:E.
  - apply Nat.ltb_lt in E. apply nth_error_app1. exact E.
  - apply Nat.ltb_ge in E. rewrite nth_error_app2 by exact E.
    destruct (i <? n)%nat eqn:E2.
    + apply Nat.ltb_lt in E2. rewrite nth_error_repeat by lia. reflexivity.
    + apply Nat.ltb_ge in E2. apply nth_error_None. rewrite repeat_length. lia.
Qed.

Lemma nth_error_skipn' {X} (l : list X) : forall n i, nth_error (skipn n l) i = nth_error l (n + i).
Proof.
  induction l as [|x l IH]; intros n i.
  - rewrite skipn_nil. destruct i, n; reflexivity.
  - destruct n; [reflexivity|]. simpl. apply IH.
Qed.

(* a write leaves every byte outside its range unchanged (bytes past the old EOF read as the zero hole) *)
Lemma nth_error_write_other f off bs i :
  (i < off \/ off + length bs <= i)%nat ->
  nth_error (write_at f off bs) i = nth_error (pad_to f off) i.
Proof.
  unfold write_at. intros H.
  assert (Hl : (length (firstn off (pad_to f off)) = off)%nat).
  { rewrite firstn_length, pad_to_length. lia. }
  destruct H as [H|H].
  - rewrite nth_error_app1 by lia. apply nth_error_firstn_lt || idtac.
    rewrite <- (firstn_skipn off (pad_to f off)) at 2.
    rewrite nth_error_app1 by lia. reflexivity.
  - rewrite nth_error_app2 by lia. rewrite Hl.
    rewrite nth_error_app2 by lia.
    rewrite nth_error_skipn'. f_equal. lia.
Qed.

Lemma slice_nth_error f off len g :
  (forall i, (off <= i < off + len)%nat -> nth_error f i = nth_error g i) ->
  slice f off len = slice g off len.
Proof.
  revert f g off. induction len as [|len IH]; intros f g off H; unfold slice; [reflexivity|].
  pose proof (H off ltac:(lia)) as H0.
  assert (Hs : forall (h : file), firstn (S len) (skipn off h) =
              match nth_error h off with Some x => x :: firstn len (skipn (S off) h) | None => [] end).
  { intros h. clear H H0 IH. revert off. induction h as [|x h IHh]; intros off.
    - destruct off; reflexivity.
    - destruct off; [reflexivity|]. simpl skipn at 1. rewrite IHh. reflexivity. }
  rewrite !Hs, H0. destruct (nth_error g off); [|reflexivity].
  f_equal. apply (IH f g (S off)). intros i Hi. apply H. lia.
Qed.

(* writing a disjoint range later does not disturb an already written, fully materialised range *)
Lemma slice_write_disjoint f off bs o n :
  (o + n <= length f)%nat ->
  (o + n <= off \/ off + length bs <= o)%nat ->
  slice (write_at f off bs) o n = slice f o n.
Proof.
  intros Hin Hd. apply slice_nth_error. intros i Hi.
  rewrite nth_error_write_other by lia.
  rewrite nth_error_pad.
  assert ((i <? length f)%nat = true) as -> by (apply Nat.ltb_lt; lia). reflexivity.
Qed.

(* jobs with pairwise disjoint ranges *)
Fixpoint disjoint_from (o n : nat) (jobs : list (nat * list byte)) : Prop :=
  match jobs with
  | [] => True
  | (o', bs') :: r => (o + n <= o' \/ o' + length bs' <= o)%nat /\ disjoint_from o n r
  end.
Fixpoint pairwise_disjoint (jobs : list (nat * list byte)) : Prop :=
  match jobs with
  | [] => True
  | (o, bs) :: r => disjoint_from o (length bs) r /\ pairwise_disjoint r
  end.

Lemma write_all_preserves jobs : forall f o n,
  (o + n <= length f)%nat -> disjoint_from o n jobs ->
  slice (write_all f jobs) o n = slice f o n.
Proof.
  induction jobs as [|[o' bs'] r IH]; intros f o n Hin Hd; simpl; [reflexivity|].
  destruct Hd as [Hd1 Hd2].
  rewrite IH; [apply slice_write_disjoint; assumption| |assumption].
  rewrite write_at_length. lia.
Qed.

(* read-back: after writing all jobs (any order is covered since the hypothesis is symmetric),
   every job's range holds exactly that job's bytes *)
Lemma write_all_read_back jobs : forall f,
  pairwise_disjoint jobs ->
  Forall (fun j => slice (write_all f jobs) (fst j) (length (snd j)) = snd j) jobs.
Proof.
  induction jobs as [|[o bs] r IH]; intros f Hp; simpl; constructor.
  - simpl. destruct Hp as [Hd _].
    rewrite write_all_preserves; [apply slice_write_same| |exact Hd].
    rewrite write_at_length. lia.
  - destruct Hp as [_ Hp]. apply IH. exact Hp.
Qed.

Lemma disjoint_from_perm o n j1 j2 :
  Permutation j1 j2 -> disjoint_from o n j1 -> disjoint_from o n j2.
Proof.
  induction 1 as [| [o' b'] l1 l2 _ IH | [o1 b1] [o2 b2] l | l1 l2 l3 _ IH1 _ IH2]; simpl; intros H; tauto.
Qed.

Lemma disjoint_from_sym_all o (bs : list byte) jobs :
  disjoint_from o (length bs) jobs ->
  Forall (fun j => (fst j + length (snd j) <= o \/ o + length bs <= fst j)%nat) jobs.
Proof.
  induction jobs as [|[o' b'] r IH]; simpl; intros H; constructor.
  - simpl. lia.
  - apply IH. tauto.
Qed.

Lemma pairwise_disjoint_perm j1 j2 :
  Permutation j1 j2 -> pairwise_disjoint j1 -> pairwise_disjoint j2.
Proof.
  induction 1 as [| [o b] l1 l2 Hp IH | [o1 b1] [o2 b2] l | l1 l2 l3 _ IH1 _ IH2]; simpl; intros H; try tauto.
  - destruct H as [H1 H2]. split; [eapply disjoint_from_perm; eassumption | apply IH; exact H2].
Qed.

(* schedule independence of the final file restricted to the written ranges *)
Lemma write_all_order_independent j1 j2 f1 f2 :
  Permutation j1 j2 -> pairwise_disjoint j1 ->
  Forall (fun j => slice (write_all f1 j1) (fst j) (length (snd j))
                 = slice (write_all f2 j2) (fst j) (length (snd j))) j1.
Proof.
  intros Hp Hd.
  pose proof (write_all_read_back j1 f1 Hd) as R1.
  pose proof (write_all_read_back j2 f2 (pairwise_disjoint_perm _ _ Hp Hd)) as R2.
  rewrite Forall_forall in *. intros j Hj.
  rewrite R1 by exact Hj. rewrite R2; [reflexivity|].
  eapply Permutation_in; eassumption.
Qed.

(* ---------- save(): the finally block restores the entry tensors *)
Lemma restore_other saved : forall cv v, ~ In v (map fst saved) -> restore saved cv v = cv v.
Proof.
  induction saved as [|[w t] r IH]; intros cv v Hn; simpl; [reflexivity|].
  rewrite IH by (intros H; apply Hn; right; exact H).
  unfold set_cv. destruct (Nat.eqb v w) eqn:E; [|reflexivity].
  apply Nat.eqb_eq in E. exfalso. apply Hn. left. symmetry. exact E.
Qed.

Lemma restore_in saved : forall cv v t, NoDup (map fst saved) -> In (v, t) saved -> restore saved cv v = t.
Proof.
  induction saved as [|[w u] r IH]; intros cv v t Hnd Hin; simpl; [destruct Hin|].
  inversion Hnd as [|? ? Hnw Hnd']; subst.
  destruct Hin as [Hin|Hin].
  - inversion Hin; subst. rewrite restore_other by exact Hnw.
    unfold set_cv. rewrite Nat.eqb_refl. reflexivity.
  - apply IH; assumption.
Qed.

Lemma save_restores (body : cvmap -> cvmap * res unit) cv inits :
  NoDup inits -> forall v, In v inits -> fst (save_model body inits cv) v = cv v.
Proof.
  intros Hnd v Hin. unfold save_model. destruct (body cv) as [cv' out]. simpl.
  apply restore_in.
  - rewrite map_map. simpl. rewrite map_id. exact Hnd.
  - apply in_map_iff. exists v. split; [reflexivity | exact Hin].
Qed.


(* C07/Names.v — shard file names are pairwise distinct. *)
From Coq Require Import NArith List Bool Lia Arith.
From IRV Require Import Base.Exn Gen.C07Gen C07.Model.
Close Scope Z_scope.
Open Scope nat_scope.
Import ListNotations.
Arguments Nat.pow : simpl never.
Arguments Nat.modulo : simpl never.
Arguments Nat.div : simpl never.
Arguments N.of_nat : simpl never.
Arguments N.to_nat : simpl never.

(* ---------- shard file names are pairwise distinct *)
Definition dstep (a : nat) (d : N) : nat := 10 * a + (N.to_nat d - 48).
Definition dval (l : list N) : nat := fold_left dstep l 0.

Lemma fold_val_app l : forall a, fold_left dstep l a = a * 10 ^ length l + dval l.
Proof.
  unfold dval. induction l as [|d l IH]; intros a.
  - cbn [fold_left length]. rewrite Nat.pow_0_r. lia.
  - cbn [fold_left length]. rewrite (IH (dstep a d)), (IH (dstep 0 d)).
    rewrite Nat.pow_succ_r'. unfold dstep. nia.
Qed.

Lemma dval_cons d l : dval (d :: l) = (N.to_nat d - 48) * 10 ^ length l + dval l.
Proof. unfold dval at 1. cbn [fold_left]. rewrite fold_val_app. unfold dstep. lia. Qed.

Lemma dval_digits_fuel fuel : forall n acc, n < fuel ->
  dval (digits_fuel fuel n acc) = n * 10 ^ length acc + dval acc.
Proof.
  induction fuel as [|f IH]; intros n acc Hn; [lia|].
  cbn [digits_fuel].
  assert (Hd : dval (N.of_nat (48 + n mod 10) :: acc) = (n mod 10) * 10 ^ length acc + dval acc).
  { rewrite dval_cons, Nnat.Nat2N.id. replace (48 + n mod 10 - 48) with (n mod 10) by lia. reflexivity. }
  pose proof (Nat.div_mod n 10 ltac:(lia)) as Hdm.
  destruct (Nat.eqb (n / 10) 0) eqn:E.
  - apply Nat.eqb_eq in E. rewrite Hd. rewrite E in Hdm. nia.
  - apply Nat.eqb_neq in E. rewrite IH.
    + rewrite Hd. cbn [length]. rewrite Nat.pow_succ_r'. nia.
    + assert (n / 10 < n) by (apply Nat.div_lt; lia). lia.
Qed.

Lemma dval_digits n : dval (digits n) = n.
Proof.
  unfold digits. rewrite dval_digits_fuel by lia. cbn [length]. rewrite Nat.pow_0_r.
  unfold dval. cbn [fold_left]. lia.
Qed.

Lemma dval_zeros k l : dval (repeat 48%N k ++ l) = dval l.
Proof.
  induction k as [|k IH]; [reflexivity|].
  cbn [repeat app]. rewrite dval_cons. rewrite IH.
  replace (N.to_nat 48 - 48) with 0 by (vm_compute; reflexivity). lia.
Qed.

Lemma pad5_inj i j : pad5 i = pad5 j -> i = j.
Proof.
  intros H. apply (f_equal dval) in H. unfold pad5 in H.
  rewrite !dval_zeros, !dval_digits in H. exact H.
Qed.

Lemma shard_name_inj stem ext total i j :
  total <> 1 -> shard_name stem ext i total = shard_name stem ext j total -> i = j.
Proof.
  intros Ht. unfold shard_name. apply Nat.eqb_neq in Ht. rewrite Ht.
  intros H. apply app_inv_head in H. apply app_inv_head in H.
  apply app_inv_tail in H. apply pad5_inj. exact H.
Qed.

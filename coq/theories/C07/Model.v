(* C07/Model.v — executable model of the external-data layout code.
   Translated (Gen/C07Gen.v, regenerated from /repo on every run): _align_offset,
   _validate_write_options.  Hand-written here and tied by correspondence:
     layout      = the offset loop of convert_tensors_to_external  (external_data.py:758-766)
                   over _compute_external_data_info (318-333)
     shard       = _shard_tensors                                  (external_data.py:206-252)
     st_shard    = _safetensors._shard_tensors                     (_safetensors/__init__.py:102-133)
     write_at / file image = _write_tensor_at (seek + write) on a byte file. *)
From Coq Require Import ZArith List Bool Lia.
From IRV Require Import Base.Exn Gen.C07Gen.
Import ListNotations.
Open Scope Z_scope.

(* ---------- layout: list of (offset, length), in declaration order *)
Fixpoint layout_from (sizes : list Z) (cur : Z) (al : option Z) (thr : Z) : list (Z * Z) :=
  match sizes with
  | [] => []
  | n :: r =>
      let o := align_offset cur n al thr in
      (o, n) :: layout_from r (o + n) al thr
  end.

Definition layout (sizes : list Z) (al : option Z) (thr : Z) : list (Z * Z) :=
  layout_from sizes 0 al thr.

(* size of the data file = end of the last range (0 for no tensors) *)
Fixpoint end_from (sizes : list Z) (cur : Z) (al : option Z) (thr : Z) : Z :=
  match sizes with
  | [] => cur
  | n :: r => end_from r (align_offset cur n al thr + n) al thr
  end.
Definition file_size (sizes : list Z) (al : option Z) (thr : Z) : Z := end_from sizes 0 al thr.

(* ---------- sharding (external_data._shard_tensors) over arbitrary items with a size *)
Section Shard.
  Context {A : Type} (size : A -> Z).

  (* cur = current (last) shard, reversed ; ssize = shard_size variable of the Python loop *)
  Fixpoint shard_go (ts : list A) (cur : list A) (ssize : Z) (maxb : Z) (al : option Z) (thr : Z)
    : list (list A) :=
    match ts with
    | [] => [rev cur]
    | t :: r =>
        let off := align_offset ssize (size t) al thr in
        if (maxb <? off + size t) && negb (match cur with [] => true | _ => false end)
        then rev cur :: shard_go r [t] (0 + size t) maxb al thr
        else shard_go r (t :: cur) (off + size t) maxb al thr
    end.

  Definition shard (ts : list A) (maxb : Z) (al : option Z) (thr : Z) : list (list A) :=
    shard_go ts [] 0 maxb al thr.

  (* _safetensors._shard_tensors : no alignment ; "and shards[-1]" since fix a217c9b
     (before: "current_shard_size > 0", which let [0-byte; oversized] share a shard) *)
  Fixpoint st_shard_go (ts : list A) (cur : list A) (ssize : Z) (maxb : Z) : list (list A) :=
    match ts with
    | [] => [rev cur]
    | t :: r =>
        if (maxb <? ssize + size t) && negb (match cur with [] => true | _ => false end)
        then rev cur :: st_shard_go r [t] (size t) maxb
        else st_shard_go r (t :: cur) (ssize + size t) maxb
    end.

  Definition st_shard (ts : list A) (maxb : option Z) : list (list A) :=
    match maxb with
    | None => [ts]
    | Some m => st_shard_go ts [] 0 m
    end.
End Shard.

(* ---------- byte file image : sparse writes at absolute offsets (seek + write) *)
Definition byte := Z.
Definition file := list byte.

(* pad with zero bytes up to length n (seek beyond EOF then write leaves a zero hole) *)
Definition pad_to (f : file) (n : nat) : file := f ++ repeat 0 (n - length f).

Definition write_at (f : file) (off : nat) (bs : list byte) : file :=
  let f' := pad_to f off in
  firstn off f' ++ bs ++ skipn (off + length bs) f'.

Definition slice (f : file) (off len : nat) : list byte := firstn len (skipn off f).

(* write every tensor's bytes at its offset, in the given order of (offset, bytes) jobs *)
Definition write_all (f : file) (jobs : list (nat * list byte)) : file :=
  fold_left (fun f j => write_at f (fst j) (snd j)) jobs f.

(* ---------- threshold split (unload_from_model, external_data.py:1041-1085), as a classifier *)
Inductive tkind := InMemory | External.
Definition after_save_kind (nbytes threshold : Z) : tkind :=
  if threshold <? nbytes then External else InMemory.
(* Python: `if value.const_value.nbytes > size_limit_bytes` -> externalize ; else if external -> load *)

(* ---------- save()'s try/finally around unload_from_model + serialize (_io.py:171-199)
   cvmap : value id -> const_value tensor id.  `body` is everything inside the `try`
   (arbitrary: it may re-point any const_value and may raise). *)
Definition cvmap := nat -> option nat.
Definition set_cv (cv : cvmap) (v : nat) (t : option nat) : cvmap :=
  fun w => if Nat.eqb w v then t else cv w.
Fixpoint restore (saved : list (nat * option nat)) (cv : cvmap) : cvmap :=
  match saved with
  | [] => cv
  | (v, t) :: r => restore r (set_cv cv v t)
  end.
Definition save_model (body : cvmap -> cvmap * res unit) (inits : list nat) (cv : cvmap)
  : cvmap * res unit :=
  let saved := map (fun v => (v, cv v)) inits in
  let '(cv', outcome) := body cv in
  (restore saved cv', outcome).

(* ---------- whole-save prediction used by the correspondence check:
   initializer sizes in model.graphs() order -> per data file (in shard order): its size and
   the (offset, length) of every externalized tensor in declaration order. *)
Definition externalized (sizes : list Z) (threshold : Z) : list Z :=
  filter (fun n => threshold <? n) sizes.

Definition predict_files (sizes : list Z) (threshold : Z) (maxshard : option Z) (al : option Z) (thr : Z)
  : list (Z * list (Z * Z)) :=
  let ext := externalized sizes threshold in
  match maxshard with
  | None => [(file_size ext al thr, layout ext al thr)]
  | Some m => map (fun s => (file_size s al thr, layout s al thr)) (shard (fun x => x) ext m al thr)
  end.

Definition range_eqb (a b : Z * Z) : bool := (fst a =? fst b) && (snd a =? snd b).
Definition filedesc_eqb (a b : Z * list (Z * Z)) : bool :=
  (fst a =? fst b) && list_eqb range_eqb (snd a) (snd b).

(* ---------- shard file names (_shard_filename.get_shard_filename) for a base already split into
   stem (directory + name without the extension chain) and ext (the extension chain):
   f"{name}-{idx:05d}-of-{total:05d}{ext}", or the base itself when there is a single shard.
   Characters are code points (N). *)
Fixpoint digits_fuel (fuel n : nat) (acc : list N) : list N :=
  match fuel with
  | O => acc
  | S f =>
      let acc' := N.of_nat (48 + n mod 10) :: acc in
      if Nat.eqb (n / 10) 0 then acc' else digits_fuel f (n / 10) acc'
  end.
Definition digits (n : nat) : list N := digits_fuel (S n) n [].
Definition pad5 (n : nat) : list N := let d := digits n in repeat 48%N (5 - length d) ++ d.

Definition shard_name (stem ext : list N) (idx total : nat) : list N :=
  if Nat.eqb total 1 then stem ++ ext
  else stem ++ [45%N] ++ pad5 idx ++ [45%N; 111%N; 102%N; 45%N] ++ pad5 total ++ ext.

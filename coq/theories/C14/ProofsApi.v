(* C14/ProofsApi.v — call_onnx_api: what the strip / restore loops do to inputs, initializer order and values
   (current code: read-only for every outcome; the code before fix 0346f88: exact post-state and refuting witnesses). *)
From Coq Require Import ZArith List Bool Lia Arith PeanoNat.
From IRV Require Import Base.Exn Gen.C14Gen C14.Model.
Import ListNotations.
Local Open Scope nat_scope.

Lemma pmem_In v l : pmem v l = true <-> In v l.
Proof.
  unfold pmem. rewrite existsb_exists. split.
  - intros [x [Hx E]]. apply Pos.eqb_eq in E. subst. exact Hx.
  - intros H. exists v. split; [exact H | apply Pos.eqb_refl].
Qed.

Lemma pmem_false v l : pmem v l = false <-> ~ In v l.
Proof.
  rewrite <- pmem_In. destruct (pmem v l); split; intros H.
  - discriminate.
  - exfalso. apply H. reflexivity.
  - intros K. discriminate.
  - reflexivity.
Qed.

Lemma vupd_same f v x : vupd f v x v = x.
Proof. unfold vupd. rewrite Pos.eqb_refl. reflexivity. Qed.

Lemma vupd_other f v x u : u <> v -> vupd f v x u = f u.
Proof. unfold vupd. intros H. apply Pos.eqb_neq in H. rewrite H. reflexivity. Qed.

Lemma fill_const x : v_const (fill x) = v_const x.
Proof. unfold fill. destruct (v_const x) eqn:E; simpl; [reflexivity | exact E]. Qed.

Lemma stripped_fill x : stripped (fill x) = stripped x.
Proof. unfold stripped. rewrite fill_const. reflexivity. Qed.

(* the value that the strip loop leaves behind for an initializer *)
Definition strip_val (x : value) : value :=
  let y := fill x in
  match v_const y with
  | None => y
  | Some t => if is_big t then {| v_const := None; v_shape := v_shape y; v_dtype := v_dtype y |} else y
  end.

Lemma strip_step_vals g v u :
  g_vals (strip_step g v) u = if Pos.eqb u v then strip_val (g_vals g v) else g_vals g u.
Proof.
  unfold strip_step, strip_val.
  destruct (v_const (fill (g_vals g v))) as [t|] eqn:C; [destruct (is_big t)|]; simpl; unfold vupd;
    destruct (Pos.eqb u v); reflexivity.
Qed.

Lemma strip_step_inits g v :
  g_inits (strip_step g v) = if stripped (g_vals g v) then premove v (g_inits g) else g_inits g.
Proof.
  unfold strip_step. rewrite <- (stripped_fill (g_vals g v)). unfold stripped.
  destruct (v_const (fill (g_vals g v))) as [t|]; [destruct (is_big t)|]; reflexivity.
Qed.

Lemma strip_step_inputs g v : exists ext, g_inputs (strip_step g v) = g_inputs g ++ ext.
Proof.
  unfold strip_step.
  destruct (v_const (fill (g_vals g v))) as [t|]; [destruct (is_big t)|]; simpl;
    destruct (pmem v (g_inputs g)); (exists [v]; reflexivity) || (exists []; rewrite app_nil_r; reflexivity).
Qed.

Lemma filter_filter {A} (p q : A -> bool) l : filter p (filter q l) = filter (fun x => q x && p x) l.
Proof.
  induction l as [|a l IH]; simpl; [reflexivity|].
  destruct (q a); simpl; [destruct (p a); rewrite IH; reflexivity | exact IH].
Qed.

Lemma filter_all_id {A} (p : A -> bool) l : (forall x, In x l -> p x = true) -> filter p l = l.
Proof.
  induction l as [|a l IH]; intros H; [reflexivity|]. simpl.
  rewrite (H a (or_introl eq_refl)). f_equal. apply IH. intros x Hx. apply H. right. exact Hx.
Qed.

Lemma filter_none_nil {A} (p : A -> bool) l : (forall x, In x l -> p x = false) -> filter p l = [].
Proof.
  induction l as [|a l IH]; intros H; [reflexivity|]. simpl.
  rewrite (H a (or_introl eq_refl)). apply IH. intros x Hx. apply H. right. exact Hx.
Qed.

Lemma strip_fold : forall l g, NoDup l ->
  (forall u, g_vals (fold_left strip_step l g) u = if pmem u l then strip_val (g_vals g u) else g_vals g u)
  /\ g_inits (fold_left strip_step l g)
     = filter (fun u => negb (pmem u l && stripped (g_vals g u))) (g_inits g)
  /\ exists ext, g_inputs (fold_left strip_step l g) = g_inputs g ++ ext.
Proof.
  induction l as [|v l IH]; intros g Hnd.
  - simpl. split; [reflexivity|]. split; [|exists []; rewrite app_nil_r; reflexivity].
    induction (g_inits g) as [|a r IHr]; simpl; [reflexivity | rewrite <- IHr; reflexivity].
  - inversion Hnd as [|? ? Hnotin Hnd']; subst. simpl fold_left.
    destruct (IH (strip_step g v) Hnd') as [Hv [Hi [ext He]]].
    assert (Hvl : pmem v l = false) by (apply pmem_false; exact Hnotin).
    split; [|split].
    + intros u. rewrite Hv. rewrite strip_step_vals. simpl pmem.
      destruct (Pos.eqb u v) eqn:E.
      * apply Pos.eqb_eq in E. subst u. rewrite Hvl. simpl. reflexivity.
      * simpl. reflexivity.
    + rewrite Hi. rewrite strip_step_inits.
      assert (Hext : forall L, filter (fun u => negb (pmem u l && stripped (g_vals (strip_step g v) u))) L
                              = filter (fun u => negb (pmem u l && stripped (g_vals g u))) L).
      { intros L. apply filter_ext. intros u. rewrite strip_step_vals.
        destruct (Pos.eqb u v) eqn:E; [|reflexivity].
        apply Pos.eqb_eq in E. subst u. rewrite Hvl. reflexivity. }
      rewrite Hext.
      destruct (stripped (g_vals g v)) eqn:Sv.
      * unfold premove. rewrite filter_filter. apply filter_ext. intros u. simpl pmem.
        destruct (Pos.eqb u v) eqn:E.
        -- apply Pos.eqb_eq in E. subst u. simpl. rewrite Sv. reflexivity.
        -- simpl. reflexivity.
      * apply filter_ext. intros u. simpl pmem.
        destruct (Pos.eqb u v) eqn:E; [|reflexivity].
        apply Pos.eqb_eq in E. subst u. simpl. rewrite Sv, Hvl. reflexivity.
    + destruct (strip_step_inputs g v) as [e1 H1]. exists (e1 ++ ext). rewrite He, H1, app_assoc. reflexivity.
Qed.

(* ---------- restore_before_fix *)
Lemma restore_step_vals g0 g v u :
  g_vals (restore_step_before_fix g0 g v) u
  = if Pos.eqb u v
    then {| v_const := v_const (g_vals g0 v); v_shape := v_shape (g_vals g v); v_dtype := v_dtype (g_vals g v) |}
    else g_vals g u.
Proof. unfold restore_step_before_fix. simpl. unfold vupd. reflexivity. Qed.

Lemma restore_fold_vals g0 : forall l g u,
  g_vals (fold_left (restore_step_before_fix g0) l g) u
  = if pmem u l then {| v_const := v_const (g_vals g0 u); v_shape := v_shape (g_vals g u); v_dtype := v_dtype (g_vals g u) |}
    else g_vals g u.
Proof.
  induction l as [|v l IH]; intros g u; [reflexivity|].
  simpl fold_left. rewrite IH. simpl pmem. rewrite restore_step_vals.
  destruct (Pos.eqb u v) eqn:E.
  - apply Pos.eqb_eq in E. subst u. simpl. destruct (pmem v l); reflexivity.
  - simpl. reflexivity.
Qed.

Lemma restore_fold_inputs g0 : forall l g, g_inputs (fold_left (restore_step_before_fix g0) l g) = g_inputs g.
Proof. induction l as [|v l IH]; intros g; [reflexivity|]. simpl. rewrite IH. reflexivity. Qed.

Definition add_absent (acc : list positive) (v : positive) : list positive :=
  if pmem v acc then acc else acc ++ [v].

Lemma restore_fold_inits g0 : forall l g,
  g_inits (fold_left (restore_step_before_fix g0) l g) = fold_left add_absent l (g_inits g).
Proof. induction l as [|v l IH]; intros g; [reflexivity|]. simpl. rewrite IH. reflexivity. Qed.

Lemma pmem_app v a b : pmem v (a ++ b) = pmem v a || pmem v b.
Proof. unfold pmem. apply existsb_app. Qed.

Lemma pmem_filter v (p : positive -> bool) l : pmem v (filter p l) = pmem v l && p v.
Proof.
  induction l as [|a l IH]; simpl; [reflexivity|].
  destruct (p a) eqn:Pa; simpl; rewrite IH.
  - destruct (Pos.eqb v a) eqn:E; simpl; [apply Pos.eqb_eq in E; subst; rewrite Pa; reflexivity | reflexivity].
  - destruct (Pos.eqb v a) eqn:E; simpl; [apply Pos.eqb_eq in E; subst; rewrite Pa; rewrite andb_false_r; reflexivity | reflexivity].
Qed.

(* kept ones stay where they are, the stripped ones come back at the end, in their relative order *)
Lemma add_absent_fold (kept : positive -> bool) (l : list positive) : forall l2 l1,
  l = l1 ++ l2 -> NoDup l ->
  fold_left add_absent l2 (filter kept l ++ filter (fun v => negb (kept v)) l1)
  = filter kept l ++ filter (fun v => negb (kept v)) l.
Proof.
  induction l2 as [|v l2 IH]; intros l1 Hl Hnd.
  - rewrite app_nil_r in Hl. subst. reflexivity.
  - simpl. unfold add_absent at 2.
    assert (Hin : In v l) by (subst l; apply in_or_app; right; left; reflexivity).
    assert (Hnot1 : ~ In v l1).
    { subst l. apply NoDup_remove_2 in Hnd. intros H. apply Hnd. apply in_or_app. left. exact H. }
    rewrite pmem_app, !pmem_filter.
    assert (M : pmem v l = true) by (apply pmem_In; exact Hin).
    assert (M1 : pmem v l1 = false) by (apply pmem_false; exact Hnot1).
    rewrite M, M1. simpl.
    specialize (IH (l1 ++ [v])). rewrite <- app_assoc in IH. simpl in IH. specialize (IH Hl Hnd).
    rewrite filter_app in IH. simpl in IH.
    destruct (kept v) eqn:K; simpl in IH |- *.
    + rewrite app_nil_r in IH. exact IH.
    + rewrite <- app_assoc. exact IH.
Qed.

(* ---------- restore of the current code *)
Lemma restore_fold (g0 : gst) : forall l g,
  g_inits (fold_left (restore_step g0) l g) = g_inits g ++ l
  /\ g_inputs (fold_left (restore_step g0) l g) = g_inputs g
  /\ forall u, g_vals (fold_left (restore_step g0) l g) u = if pmem u l then g_vals g0 u else g_vals g u.
Proof.
  induction l as [|v l IH]; intros g.
  - simpl. rewrite app_nil_r. repeat split; reflexivity.
  - simpl fold_left. destruct (IH (restore_step g0 g v)) as [Hi [Hn Hv]]. split; [|split].
    + rewrite Hi. simpl. rewrite <- app_assoc. reflexivity.
    + rewrite Hn. reflexivity.
    + intros u. rewrite Hv. simpl pmem. unfold restore_step. simpl g_vals.
      destruct (Pos.eqb u v) eqn:E.
      * apply Pos.eqb_eq in E. subst u. simpl. rewrite vupd_same. destruct (pmem v l); reflexivity.
      * simpl. rewrite vupd_other by (apply Pos.eqb_neq; exact E). reflexivity.
Qed.

Section ApiProofs.
  Variables (Proto R : Type).
  Variable serialize : gst -> res Proto.
  Variable func : Proto -> res R.
  Notation call := (call_onnx_api_before_fix Proto R serialize func).
  Notation call_fixed := (call_onnx_api Proto R serialize func).

  Lemma firstn_app_exact {A} (a b : list A) : firstn (length a) (a ++ b) = a.
  Proof. rewrite firstn_app, Nat.sub_diag, firstn_all. simpl. apply app_nil_r. Qed.

  (* exact description of the state after a call whose serialization succeeded (func may raise or not) *)
  Lemma api_post g p :
    NoDup (g_inits g) -> serialize (strip g) = Ok p ->
    let g' := fst (call g) in
    g_inputs g' = g_inputs g
    /\ g_inits g' = filter (fun v => negb (stripped (g_vals g v))) (g_inits g)
                    ++ filter (fun v => stripped (g_vals g v)) (g_inits g)
    /\ (forall u, g_vals g' u = if pmem u (g_inits g) then fill (g_vals g u) else g_vals g u)
    /\ snd (call g) = func p.
  Proof.
    intros Hnd Hs. unfold call_onnx_api_before_fix. rewrite Hs. simpl.
    destruct (strip_fold (g_inits g) g Hnd) as [Hv [Hi [ext He]]]. fold (strip g) in Hv, Hi, He.
    split; [|split; [|split]].
    - rewrite restore_fold_inputs, He. apply firstn_app_exact.
    - rewrite restore_fold_inits, Hi.
      assert (Hf : filter (fun u => negb (pmem u (g_inits g) && stripped (g_vals g u))) (g_inits g)
                   = filter (fun v => negb (stripped (g_vals g v))) (g_inits g)).
      { apply filter_ext_in. intros u Hu. apply pmem_In in Hu. rewrite Hu. reflexivity. }
      rewrite Hf.
      pose proof (add_absent_fold (fun v => negb (stripped (g_vals g v))) (g_inits g) (g_inits g) [] eq_refl Hnd) as K.
      simpl in K. rewrite app_nil_r in K. rewrite K. f_equal. apply filter_ext. intros u. apply negb_involutive.
    - intros u. rewrite restore_fold_vals. destruct (pmem u (g_inits g)) eqn:M; [|rewrite Hv, M; reflexivity].
      rewrite Hv, M. unfold strip_val.
      assert (Eta : forall y : value, {| v_const := v_const y; v_shape := v_shape y; v_dtype := v_dtype y |} = y)
        by (intros [a b c]; reflexivity).
      destruct (v_const (fill (g_vals g u))) as [t|] eqn:C.
      + destruct (is_big t); simpl; rewrite <- (fill_const (g_vals g u)); apply Eta.
      + rewrite <- (fill_const (g_vals g u)). apply Eta.
    - reflexivity.
  Qed.

  (* PARTIAL read-only theorem for the code as written: serialization succeeded, nothing had to be stripped
     and every initializer already carries its shape and dtype. *)
  Lemma api_readonly_partial g p :
    NoDup (g_inits g) -> serialize (strip g) = Ok p ->
    (forall v, In v (g_inits g) -> stripped (g_vals g v) = false /\ fill (g_vals g v) = g_vals g v) ->
    let g' := fst (call g) in
    g_inputs g' = g_inputs g /\ g_inits g' = g_inits g /\ forall u, g_vals g' u = g_vals g u.
  Proof.
    intros Hnd Hs Hall. destruct (api_post g p Hnd Hs) as [Hi [Hn [Hv _]]].
    split; [exact Hi|]. split.
    - rewrite Hn.
      assert (F1 : filter (fun v => negb (stripped (g_vals g v))) (g_inits g) = g_inits g).
      { apply filter_all_id. intros v Hv'. destruct (Hall v Hv') as [S _]. rewrite S. reflexivity. }
      assert (F2 : filter (fun v => stripped (g_vals g v)) (g_inits g) = []).
      { apply filter_none_nil. intros v Hv'. destruct (Hall v Hv') as [S _]. exact S. }
      rewrite F1, F2, app_nil_r. reflexivity.
    - intros u. rewrite Hv. destruct (pmem u (g_inits g)) eqn:M; [|reflexivity].
      apply pmem_In in M. apply Hall in M. destruct M as [_ F]. exact F.
  Qed.

  (* what survives in general when serialization succeeded: inputs, tensors and the SET of initializers *)
  Lemma api_const_restored g p u :
    NoDup (g_inits g) -> serialize (strip g) = Ok p ->
    v_const (g_vals (fst (call g)) u) = v_const (g_vals g u).
  Proof.
    intros Hnd Hs. destruct (api_post g p Hnd Hs) as [_ [_ [Hv _]]]. rewrite Hv.
    destruct (pmem u (g_inits g)); [apply fill_const | reflexivity].
  Qed.

  (* FULL read-only theorem for the current code: every outcome of serialization and of the call *)
  Lemma api_readonly g :
    NoDup (g_inits g) ->
    let g' := fst (call_fixed g) in
    g_inputs g' = g_inputs g /\ g_inits g' = g_inits g /\ forall u, g_vals g' u = g_vals g u.
  Proof.
    intros Hnd.
    destruct (strip_fold (g_inits g) g Hnd) as [Hv [_ [ext He]]]. fold (strip g) in Hv, He.
    assert (K : let g' := restore g (strip g) in
                g_inputs g' = g_inputs g /\ g_inits g' = g_inits g /\ forall u, g_vals g' u = g_vals g u).
    { unfold restore.
      destruct (restore_fold g (g_inits g) {| g_inputs := g_inputs (strip g); g_inits := []; g_vals := g_vals (strip g) |})
        as [Hi [Hn Hvals]].
      simpl. split; [rewrite Hn; simpl; rewrite He; apply firstn_app_exact|]. split; [rewrite Hi; reflexivity|].
      intros u. rewrite Hvals. simpl. destruct (pmem u (g_inits g)) eqn:M; [reflexivity|]. rewrite Hv, M. reflexivity. }
    unfold call_onnx_api. destruct (serialize (strip g)); exact K.
  Qed.

  (* the outcome of the call is the outcome of serialization, then of func *)
  Lemma api_result g :
    snd (call_fixed g) = match serialize (strip g) with Ok p => func p | Raise e => Raise e end.
  Proof. unfold call_onnx_api. destruct (serialize (strip g)); reflexivity. Qed.
End ApiProofs.

(* ---------- witnesses: the code as written is NOT read-only *)
Definition small_t (i : Z) : tensor := {| t_id := i; t_nbytes := 8; t_shape := 2; t_dtype := 1; t_raises := false |}.
Definition big_t (i : Z) : tensor := {| t_id := i; t_nbytes := 2400; t_shape := 600; t_dtype := 1; t_raises := false |}.
Definition lazy_bad_t (i : Z) : tensor := {| t_id := i; t_nbytes := 8; t_shape := 2; t_dtype := 1; t_raises := true |}.
Definition typed (t : tensor) : value := {| v_const := Some t; v_shape := Some (t_shape t); v_dtype := Some (t_dtype t) |}.
Definition untyped (t : tensor) : value := {| v_const := Some t; v_shape := None; v_dtype := None |}.

(* initializers i0 (600 floats), i1, i2 ; one graph input x *)
Definition w_order : gst :=
  {| g_inputs := [10%positive]; g_inits := [1; 2; 3]%positive;
     g_vals := mk_vals [(1%positive, typed (big_t 100)); (2%positive, typed (small_t 101)); (3%positive, typed (small_t 102))] |}.

Definition w_shape : gst :=
  {| g_inputs := [10%positive]; g_inits := [1]%positive; g_vals := mk_vals [(1%positive, untyped (small_t 100))] |}.

Definition w_serfail : gst :=
  {| g_inputs := [10%positive]; g_inits := [1; 2]%positive;
     g_vals := mk_vals [(1%positive, typed (big_t 100)); (2%positive, typed (lazy_bad_t 101))] |}.

Definition run_ok (g : gst) := call_onnx_api_before_fix unit unit lazy_serialize (fun _ => Ok tt) g.
Definition run_now (g : gst) := call_onnx_api unit unit lazy_serialize (fun _ => Ok tt) g.

Lemma api_order_witness :
  NoDup (g_inits w_order) /\ is_ok (snd (run_ok w_order)) = true
  /\ g_inits (fst (run_ok w_order)) = [2; 3; 1]%positive.
Proof. split; [repeat constructor; simpl; intuition congruence|]. split; vm_compute; reflexivity. Qed.

Lemma api_shape_witness :
  is_ok (snd (run_ok w_shape)) = true
  /\ value_obs (g_vals w_shape 1%positive) = (Some 100%Z, None, None)
  /\ value_obs (g_vals (fst (run_ok w_shape)) 1%positive) = (Some 100%Z, Some 2%Z, Some 1%Z).
Proof. repeat split; vm_compute; reflexivity. Qed.

Lemma api_serfail_witness :
  is_ok (snd (run_ok w_serfail)) = false
  /\ g_inputs (fst (run_ok w_serfail)) = [10; 1; 2]%positive      (* initializers left among the inputs *)
  /\ g_inits (fst (run_ok w_serfail)) = [2]%positive               (* the big one is gone *)
  /\ value_obs (g_vals (fst (run_ok w_serfail)) 1%positive) = (None, Some 600%Z, Some 1%Z).  (* and lost its tensor *)
Proof. repeat split; vm_compute; reflexivity. Qed.

(* the same three inputs on the current code: nothing changes *)
Lemma api_witnesses_now :
  gst_obs [1; 2; 3; 10]%positive (fst (run_now w_order)) = gst_obs [1; 2; 3; 10]%positive w_order
  /\ gst_obs [1; 10]%positive (fst (run_now w_shape)) = gst_obs [1; 10]%positive w_shape
  /\ gst_obs [1; 2; 10]%positive (fst (run_now w_serfail)) = gst_obs [1; 2; 10]%positive w_serfail
  /\ is_ok (snd (run_now w_serfail)) = false.
Proof. repeat split; vm_compute; reflexivity. Qed.

(* C14/ProofsOutputFix.v — OutputFixPass at contract level: exact flag, fixpoint, ownership of the inserted nodes. *)
From Coq Require Import ZArith List Bool Lia Arith PeanoNat.
From IRV Require Import Base.Exn Gen.C14Gen C14.Model C14.ProofsApi.
Import ListNotations.
Local Open Scope positive_scope.

Section OF.
  Variable isin : positive -> bool.

  (* ---------- nothing appended <-> outputs untouched *)
  Lemma of_multi_nil : forall outs seen next o a n,
    of_multi outs seen next = (o, a, n) -> a = [] -> o = outs /\ n = next.
  Proof.
    induction outs as [|x r IH]; simpl; intros seen next o a n H Ha.
    - inversion H; subst. split; reflexivity.
    - destruct (pmem x seen).
      + destruct (of_multi r seen (Pos.succ next)) as [[r' a'] n']. inversion H; subst. discriminate.
      + destruct (of_multi r (x :: seen) next) as [[r' a'] n'] eqn:E. inversion H; subst.
        destruct (IH _ _ _ _ _ E eq_refl) as [H1 H2]. subst. split; reflexivity.
  Qed.

  Lemma of_direct_nil : forall outs next o a n,
    of_direct isin outs next = (o, a, n) -> a = [] -> o = outs /\ n = next.
  Proof.
    induction outs as [|x r IH]; simpl; intros next o a n H Ha.
    - inversion H; subst. split; reflexivity.
    - destruct (isin x).
      + destruct (of_direct isin r (Pos.succ next)) as [[r' a'] n']. inversion H; subst. discriminate.
      + destruct (of_direct isin r next) as [[r' a'] n'] eqn:E. inversion H; subst.
        destruct (IH _ _ _ _ E eq_refl) as [H1 H2]. subst. split; reflexivity.
  Qed.

  Lemma of_graph_sound next g : snd (of_graph isin next g) = false -> fst (of_graph isin next g) = g.
  Proof.
    unfold of_graph. destruct (of_multi (o_outs g) [] next) as [[o1 a1] n1] eqn:E1.
    destruct (of_direct isin o1 n1) as [[o2 a2] n2] eqn:E2. simpl. intros H.
    apply orb_false_iff in H. destruct H as [H1 H2].
    destruct a1; [|discriminate]. destruct a2; [|discriminate].
    destruct (of_multi_nil _ _ _ _ _ _ E1 eq_refl) as [Ho1 Hn1]. subst.
    destruct (of_direct_nil _ _ _ _ _ E2 eq_refl) as [Ho2 _]. subst.
    rewrite app_nil_r. destruct g; reflexivity.
  Qed.

  Lemma of_graph_complete next g : fst (of_graph isin next g) = g -> snd (of_graph isin next g) = false.
  Proof.
    unfold of_graph. destruct (of_multi (o_outs g) [] next) as [[o1 a1] n1].
    destruct (of_direct isin o1 n1) as [[o2 a2] n2]. simpl. intros H.
    destruct g as [gi go ga]. simpl in H. injection H as _ Ha.
    assert (L : length (ga ++ a1 ++ a2) = length ga) by (rewrite Ha; reflexivity).
    rewrite !app_length in L. destruct a1; destruct a2; simpl in L; try reflexivity; lia.
  Qed.

  (* ---------- after the multi-use step the outputs are pairwise different and below the new counter *)
  Lemma of_multi_spec : forall outs seen next o a n,
    of_multi outs seen next = (o, a, n) ->
    (forall v, In v outs \/ In v seen -> v < next) ->
    NoDup o /\ (forall v, In v o -> ~ In v seen) /\ (forall v, In v o -> v < n) /\ next <= n
    /\ (forall v, In v o -> In v outs \/ next <= v).
  Proof.
    induction outs as [|x r IH]; simpl; intros seen next o a n H Hlt.
    - inversion H; subst. split; [constructor|]. split; [intros v []|]. split; [intros v []|]. split; [lia | intros v []].
    - destruct (pmem x seen) eqn:M.
      + destruct (of_multi r seen (Pos.succ next)) as [[r' a'] n'] eqn:E. inversion H; subst.
        assert (Hlt' : forall v, In v r \/ In v seen -> v < Pos.succ next).
        { intros v [Hv|Hv]; [assert (v < next) by (apply Hlt; left; right; exact Hv) | assert (v < next) by (apply Hlt; right; exact Hv)]; lia. }
        destruct (IH _ _ _ _ _ E Hlt') as [Hnd [Hds [Hb [Hle Hor]]]].
        split; [|split; [|split; [|split]]].
        * constructor; [|exact Hnd]. intros Hin. destruct (Hor _ Hin) as [Hr|Hr].
          -- assert (next < next) by (apply Hlt; left; right; exact Hr). lia.
          -- lia.
        * intros v [Hv|Hv]; [subst v; intros Hs; assert (next < next) by (apply Hlt; right; exact Hs); lia | apply Hds; exact Hv].
        * intros v [Hv|Hv]; [subst v; lia | apply Hb; exact Hv].
        * lia.
        * intros v [Hv|Hv]; [subst v; right; lia|]. destruct (Hor _ Hv) as [Hr|Hr]; [left; right; exact Hr | right; lia].
      + destruct (of_multi r (x :: seen) next) as [[r' a'] n'] eqn:E. inversion H; subst.
        assert (Hlt' : forall v, In v r \/ In v (x :: seen) -> v < next).
        { intros v [Hv|[Hv|Hv]]; apply Hlt; [left; right; exact Hv | left; left; exact Hv | right; exact Hv]. }
        destruct (IH _ _ _ _ _ E Hlt') as [Hnd [Hds [Hb [Hle Hor]]]].
        apply pmem_false in M.
        split; [|split; [|split; [|split]]].
        * constructor; [|exact Hnd]. intros Hin. apply (Hds _ Hin). left. reflexivity.
        * intros v [Hv|Hv]; [subst v; exact M | intros Hs; apply (Hds _ Hv); right; exact Hs].
        * intros v [Hv|Hv]; [subst v; assert (x < next) by (apply Hlt; left; left; reflexivity); lia | apply Hb; exact Hv].
        * exact Hle.
        * intros v [Hv|Hv]; [left; left; exact Hv|]. destruct (Hor _ Hv) as [Hr|Hr]; [left; right; exact Hr | right; exact Hr].
  Qed.

  (* pairwise different outputs: the multi-use step does nothing *)
  Lemma of_multi_nodup : forall outs seen next,
    NoDup outs -> (forall v, In v outs -> ~ In v seen) -> of_multi outs seen next = (outs, [], next).
  Proof.
    induction outs as [|x r IH]; simpl; intros seen next Hnd Hds; [reflexivity|].
    inversion Hnd as [|? ? Hx Hr]; subst.
    assert (M : pmem x seen = false) by (apply pmem_false; apply Hds; left; reflexivity). rewrite M.
    rewrite IH; [reflexivity | exact Hr|].
    intros v Hv [Hs|Hs]; [subst v; exact (Hx Hv) | apply (Hds v); [right; exact Hv | exact Hs]].
  Qed.

  Lemma of_direct_noop : forall outs next,
    (forall v, In v outs -> isin v = false) -> of_direct isin outs next = (outs, [], next).
  Proof.
    induction outs as [|x r IH]; simpl; intros next H; [reflexivity|].
    rewrite (H x (or_introl eq_refl)). rewrite IH; [reflexivity|]. intros v Hv. apply H. right. exact Hv.
  Qed.

  (* every output after a step is an old output or the output of an Identity appended by that step,
     and every appended Identity reads an old output *)
  Lemma of_multi_owned : forall outs seen next o a n,
    of_multi outs seen next = (o, a, n) ->
    (forall v, In v o -> In v outs \/ exists i, In (i, v) a) /\ (forall i v, In (i, v) a -> In i outs).
  Proof.
    induction outs as [|x r IH]; simpl; intros seen next o a n H.
    - inversion H; subst. split; [intros v [] | intros i v []].
    - destruct (pmem x seen).
      + destruct (of_multi r seen (Pos.succ next)) as [[r' a'] n'] eqn:E. inversion H; subst.
        destruct (IH _ _ _ _ _ E) as [H1 H2]. split.
        * intros v [Hv|Hv]; [subst v; right; exists x; left; reflexivity|].
          destruct (H1 _ Hv) as [Hr|[i Hi]]; [left; right; exact Hr | right; exists i; right; exact Hi].
        * intros i v [Hv|Hv]; [inversion Hv; subst; left; reflexivity | right; eapply H2; exact Hv].
      + destruct (of_multi r (x :: seen) next) as [[r' a'] n'] eqn:E. inversion H; subst.
        destruct (IH _ _ _ _ _ E) as [H1 H2]. split.
        * intros v [Hv|Hv]; [left; left; exact Hv|].
          destruct (H1 _ Hv) as [Hr|[i Hi]]; [left; right; exact Hr | right; exists i; exact Hi].
        * intros i v Hv. right. eapply H2. exact Hv.
  Qed.

  Lemma of_direct_owned : forall outs next o a n,
    of_direct isin outs next = (o, a, n) ->
    (forall v, In v o -> In v outs \/ exists i, In (i, v) a) /\ (forall i v, In (i, v) a -> In i outs).
  Proof.
    induction outs as [|x r IH]; simpl; intros next o a n H.
    - inversion H; subst. split; [intros v [] | intros i v []].
    - destruct (isin x).
      + destruct (of_direct isin r (Pos.succ next)) as [[r' a'] n'] eqn:E. inversion H; subst.
        destruct (IH _ _ _ _ E) as [H1 H2]. split.
        * intros v [Hv|Hv]; [subst v; right; exists x; left; reflexivity|].
          destruct (H1 _ Hv) as [Hr|[i Hi]]; [left; right; exact Hr | right; exists i; right; exact Hi].
        * intros i v [Hv|Hv]; [inversion Hv; subst; left; reflexivity | right; eapply H2; exact Hv].
      + destruct (of_direct isin r next) as [[r' a'] n'] eqn:E. inversion H; subst.
        destruct (IH _ _ _ _ E) as [H1 H2]. split.
        * intros v [Hv|Hv]; [left; left; exact Hv|].
          destruct (H1 _ Hv) as [Hr|[i Hi]]; [left; right; exact Hr | right; exists i; exact Hi].
        * intros i v Hv. right. eapply H2. exact Hv.
  Qed.

  Lemma of_graph_owned next g v :
    In v (o_outs (fst (of_graph isin next g))) ->
    In v (o_outs g) \/ exists i, In (i, v) (o_added (fst (of_graph isin next g))).
  Proof.
    unfold of_graph. destruct (of_multi (o_outs g) [] next) as [[o1 a1] n1] eqn:E1.
    destruct (of_direct isin o1 n1) as [[o2 a2] n2] eqn:E2. simpl. intros Hv.
    destruct (of_direct_owned _ _ _ _ _ E2) as [D1 _]. destruct (of_multi_owned _ _ _ _ _ _ E1) as [M1 _].
    destruct (D1 _ Hv) as [H1|[i Hi]].
    - destruct (M1 _ H1) as [H0|[i Hi]]; [left; exact H0|].
      right. exists i. apply in_or_app. right. apply in_or_app. left. exact Hi.
    - right. exists i. apply in_or_app. right. apply in_or_app. right. exact Hi.
  Qed.

  (* ---------- fresh values are not graph inputs: every graph input is numbered below `base` *)
  Variable base : positive.
  Hypothesis isin_below : forall v, isin v = true -> v < base.

  Lemma of_direct_spec : forall outs next o a n,
    of_direct isin outs next = (o, a, n) -> base <= next -> NoDup outs -> (forall v, In v outs -> v < next) ->
    NoDup o /\ (forall v, In v o -> isin v = false) /\ (forall v, In v o -> In v outs \/ next <= v).
  Proof.
    induction outs as [|x r IH]; simpl; intros next o a n H Hb Hnd Hlt.
    - inversion H; subst. split; [constructor|]. split; intros v [].
    - inversion Hnd as [|? ? Hx Hr]; subst. destruct (isin x) eqn:Ix.
      + destruct (of_direct isin r (Pos.succ next)) as [[r' a'] n'] eqn:E. inversion H; subst.
        assert (Hlt' : forall v, In v r -> v < Pos.succ next) by (intros v Hv; assert (v < next) by (apply Hlt; right; exact Hv); lia).
        destruct (IH _ _ _ _ E ltac:(lia) Hr Hlt') as [Hnd' [Hni Hor]].
        split; [|split].
        * constructor; [|exact Hnd']. intros Hin. destruct (Hor _ Hin) as [Hq|Hq];
            [assert (next < next) by (apply Hlt; right; exact Hq); lia | lia].
        * intros v [Hv|Hv]; [subst v|apply Hni; exact Hv].
          destruct (isin next) eqn:In'; [|reflexivity]. apply isin_below in In'. lia.
        * intros v [Hv|Hv]; [subst v; right; lia|]. destruct (Hor _ Hv) as [Hq|Hq]; [left; right; exact Hq | right; lia].
      + destruct (of_direct isin r next) as [[r' a'] n'] eqn:E. inversion H; subst.
        assert (Hlt' : forall v, In v r -> v < next) by (intros v Hv; apply Hlt; right; exact Hv).
        destruct (IH _ _ _ _ E Hb Hr Hlt') as [Hnd' [Hni Hor]].
        split; [|split].
        * constructor; [|exact Hnd']. intros Hin. destruct (Hor _ Hin) as [Hq|Hq]; [exact (Hx Hq)|].
          assert (x < next) by (apply Hlt; left; reflexivity). lia.
        * intros v [Hv|Hv]; [subst v; exact Ix | apply Hni; exact Hv].
        * intros v [Hv|Hv]; [left; left; exact Hv|]. destruct (Hor _ Hv) as [Hq|Hq]; [left; right; exact Hq | right; exact Hq].
  Qed.

  (* second application: reports False (for any numbering of fresh values) *)
  Lemma of_graph_idem next next' g :
    base <= next -> (forall v, In v (o_outs g) -> v < next) ->
    snd (of_graph isin next' (fst (of_graph isin next g))) = false.
  Proof.
    intros Hb Hlt. unfold of_graph at 2.
    destruct (of_multi (o_outs g) [] next) as [[o1 a1] n1] eqn:E1.
    destruct (of_direct isin o1 n1) as [[o2 a2] n2] eqn:E2. cbn [fst].
    destruct (of_multi_spec _ _ _ _ _ _ E1) as [Hnd1 [_ [Hb1 [Hle1 _]]]].
    { intros v [Hv|[]]. apply Hlt. exact Hv. }
    destruct (of_direct_spec _ _ _ _ _ E2 ltac:(lia) Hnd1 Hb1) as [Hnd2 [Hni2 _]].
    unfold of_graph. cbn [o_outs].
    rewrite (of_multi_nodup o2 [] next' Hnd2) by (intros v _ []).
    rewrite (of_direct_noop o2 next' Hni2). reflexivity.
  Qed.

  (* ---------- the whole pass *)
  Lemma of_pass_sound next m : snd (of_pass isin next m) = false -> fst (of_pass isin next m) = m.
  Proof.
    unfold of_pass. cbn [fst snd]. induction m as [|g m IH]; intros H; [reflexivity|].
    cbn [map existsb] in *. apply orb_false_iff in H. destruct H as [Hg Hm].
    f_equal; [apply of_graph_sound; exact Hg | apply IH; exact Hm].
  Qed.

  Lemma of_pass_complete next m : fst (of_pass isin next m) = m -> snd (of_pass isin next m) = false.
  Proof.
    unfold of_pass. cbn [fst snd]. induction m as [|g m IH]; intros H; [reflexivity|].
    cbn [map existsb] in *. injection H as Hg Hm.
    rewrite (of_graph_complete next g Hg). simpl. apply IH. exact Hm.
  Qed.

  Lemma of_pass_idem next next' m :
    base <= next -> Forall (fun g => forall v, In v (o_outs g) -> v < next) m ->
    snd (of_pass isin next' (fst (of_pass isin next m))) = false
    /\ fst (of_pass isin next' (fst (of_pass isin next m))) = fst (of_pass isin next m).
  Proof.
    intros Hb Hall.
    assert (F : snd (of_pass isin next' (fst (of_pass isin next m))) = false).
    { unfold of_pass. cbn [fst snd]. induction m as [|g m IH]; [reflexivity|].
      inversion Hall; subst. cbn [map existsb]. rewrite of_graph_idem by assumption. simpl. apply IH. assumption. }
    split; [exact F | apply of_pass_sound; exact F].
  Qed.
End OF.

Example of_example :
  (* outputs [x; t; t] with x a graph input: one Identity for the second t, one for x *)
  of_canon 10 (fst (of_graph (fun v => Pos.eqb v 1) 10 {| o_ins := [1]; o_outs := [1; 5; 5]; o_added := [] |}))
  = ([1], [None; Some 5; None], [(5, Some 2%nat); (1, Some 0%nat)])
  /\ (forall v, (fun v => Pos.eqb v 1) v = true -> v < 10).
Proof. split; [vm_compute; reflexivity | intros v H; apply Pos.eqb_eq in H; subst; reflexivity]. Qed.

(* ====================================================================== RemoveUnusedOpsetsPass *)
Local Open Scope nat_scope.
Lemma filter_fix_iff {A} (p : A -> bool) l : existsb (fun x => negb (p x)) l = false <-> filter p l = l.
Proof.
  induction l as [|a l IH]; simpl; [split; reflexivity|].
  destruct (p a) eqn:Pa; simpl.
  - rewrite IH. split; intros H; [f_equal; exact H | injection H as H; exact H].
  - split; intros H; [discriminate|]. exfalso.
    assert (L : length (filter p l) = S (length l)) by (rewrite H; reflexivity).
    assert (M : forall l' : list A, length (filter p l') <= length l').
    { induction l' as [|b l' IHl]; simpl; [lia|]. destruct (p b); simpl; lia. }
    specialize (M l). lia.
Qed.

Lemma filter_idem {A} (p : A -> bool) l : filter p (filter p l) = filter p l.
Proof. induction l as [|a l IH]; simpl; [reflexivity|]. destruct (p a) eqn:Pa; simpl; [rewrite Pa, IH|]; auto. Qed.

Lemma uo_step_exact used g : snd (uo_step used g) = false <-> fst (uo_step used g) = g.
Proof.
  destruct g as [imps doms]. unfold uo_step. cbn [fst snd uo_imports uo_node_domains]. rewrite filter_fix_iff.
  split; intros H; [rewrite H; reflexivity | injection H as H; exact H].
Qed.

Lemma uo_step_idem used g : snd (uo_step used (fst (uo_step used g))) = false.
Proof.
  destruct g as [imps doms]. unfold uo_step. cbn [fst snd uo_imports uo_node_domains].
  apply filter_fix_iff. apply filter_idem.
Qed.

Lemma uo_pass_exact pf m : snd (uo_pass pf m) = false <-> fst (uo_pass pf m) = m.
Proof.
  destruct m as [main funcs]. unfold uo_pass. destruct pf; cbn [fst snd].
  - rewrite orb_false_iff, uo_step_exact. split.
    + intros [Hm Hf]. rewrite Hm. f_equal. clear Hm.
      induction funcs as [|[d g] funcs IH]; [reflexivity|]. cbn [existsb map fst snd] in *.
      apply orb_false_iff in Hf. destruct Hf as [Hg Hfs]. apply uo_step_exact in Hg. rewrite Hg. f_equal. apply IH. exact Hfs.
    + intros H. injection H as Hm Hf. split; [exact Hm|].
      clear Hm. induction funcs as [|[d g] funcs IH]; [reflexivity|]. cbn [existsb map fst snd] in *.
      injection Hf as Hg Hfs. apply orb_false_iff. split; [apply uo_step_exact; exact Hg | apply IH; exact Hfs].
  - rewrite uo_step_exact. split; intros H; [rewrite H; reflexivity | injection H as H; exact H].
Qed.

Lemma uo_pass_idem pf m : snd (uo_pass pf (fst (uo_pass pf m))) = false.
Proof.
  destruct m as [main funcs]. unfold uo_pass. destruct pf; cbn [fst snd].
  - rewrite map_map. cbn [fst]. apply orb_false_iff. split.
    + replace (map fst (map (fun f => (fst f, fst (uo_step [] (snd f)))) funcs)) with (map fst funcs)
        by (rewrite map_map; reflexivity).
      apply uo_step_idem.
    + induction funcs as [|[d g] funcs IH]; [reflexivity|]. cbn [existsb map fst snd].
      rewrite uo_step_idem. simpl. exact IH.
  - apply uo_step_idem.
Qed.

(* C14/Model.v — executable model of the pass contract machinery (definitions only).
   A. passes/_pass_infra.py : PassBase.__call__ (114-166), Sequential (216-262), PassManager.call (306-328),
      functionalize / _FunctionalPassWrapper (331-353), over an abstract per-object model state St and
      arbitrary primitive passes (effect on the state + reported flag + scripted misbehaviour).
   B. passes/common/_c_api_utils.py : call_onnx_api — strip initializers into inputs; try: serialize, call;
      finally: rebuild graph.initializers in the saved order with the saved tensors/shapes/types, cut the inputs.
   C. the `modified` computation, as written, of ClearMetadataAndDocStringPass, RemoveUnusedNodesPass
      (flat graphs: node sweep, trailing-None trimming, initializer removal), TopologicalSortPass
      (flag computation over an abstract sort), Add/RemoveInitializers(To/From)InputsPass.
   Everything here is tied to /repo by the correspondence check in harness/props/c14.py.
   The definitions named *_before_fix describe the code before the fix commits 0346f88, fce58f3, 16a8fe8,
   733a9c1 (history: their refuting witnesses are kept as lemmas in Proofs*.v and as corpus cases). *)
From Coq Require Import ZArith List Bool Lia Arith PeanoNat.
From IRV Require Import Base.Exn Gen.C14Gen.
Import ListNotations.

(* ====================================================================== A. infrastructure *)

(* exception classes that the infrastructure distinguishes *)
Inductive xn : Type := XPre | XPost | XPass | XType | XUser.
Definition xn_eqb (a b : xn) : bool :=
  match a, b with
  | XPre, XPre | XPost, XPost | XPass, XPass | XType, XType | XUser, XUser => true
  | _, _ => false
  end.
Inductive xres (A : Type) : Type := XOk (a : A) | XRaise (e : xn).
Arguments XOk {A} a.
Arguments XRaise {A} e.

Inductive retk : Type := RSame | RClone | RGarbage.

Section Infra.
  Variable St : Type.                       (* state of one ir.Model object *)

  (* the heap of model objects: object k has state st k; objects 0..next-1 are allocated *)
  Record world : Type := { st : nat -> St; next : nat }.
  Definition wset (w : world) (m : nat) (s : St) : world :=
    {| st := fun k => if Nat.eqb k m then s else st w k; next := next w |}.
  (* Model.clone(): a fresh object with a copy of the state *)
  Definition wclone (w : world) (m : nat) : world * nat :=
    ({| st := fun k => if Nat.eqb k (next w) then st w m else st w k; next := S (next w) |}, next w).

  (* a primitive pass: declared properties, scripted misbehaviour, effect on the state + reported flag *)
  Record prim : Type := {
    pr_in_place : bool; pr_changes : bool;
    pr_req_raises : bool; pr_ens_raises : bool; pr_call_raises : bool;
    pr_ret : retk;
    pr_eff : St -> St * bool }.

  Inductive pterm : Type :=
  | Prim (p : prim)
  | Seq (ps : list pterm)                                  (* Sequential of ps, ps non-empty *)
  | Mgr (ps : list pterm) (steps : nat) (early : bool)     (* PassManager(ps, steps, early_stop) *)
  | Fun (p : pterm).                                       (* functionalize(p) *)

  Fixpoint in_place (p : pterm) : bool :=
    match p with
    | Prim pr => pr_in_place pr
    | Seq ps => forallb in_place ps
    | Mgr ps _ _ => forallb in_place ps
    | Fun _ => false
    end.

  (* Sequential.__init__: passes[0].changes_input or passes[0].in_place *)
  Fixpoint changes_input (p : pterm) : bool :=
    match p with
    | Prim pr => pr_changes pr
    | Seq ps | Mgr ps _ _ =>
        match ps with
        | [] => false
        | q :: _ => changes_input q || in_place q
        end
    | Fun _ => false
    end.

  (* PassBase.__call__ around a body (= self.call) *)
  Definition wrap (ip req ens : bool)
             (body : world -> nat -> world * xres (option (nat * bool)))
             (w : world) (m : nat) : world * xres (nat * bool) :=
    if req then (w, XRaise XPre) else
    match body w m with
    | (w1, XRaise e) => (w1, XRaise e)
    | (w1, XOk None) => (w1, XRaise XType)
    | (w1, XOk (Some (r, f))) =>
        if ens then (w1, XRaise XPost) else
        if ip then (if Nat.eqb r m then (w1, XOk (r, f)) else (w1, XRaise XPass))
        else (if Nat.eqb r m then (w1, XRaise XPass) else (w1, XOk (r, f)))
    end.

  Definition prim_body (pr : prim) (w : world) (m : nat) : world * xres (option (nat * bool)) :=
    if pr_call_raises pr then (w, XRaise XUser) else
    match pr_ret pr with
    | RGarbage => (w, XOk None)
    | RSame => let '(s, f) := pr_eff pr (st w m) in (wset w m s, XOk (Some (m, f)))
    | RClone => let '(w1, c) := wclone w m in
                let '(s, f) := pr_eff pr (st w1 c) in (wset w1 c s, XOk (Some (c, f)))
    end.

  Definition lift_some (x : world * xres (nat * bool)) : world * xres (option (nat * bool)) :=
    match x with
    | (w, XOk a) => (w, XOk (Some a))
    | (w, XRaise e) => (w, XRaise e)
    end.

  Section Loops.
    Variable run : pterm -> world -> nat -> world * xres (nat * bool).
    (* Sequential.call: any exception of a member is re-raised as PassError *)
    Fixpoint seq_loop (ps : list pterm) (w : world) (m : nat) (acc : bool) : world * xres (nat * bool) :=
      match ps with
      | [] => (w, XOk (m, acc))
      | p :: r =>
          match run p w m with
          | (w1, XRaise _) => (w1, XRaise XPass)
          | (w1, XOk (m1, f)) => seq_loop r w1 m1 (acc || f)
          end
      end.
  End Loops.

  (* PassManager.call over a round function (= Sequential.call of the same passes) *)
  Fixpoint mgr_loop (round : world -> nat -> world * xres (nat * bool))
           (k : nat) (early : bool) (w : world) (m : nat) (overall : bool) : world * xres (nat * bool) :=
    match k with
    | O => (w, XOk (m, overall))
    | S k' =>
        match round w m with
        | (w1, XRaise _) => (w1, XRaise XPass)
        | (w1, XOk (m1, f)) =>
            if negb f && early then (w1, XOk (m1, overall || f))
            else mgr_loop round k' early w1 m1 (overall || f)
        end
    end.

  Fixpoint exec (p : pterm) (w : world) (m : nat) {struct p} : world * xres (nat * bool) :=
    match p with
    | Prim pr => wrap (pr_in_place pr) (pr_req_raises pr) (pr_ens_raises pr) (prim_body pr) w m
    | Seq ps =>
        wrap (forallb in_place ps) false false
             (fun w m => lift_some (seq_loop exec ps w m false)) w m
    | Mgr ps k e =>
        wrap (forallb in_place ps) false false
             (fun w m => lift_some (mgr_loop (fun w m => seq_loop exec ps w m false) k e w m false)) w m
    | Fun q =>
        wrap false false false
             (fun w m => let '(w1, c) := wclone w m in lift_some (exec q w1 c)) w m
    end.

  (* a well-behaved in-place pass with effect E *)
  Definition wb_prim (E : St -> St * bool) : prim :=
    {| pr_in_place := true; pr_changes := true; pr_req_raises := false; pr_ens_raises := false;
       pr_call_raises := false; pr_ret := RSame; pr_eff := E |}.

  Fixpoint iterE (E : St -> St * bool) (k : nat) (s : St) : St :=
    match k with O => s | S k' => iterE E k' (fst (E s)) end.
End Infra.

Arguments st {St} w k.
Arguments next {St} w.
Arguments Prim {St} p.
Arguments Seq {St} ps.
Arguments Mgr {St} ps steps early.
Arguments Fun {St} p.

(* ---- concrete instance used by the correspondence check: the state is a counter *)
Inductive eff : Type :=
| EDec (k : Z)        (* c -> max 0 (c-k) ; reports whether it changed *)
| EDecLie (k : Z)     (* same change, always reports False *)
| ESet (z : Z)        (* c -> z ; reports c <> z *)
| EInc                (* c -> c+1 ; reports True *)
| ENop (f : bool).    (* no change ; reports f *)

Definition eff_fn (e : eff) (c : Z) : Z * bool :=
  match e with
  | EDec k => let c' := Z.max 0 (c - k) in (c', negb (Z.eqb c' c))
  | EDecLie k => (Z.max 0 (c - k), false)
  | ESet z => (z, negb (Z.eqb c z))
  | EInc => ((c + 1)%Z, true)
  | ENop f => (c, f)
  end.

Definition sprim (ip ch rq en cr : bool) (r : retk) (e : eff) : prim Z :=
  {| pr_in_place := ip; pr_changes := ch; pr_req_raises := rq; pr_ens_raises := en;
     pr_call_raises := cr; pr_ret := r; pr_eff := eff_fn e |}.

Definition world0 (c : Z) : world Z := {| st := fun _ => c; next := 1 |}.
Definition dump (w : world Z) : list Z := map (st w) (seq 0 (next w)).

Definition xres_eqb {A} (eqb : A -> A -> bool) (a b : xres A) : bool :=
  match a, b with
  | XOk x, XOk y => eqb x y
  | XRaise e, XRaise f => xn_eqb e f
  | _, _ => false
  end.

(* observation of one infrastructure case: (declared in_place, changes_input, outcome, counters of all objects) *)
Definition infra_obs (p : pterm Z) (c : Z) : bool * bool * xres (nat * bool) * list Z :=
  let '(w, r) := exec Z p (world0 c) 0 in (in_place Z p, changes_input Z p, r, dump w).

Definition infra_agree (case : pterm Z * Z * (bool * bool * xres (nat * bool) * list Z)) : bool :=
  let '(p, c, (ip, ch, r, d)) := case in
  let '(ip', ch', r', d') := infra_obs p c in
  Bool.eqb ip ip' && Bool.eqb ch ch'
  && xres_eqb (fun a b => Nat.eqb (fst a) (fst b) && Bool.eqb (snd a) (snd b)) r r'
  && list_eqb Z.eqb d d'.

(* PassBase.__call__ accepts an ir.Model or a PassResult; of a PassResult only `.model` is read, so the incoming
   `modified` flag (None = a Model was passed) plays no role: the result describes THIS application only. *)
Definition exec_arg (p : pterm Z) (w : world Z) (m : nat) (incoming : option bool) : world Z * xres (nat * bool) :=
  exec Z p w m.

Definition infra_agree_arg (case : option bool * (pterm Z * Z * (bool * bool * xres (nat * bool) * list Z))) : bool :=
  let '(inc, (p, c, (ip, ch, r, d))) := case in
  let '(w', r') := exec_arg p (world0 c) 0 inc in
  Bool.eqb ip (in_place Z p) && Bool.eqb ch (changes_input Z p)
  && xres_eqb (fun a b => Nat.eqb (fst a) (fst b) && Bool.eqb (snd a) (snd b)) r r'
  && list_eqb Z.eqb d (dump w').

(* ====================================================================== B. call_onnx_api *)

Record tensor : Type := { t_id : Z; t_nbytes : Z; t_shape : Z; t_dtype : Z; t_raises : bool }.
Record value : Type := { v_const : option tensor; v_shape : option Z; v_dtype : option Z }.

Record gst : Type := { g_inputs : list positive; g_inits : list positive; g_vals : positive -> value }.

Definition pmem (v : positive) (l : list positive) : bool := existsb (Pos.eqb v) l.
Definition premove (v : positive) (l : list positive) : list positive := filter (fun x => negb (Pos.eqb x v)) l.
Definition vupd (f : positive -> value) (v : positive) (x : value) : positive -> value :=
  fun k => if Pos.eqb k v then x else f k.

(* "Make sure the initializer has its shape/type set" *)
Definition fill (x : value) : value :=
  match v_const x with
  | None => x
  | Some t =>
      {| v_const := v_const x;
         v_shape := match v_shape x with None => Some (t_shape t) | s => s end;
         v_dtype := match v_dtype x with None => Some (t_dtype t) | d => d end |}
  end.

Definition is_big (t : tensor) : bool := Z.ltb BIG_TENSOR_SIZE_LIMIT (t_nbytes t).

(* an initializer that the loop takes out of graph.initializers *)
Definition stripped (x : value) : bool :=
  match v_const x with None => true | Some t => is_big t end.

Definition strip_step (g : gst) (v : positive) : gst :=
  let x := fill (g_vals g v) in
  let ins := if pmem v (g_inputs g) then g_inputs g else g_inputs g ++ [v] in
  match v_const x with
  | None => {| g_inputs := ins; g_inits := premove v (g_inits g); g_vals := vupd (g_vals g) v x |}
  | Some t =>
      if is_big t
      then {| g_inputs := ins; g_inits := premove v (g_inits g);
              g_vals := vupd (g_vals g) v {| v_const := None; v_shape := v_shape x; v_dtype := v_dtype x |} |}
      else {| g_inputs := ins; g_inits := g_inits g; g_vals := vupd (g_vals g) v x |}
  end.

Definition strip (g : gst) : gst := fold_left strip_step (g_inits g) g.

(* finally (current code): graph.initializers.clear(); then for every saved initializer, in the saved order:
   const_value, shape and type back from the saved copies, initializers.add (a fresh key goes to the end) *)
Definition restore_step (g0 : gst) (g : gst) (v : positive) : gst :=
  {| g_inputs := g_inputs g; g_inits := g_inits g ++ [v]; g_vals := vupd (g_vals g) v (g_vals g0 v) |}.

Definition restore (g0 g : gst) : gst :=
  let g1 := fold_left (restore_step g0) (g_inits g0)
                      {| g_inputs := g_inputs g; g_inits := []; g_vals := g_vals g |} in
  {| g_inputs := firstn (length (g_inputs g0)) (g_inputs g1); g_inits := g_inits g1; g_vals := g_vals g1 |}.

(* before fix 0346f88: const_value back, register_initializer / initializers.add on the dict as it is (an existing
   key keeps its position, a new key goes to the end); shape/type not restored *)
Definition restore_step_before_fix (g0 : gst) (g : gst) (v : positive) : gst :=
  let x := g_vals g v in
  {| g_inputs := g_inputs g;
     g_inits := if pmem v (g_inits g) then g_inits g else g_inits g ++ [v];
     g_vals := vupd (g_vals g) v {| v_const := v_const (g_vals g0 v); v_shape := v_shape x; v_dtype := v_dtype x |} |}.

Definition restore_before_fix (g0 g : gst) : gst :=
  let g1 := fold_left (restore_step_before_fix g0) (g_inits g0) g in
  {| g_inputs := firstn (length (g_inputs g0)) (g_inputs g1); g_inits := g_inits g1; g_vals := g_vals g1 |}.

Section Api.
  Variables (Proto R : Type).
  Variable serialize : gst -> res Proto.      (* ir.serde.serialize_model: may raise *)
  Variable func : Proto -> res R.             (* the ONNX C API call: may raise *)

  (* current code: serialization and the call are inside the try, finally always runs *)
  Definition call_onnx_api (g : gst) : gst * res R :=
    let g1 := strip g in
    match serialize g1 with
    | Raise e => (restore g g1, Raise e)
    | Ok p => (restore g g1, func p)
    end.

  (* before fix 0346f88: serialization happened before the try *)
  Definition call_onnx_api_before_fix (g : gst) : gst * res R :=
    let g1 := strip g in
    match serialize g1 with
    | Raise e => (g1, Raise e)
    | Ok p => (restore_before_fix g g1, func p)
    end.
End Api.

(* serialization fails exactly when a tensor still attached to a remaining initializer raises on evaluation *)
Definition lazy_serialize (g : gst) : res unit :=
  if existsb (fun v => match v_const (g_vals g v) with Some t => t_raises t | None => false end) (g_inits g)
  then Raise OtherError else Ok tt.

(* observations for the correspondence: inputs, initializer order, per-value (const id, shape, dtype) *)
Definition value_obs (x : value) : option Z * option Z * option Z :=
  (match v_const x with Some t => Some (t_id t) | None => None end, v_shape x, v_dtype x).

Definition gst_obs (universe : list positive) (g : gst)
  : list positive * list positive * list (option Z * option Z * option Z) :=
  (g_inputs g, g_inits g, map (fun v => value_obs (g_vals g v)) universe).

Definition mk_vals (l : list (positive * value)) : positive -> value :=
  fun k => match find (fun kv => Pos.eqb (fst kv) k) l with
           | Some kv => snd kv
           | None => {| v_const := None; v_shape := None; v_dtype := None |}
           end.

Definition vobs_eqb (a b : option Z * option Z * option Z) : bool :=
  let '(a1, a2, a3) := a in let '(b1, b2, b3) := b in
  option_eqb Z.eqb a1 b1 && option_eqb Z.eqb a2 b2 && option_eqb Z.eqb a3 b3.

(* case: inputs, initializer order, value table, does func raise?, observed (raised?, inputs, inits, values) *)
Definition api_agree
  (case : list positive * list positive * list (positive * value) * bool
          * (bool * list positive * list positive * list (option Z * option Z * option Z))) : bool :=
  let '(ins, inits, tbl, fr, (oraised, oins, oinits, ovals)) := case in
  let g := {| g_inputs := ins; g_inits := inits; g_vals := mk_vals tbl |} in
  let '(g', r) := call_onnx_api unit unit lazy_serialize (fun _ => if fr then Raise RuntimeError else Ok tt) g in
  let '(ins', inits', vals') := gst_obs (map fst tbl) g' in
  Bool.eqb oraised (negb (is_ok r))
  && list_eqb Pos.eqb oins ins' && list_eqb Pos.eqb oinits inits' && list_eqb vobs_eqb ovals vals'.

(* ====================================================================== C. passes and their flags *)

(* ---- ClearMetadataAndDocStringPass.  A model is the list of graph-likes the pass visits (main graph and
   every subgraph, then every function and its subgraphs); a graph-like has (metadata?, doc?) and nodes (metadata?, doc?). *)
Record cgraph : Type := { cg_meta : bool; cg_doc : bool; cg_nodes : list (bool * bool) }.

(* what the pass does to one visited graph-like (all nodes: metadata cleared, doc string None; the owner's
   metadata/doc cleared when it has any, at its first node) *)
Definition clear_state (g : cgraph) : cgraph :=
  match cg_nodes g with
  | [] => g                   (* a graph-like without nodes is never looked at *)
  | _ =>
      let dirty := cg_meta g || cg_doc g in
      {| cg_meta := if dirty then false else cg_meta g; cg_doc := if dirty then false else cg_doc g;
         cg_nodes := map (fun _ => (false, false)) (cg_nodes g) |}
  end.

(* current code: `if node.metadata_props or node.doc_string: modified = True` *)
Definition clear_graph (g : cgraph) : cgraph * bool :=
  (clear_state g,
   match cg_nodes g with [] => false | _ => existsb (fun n => fst n || snd n) (cg_nodes g) || cg_meta g || cg_doc g end).
Definition clear_pass (m : list cgraph) : list cgraph * bool :=
  (map (fun g => fst (clear_graph g)) m, existsb (fun g => snd (clear_graph g)) m).

(* before fix fce58f3: only `if node.metadata_props:` counted *)
Definition clear_graph_before_fix (g : cgraph) : cgraph * bool :=
  (clear_state g, match cg_nodes g with [] => false | _ => existsb fst (cg_nodes g) || (cg_meta g || cg_doc g) end).
Definition clear_pass_before_fix (m : list cgraph) : list cgraph * bool :=
  (map (fun g => fst (clear_graph_before_fix g)) m, existsb (fun g => snd (clear_graph_before_fix g)) m).

Definition cgraph_eqb (a b : cgraph) : bool :=
  Bool.eqb (cg_meta a) (cg_meta b) && Bool.eqb (cg_doc a) (cg_doc b)
  && list_eqb (fun x y => Bool.eqb (fst x) (fst y) && Bool.eqb (snd x) (snd y)) (cg_nodes a) (cg_nodes b).

Definition clear_agree (case : list cgraph * (list cgraph * bool)) : bool :=
  let '(m, (m', f)) := case in
  let '(pm, pf) := clear_pass m in list_eqb cgraph_eqb pm m' && Bool.eqb pf f.

(* ---- RemoveUnusedNodesPass on flat graphs (no subgraphs, no opset-dependent optional-output trimming) *)
Record dnode : Type := { d_id : positive; d_ins : list (option positive); d_outs : list positive }.
Record dgraph : Type := { d_nodes : list dnode; d_outputs : list positive; d_inputs : list positive; d_inits : list positive }.

Definition reads (v : positive) (n : dnode) : bool :=
  existsb (fun i => match i with Some x => Pos.eqb x v | None => false end) (d_ins n).
Definition used_in (v : positive) (ns : list dnode) : bool := existsb (reads v) ns.

Fixpoint drop_nones (l : list (option positive)) : list (option positive) :=
  match l with
  | None :: r => drop_nones r
  | _ => l
  end.
(* _remove_trailing_empty_inputs *)
Definition trim (l : list (option positive)) : list (option positive) := rev (drop_nones (rev l)).
Definition trim_node (n : dnode) : dnode := {| d_id := d_id n; d_ins := trim (d_ins n); d_outs := d_outs n |}.

Definition ins_eqb (a b : list (option positive)) : bool := list_eqb (option_eqb Pos.eqb) a b.

(* reversed(graph): the nodes after n have been processed (rest'), the nodes before it not yet.
   current code: a kept node whose trailing None inputs are trimmed counts as one modification *)
Fixpoint sweep (outs : list positive) (before : list dnode) (l : list dnode) : list dnode * nat :=
  match l with
  | [] => ([], O)
  | n :: rest =>
      let '(rest', c) := sweep outs (before ++ [n]) rest in
      let others := before ++ n :: rest' in
      if forallb (fun o => negb (pmem o outs) && negb (used_in o others)) (d_outs n)
      then (rest', S c)
      else (trim_node n :: rest', if ins_eqb (trim (d_ins n)) (d_ins n) then c else S c)
  end.

Definition dce (g : dgraph) : dgraph * bool :=
  let '(ns, c) := sweep (d_outputs g) [] (d_nodes g) in
  let keep := fun v => used_in v ns || pmem v (d_outputs g) || pmem v (d_inputs g) in
  let inits := filter keep (d_inits g) in
  let c2 := (c + (length (d_inits g) - length inits))%nat in
  ({| d_nodes := ns; d_outputs := d_outputs g; d_inputs := d_inputs g; d_inits := inits |}, negb (Nat.eqb c2 0)).

(* before fix 16a8fe8: trimming was not counted *)
Fixpoint sweep_before_fix (outs : list positive) (before : list dnode) (l : list dnode) : list dnode * nat :=
  match l with
  | [] => ([], O)
  | n :: rest =>
      let '(rest', c) := sweep_before_fix outs (before ++ [n]) rest in
      let others := before ++ n :: rest' in
      if forallb (fun o => negb (pmem o outs) && negb (used_in o others)) (d_outs n)
      then (rest', S c)
      else (trim_node n :: rest', c)
  end.

Definition dce_before_fix (g : dgraph) : dgraph * bool :=
  let '(ns, c) := sweep_before_fix (d_outputs g) [] (d_nodes g) in
  let keep := fun v => used_in v ns || pmem v (d_outputs g) || pmem v (d_inputs g) in
  let inits := filter keep (d_inits g) in
  let c2 := (c + (length (d_inits g) - length inits))%nat in
  ({| d_nodes := ns; d_outputs := d_outputs g; d_inputs := d_inputs g; d_inits := inits |}, negb (Nat.eqb c2 0)).

(* measure: nodes + initializers + kept nodes that still carry trailing None inputs *)
Definition untrimmed (n : dnode) : bool := negb (ins_eqb (trim (d_ins n)) (d_ins n)).
Definition dce_mu (g : dgraph) : nat :=
  (length (d_nodes g) + length (d_inits g) + length (filter untrimmed (d_nodes g)))%nat.
Definition dce_size (g : dgraph) : nat := (length (d_nodes g) + length (d_inits g))%nat.

Definition oppos_eqb := option_eqb Pos.eqb.
Definition dnode_eqb (a b : dnode) : bool :=
  Pos.eqb (d_id a) (d_id b) && list_eqb oppos_eqb (d_ins a) (d_ins b) && list_eqb Pos.eqb (d_outs a) (d_outs b).
Definition dgraph_eqb (a b : dgraph) : bool :=
  list_eqb dnode_eqb (d_nodes a) (d_nodes b) && list_eqb Pos.eqb (d_outputs a) (d_outputs b)
  && list_eqb Pos.eqb (d_inputs a) (d_inputs b) && list_eqb Pos.eqb (d_inits a) (d_inits b).

Definition dce_agree (case : dgraph * (dgraph * bool)) : bool :=
  let '(g, (g', f)) := case in let '(pg, pf) := dce g in dgraph_eqb pg g' && Bool.eqb pf f.

(* ---- TopologicalSortPass.  Graph.sort() (C12; abstract `sort`) reorders the graph and, recursively, every
   subgraph.  Current code compares the full recursive node sequences before/after; the sequences are equal iff
   every node list of the model is unchanged (a node's subgraph nodes follow it in the sequence). *)
Record tmodel : Type := { t_main : list positive; t_funcs : list (list positive); t_subs : list (list positive) }.

Fixpoint first_diff (a b : list positive) : bool :=     (* for node, new_node in zip(a, b): node is not new_node *)
  match a, b with
  | x :: a', y :: b' => if Pos.eqb x y then first_diff a' b' else true
  | _, _ => false
  end.

Definition lists_eqb (a b : list (list positive)) : bool := list_eqb (list_eqb Pos.eqb) a b.
Definition tmodel_eqb (a b : tmodel) : bool :=
  list_eqb Pos.eqb (t_main a) (t_main b) && lists_eqb (t_funcs a) (t_funcs b) && lists_eqb (t_subs a) (t_subs b).

Section Topo.
  Variable sort : list positive -> list positive.
  Definition topo_state (m : tmodel) : tmodel :=
    {| t_main := sort (t_main m); t_funcs := map sort (t_funcs m); t_subs := map sort (t_subs m) |}.
  Definition topo_pass (m : tmodel) : tmodel * bool := (topo_state m, negb (tmodel_eqb m (topo_state m))).
  (* before fix 733a9c1: only the top-level lists of the main graph and the functions were compared *)
  Definition topo_pass_before_fix (m : tmodel) : tmodel * bool :=
    let m' := topo_state m in
    (m', first_diff (t_main m ++ concat (t_funcs m)) (t_main m' ++ concat (t_funcs m'))).
End Topo.

(* correspondence: the observed sorted lists are given; only the flag computation is predicted *)
Definition topo_case : Type :=
  list positive * list (list positive) * list (list positive)
  * (list positive * list (list positive) * list (list positive)) * bool.
Definition topo_agree (case : topo_case) : bool :=
  let '(main, funcs, subs, (smain, sfuncs, ssubs), f) := case in
  Bool.eqb f (negb (tmodel_eqb {| t_main := main; t_funcs := funcs; t_subs := subs |}
                               {| t_main := smain; t_funcs := sfuncs; t_subs := ssubs |})).

(* ---- AddInitializersToInputsPass / RemoveInitializersFromInputsPass; a model is the list model.graphs()
   (main graph first) of (inputs, initializers); add_inits / rm_inits are the per-graph loop bodies *)
Definition add_inits (g : list positive * list positive) : (list positive * list positive) * nat :=
  let '(ins, inits) := g in
  let extra := filter (fun v => negb (pmem v ins)) inits in
  ((ins ++ extra, inits), length extra).

Definition rm_inits (g : list positive * list positive) : (list positive * list positive) * nat :=
  let '(ins, inits) := g in
  let kept := filter (fun v => negb (pmem v inits)) ins in
  ((kept, inits), (length ins - length kept)%nat).

Definition io_pass (step : list positive * list positive -> (list positive * list positive) * nat)
           (m : list (list positive * list positive)) : list (list positive * list positive) * bool :=
  (map (fun g => fst (step g)) m, negb (Nat.eqb (fold_left Nat.add (map (fun g => snd (step g)) m) O) O)).

(* AddInitializersToInputsPass since fix d64e021: only model.graph (the head of the list returned by
   model.graphs()) is processed; subgraphs keep the inputs their operator defines.
   RemoveInitializersFromInputsPass still processes every graph (io_pass rm_inits). *)
Definition add_pass (m : list (list positive * list positive)) : list (list positive * list positive) * bool :=
  match m with
  | [] => ([], false)
  | g :: rest => (fst (add_inits g) :: rest, negb (Nat.eqb (snd (add_inits g)) O))
  end.
Definition rm_pass := io_pass rm_inits.

Definition io_eqb (a b : list positive * list positive) : bool :=
  list_eqb Pos.eqb (fst a) (fst b) && list_eqb Pos.eqb (snd a) (snd b).

Definition io_agree (case : bool * list (list positive * list positive) * (list (list positive * list positive) * bool)) : bool :=
  let '(is_add, m, (m', f)) := case in
  let '(pm, pf) := if is_add then add_pass m else rm_pass m in
  list_eqb io_eqb pm m' && Bool.eqb pf f.

(* ====================================================================== D. OutputFixPass (contract level)
   One graph-like (the pass treats graph_like and each of its subgraphs the same way, one after the other):
   inputs, outputs, and the Identity nodes (input value, output value) that the pass has appended to THIS graph.
   isin v = Value.is_graph_input() (an input of some graph; never changed by the pass).  Fresh values are numbered
   from `next`.  Value names (the `_alias_i` / `_orig` renames) are not modelled. *)
Record ograph : Type := { o_ins : list positive; o_outs : list positive; o_added : list (positive * positive) }.

Section OutputFix.
  Variable isin : positive -> bool.

  (* _alias_multi_used_outputs: the 2nd, 3rd ... occurrence of a value in graph.outputs gets an Identity *)
  Fixpoint of_multi (outs seen : list positive) (next : positive)
    : list positive * list (positive * positive) * positive :=
    match outs with
    | [] => ([], [], next)
    | o :: r =>
        if pmem o seen
        then let '(r', a, n') := of_multi r seen (Pos.succ next) in (next :: r', (o, next) :: a, n')
        else let '(r', a, n') := of_multi r (o :: seen) next in (o :: r', a, n')
    end.

  (* _alias_direct_outputs: an output that is a graph input gets an Identity *)
  Fixpoint of_direct (outs : list positive) (next : positive)
    : list positive * list (positive * positive) * positive :=
    match outs with
    | [] => ([], [], next)
    | o :: r =>
        if isin o
        then let '(r', a, n') := of_direct r (Pos.succ next) in (next :: r', (o, next) :: a, n')
        else let '(r', a, n') := of_direct r next in (o :: r', a, n')
    end.

  Definition of_graph (next : positive) (g : ograph) : ograph * bool :=
    let '(o1, a1, n1) := of_multi (o_outs g) [] next in
    let '(o2, a2, _) := of_direct o1 n1 in
    ({| o_ins := o_ins g; o_outs := o2; o_added := o_added g ++ a1 ++ a2 |},
     negb (match a1 with [] => true | _ => false end) || negb (match a2 with [] => true | _ => false end)).

  (* the whole pass over the graph-likes it visits; every graph numbers its fresh values from `next` (identities
     of fresh values are not compared) *)
  Definition of_pass (next : positive) (m : list ograph) : list ograph * bool :=
    (map (fun g => fst (of_graph next g)) m, existsb (fun g => snd (of_graph next g)) m).
End OutputFix.

(* observation that does not depend on how fresh values are numbered: outputs with fresh values as None, and per
   appended Identity its input and the position of its output among the graph outputs *)
Fixpoint pos_index (v : positive) (l : list positive) (i : nat) : option nat :=
  match l with [] => None | x :: r => if Pos.eqb x v then Some i else pos_index v r (S i) end.
Definition of_canon (next : positive) (g : ograph)
  : list positive * list (option positive) * list (positive * option nat) :=
  (o_ins g, map (fun v => if Pos.ltb v next then Some v else None) (o_outs g),
   map (fun io => (fst io, pos_index (snd io) (o_outs g) 0)) (o_added g)).

Definition canon_eqb (a b : list positive * list (option positive) * list (positive * option nat)) : bool :=
  let '(a1, a2, a3) := a in let '(b1, b2, b3) := b in
  list_eqb Pos.eqb a1 b1 && list_eqb (option_eqb Pos.eqb) a2 b2
  && list_eqb (fun x y => Pos.eqb (fst x) (fst y) && option_eqb Nat.eqb (snd x) (snd y)) a3 b3.

(* case: graph inputs of the whole model, next, graphs before, (canonical graphs after, flag) *)
Definition of_agree
  (case : list positive * positive * list ograph
          * (list (list positive * list (option positive) * list (positive * option nat)) * bool)) : bool :=
  let '(allins, next, m, (obs, f)) := case in
  let '(m', pf) := of_pass (fun v => pmem v allins) next m in
  list_eqb canon_eqb (map (of_canon next) m') obs && Bool.eqb pf f.

(* ====================================================================== E. RemoveUnusedOpsetsPass
   A graph-like: the keys of opset_imports (dict order) and the domains of all its nodes, RECURSIVELY (nodes of
   If/Loop/Scan bodies at any depth count for the enclosing graph or function: RecursiveGraphIterator).
   Domains are tokens; 1 = "" (always retained).  Main graph: also the domains of all functions are retained. *)
Record uograph : Type := { uo_imports : list positive; uo_node_domains : list positive }.

Definition uo_step (used : list positive) (g : uograph) : uograph * bool :=
  let keep := fun d => pmem d (1%positive :: used ++ uo_node_domains g) in
  ({| uo_imports := filter keep (uo_imports g); uo_node_domains := uo_node_domains g |},
   existsb (fun d => negb (keep d)) (uo_imports g)).

(* model = main graph, functions as (function domain, graph-like); process_functions as in the constructor *)
Definition uo_pass (process_functions : bool) (m : uograph * list (positive * uograph))
  : (uograph * list (positive * uograph)) * bool :=
  let '(main, funcs) := m in
  let r := uo_step (map fst funcs) main in
  if process_functions
  then ((fst r, map (fun f => (fst f, fst (uo_step [] (snd f)))) funcs),
        snd r || existsb (fun f => snd (uo_step [] (snd f))) funcs)
  else ((fst r, funcs), snd r).

Definition uograph_eqb (a b : uograph) : bool :=
  list_eqb Pos.eqb (uo_imports a) (uo_imports b) && list_eqb Pos.eqb (uo_node_domains a) (uo_node_domains b).
Definition uo_agree (case : bool * (uograph * list (positive * uograph)) * ((uograph * list (positive * uograph)) * bool)) : bool :=
  let '(pf, m, ((main', funcs'), f)) := case in
  let '((pm, pfs), pflag) := uo_pass pf m in
  uograph_eqb pm main' && list_eqb (fun x y => Pos.eqb (fst x) (fst y) && uograph_eqb (snd x) (snd y)) pfs funcs'
  && Bool.eqb pflag f.

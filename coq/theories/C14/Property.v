(* C14/Property.v — "Passes honour their contract: identity, modified flag, fixpoint, no damage".
   ONLY theorem statements closed by lemmas of Proofs*.v, each followed by Print Assumptions.
   Full-strength statements that the CODE AS WRITTEN violates are kept in comments next to the proved
   `_partial` theorem and the `_refuted` witness (replayed on the implementation by harness/props/c14.py). *)
From Coq Require Import ZArith List Bool Lia Arith PeanoNat.
From IRV Require Import Base.Exn Gen.C14Gen C14.Model C14.ProofsInfra C14.ProofsApi C14.ProofsPasses.
Import ListNotations.
Local Open Scope nat_scope.

(* ================================================================= (a) identity rule — every pass term
   (primitive passes with ANY effect and ANY scripted misbehaviour, Sequential, PassManager, functionalize):
   a call that returns at all returns the input object iff the pass is declared in place. *)
Theorem C14_identity :
  forall (St : Type) (p : pterm St) (w w' : world St) (m r : nat) (f : bool),
  exec St p w m = (w', XOk (r, f)) ->
  (in_place St p = true -> r = m) /\ (in_place St p = false -> r <> m).
Proof. exact exec_identity. Qed.
Print Assumptions C14_identity.

(* Sequential: the members run in order, each on the result of the previous one, and the reported flag is the
   OR of the members' flags. *)
Theorem C14_sequential_modified :
  forall (St : Type) ps (w w' : world St) m r f,
  exec St (Seq ps) w m = (w', XOk (r, f)) ->
  exists fl, seq_steps St (exec St) ps w m w' r fl /\ f = any fl.
Proof. exact sequential_modified. Qed.
Print Assumptions C14_sequential_modified.

(* PassManager: flag = OR over the executed rounds; at most `steps` rounds; with early_stop every round but the
   last reported a modification and the loop stopped at the first round that reported none (or ran out of steps). *)
Theorem C14_manager_modified :
  forall (St : Type) ps k e (w w' : world St) m r f,
  exec St (Mgr ps k e) w m = (w', XOk (r, f)) ->
  exists fl, rounds St (fun w m => seq_loop St (exec St) ps w m false) w m w' r fl /\ f = any fl /\ length fl <= k
             /\ (e = false -> length fl = k)
             /\ (e = true -> (exists j, j < k /\ fl = repeat true j ++ [false]) \/ fl = repeat true k).
Proof. exact manager_modified. Qed.
Print Assumptions C14_manager_modified.

(* PassManager convergence: if a round keeps the object and strictly decreases a measure whenever it reports a
   modification, then with steps > measure the manager ends with a round that reports no modification, after at
   most `measure` modifying rounds. *)
Theorem C14_manager_converges :
  forall (St : Type) (round : world St -> nat -> world St * xres (nat * bool)) (m : nat) (mu : world St -> nat),
  (forall w, exists w1 f, round w m = (w1, XOk (m, f)) /\ (f = true -> mu w1 < mu w)) ->
  forall k w ov, mu w < k ->
  exists w' f j wl,
    mgr_loop St round k true w m ov = (w', XOk (m, f))
    /\ j <= mu w /\ rounds St round w m wl m (repeat true j) /\ round wl m = (w', XOk (m, false))
    /\ f = ov || (0 <? j).
Proof. exact mgr_loop_converges. Qed.
Print Assumptions C14_manager_converges.

(* the round of a manager over one well-behaved in-place pass E is E itself (hypothesis of the theorem above
   is satisfiable: take mu w := measure (st w m)) *)
Theorem C14_manager_round_of_pass :
  forall (St : Type) (E : St -> St * bool) (w : world St) m,
  seq_loop St (exec St) [Prim (wb_prim St E)] w m false
  = (wset St w m (fst (E (st w m))), XOk (m, snd (E (st w m)))).
Proof. exact wb_round. Qed.
Print Assumptions C14_manager_round_of_pass.

(* (c) fixpoint, generic: a pass E whose True flag decreases a measure reports False within `measure` rounds;
   if one application establishes an invariant under which False means "unchanged", then within measure+1
   rounds it reports False AND changes nothing. *)
Theorem C14_converges_generic :
  forall (St : Type) (E : St -> St * bool) (mu : St -> nat),
  (forall s, snd (E s) = true -> mu (fst (E s)) < mu s) ->
  forall (Inv : St -> Prop),
  (forall s, Inv (fst (E s))) -> (forall s, mu (fst (E s)) <= mu s) ->
  (forall s, Inv s -> snd (E s) = false -> fst (E s) = s) ->
  forall s, exists k, k <= mu s + 1 /\ snd (E (iterE St E k s)) = false
                      /\ fst (E (iterE St E k s)) = iterE St E k s.
Proof. exact converge_fixpoint. Qed.
Print Assumptions C14_converges_generic.

(* functionalize: a fresh object, and the input keeps its state whenever the inner pass only touches the
   object it is given *)
Theorem C14_functionalize_fresh_and_pure :
  forall (St : Type) q (w w' : world St) m r f,
  exec St (Fun q) w m = (w', XOk (r, f)) ->
  r <> m /\
  (m < next w -> (forall w0 c w1 x, c <> m -> exec St q w0 c = (w1, x) -> st w1 m = st w0 m) -> st w' m = st w m).
Proof.
  intros St q w w' m r f H. split; [eapply functionalize_fresh; exact H|].
  intros Hm Hfr. eapply functionalize_input_unchanged; eassumption.
Qed.
Print Assumptions C14_functionalize_fresh_and_pure.

(* ================================================================= (e) analysis passes leave the model unchanged.
   FULL STATEMENT (violated by call_onnx_api_before_fix as written):
     forall serialize func g, NoDup (g_inits g) ->
       let g' := fst (call_onnx_api_before_fix _ _ serialize func g) in
       g_inputs g' = g_inputs g /\ g_inits g' = g_inits g /\ forall u, g_vals g' u = g_vals g u.
   Proved: the exact post-state, the partial theorem, three refuting witnesses, and the full statement for the
   repaired function of proposed_fixes/C14-call-onnx-api.diff. *)
Theorem C14_api_post_state :
  forall (Proto R : Type) (serialize : gst -> res Proto) (func : Proto -> res R) g p,
  NoDup (g_inits g) -> serialize (strip g) = Ok p ->
  let g' := fst (call_onnx_api_before_fix Proto R serialize func g) in
  g_inputs g' = g_inputs g
  /\ g_inits g' = filter (fun v => negb (stripped (g_vals g v))) (g_inits g)
                  ++ filter (fun v => stripped (g_vals g v)) (g_inits g)
  /\ (forall u, g_vals g' u = if pmem u (g_inits g) then fill (g_vals g u) else g_vals g u)
  /\ snd (call_onnx_api_before_fix Proto R serialize func g) = func p.
Proof. exact api_post. Qed.
Print Assumptions C14_api_post_state.

Theorem C14_analysis_readonly_partial :
  forall (Proto R : Type) (serialize : gst -> res Proto) (func : Proto -> res R) g p,
  NoDup (g_inits g) -> serialize (strip g) = Ok p ->
  (forall v, In v (g_inits g) -> stripped (g_vals g v) = false /\ fill (g_vals g v) = g_vals g v) ->
  let g' := fst (call_onnx_api_before_fix Proto R serialize func g) in
  g_inputs g' = g_inputs g /\ g_inits g' = g_inits g /\ forall u, g_vals g' u = g_vals g u.
Proof. exact api_readonly_partial. Qed.
Print Assumptions C14_analysis_readonly_partial.

(* initializers i0 (600 floats), i1, i2 come back as i1, i2, i0 although everything succeeded *)
Theorem C14_analysis_readonly_order_refuted :
  exists g, NoDup (g_inits g)
    /\ is_ok (snd (call_onnx_api_before_fix unit unit lazy_serialize (fun _ => Ok tt) g)) = true
    /\ g_inits (fst (call_onnx_api_before_fix unit unit lazy_serialize (fun _ => Ok tt) g)) <> g_inits g.
Proof.
  exists w_order. destruct api_order_witness as [H1 [H2 H3]]. split; [exact H1|]. split; [exact H2|].
  unfold run_ok in H3. rewrite H3. simpl. intros H; discriminate.
Qed.
Print Assumptions C14_analysis_readonly_order_refuted.

(* an initializer without shape/dtype gets them filled in *)
Theorem C14_analysis_readonly_shape_refuted :
  exists g u, is_ok (snd (call_onnx_api_before_fix unit unit lazy_serialize (fun _ => Ok tt) g)) = true
    /\ value_obs (g_vals (fst (call_onnx_api_before_fix unit unit lazy_serialize (fun _ => Ok tt) g)) u) <> value_obs (g_vals g u).
Proof.
  exists w_shape, 1%positive. destruct api_shape_witness as [H1 [H2 H3]]. split; [exact H1|].
  unfold run_ok in H3. rewrite H2, H3. intros H; discriminate.
Qed.
Print Assumptions C14_analysis_readonly_shape_refuted.

(* serialization raises (lazy tensor): initializers stay among the inputs, the big one is gone and has lost its tensor *)
Theorem C14_analysis_readonly_serialization_refuted :
  exists g, NoDup (g_inits g)
    /\ is_ok (snd (call_onnx_api_before_fix unit unit lazy_serialize (fun _ => Ok tt) g)) = false
    /\ g_inputs (fst (call_onnx_api_before_fix unit unit lazy_serialize (fun _ => Ok tt) g)) <> g_inputs g
    /\ g_inits (fst (call_onnx_api_before_fix unit unit lazy_serialize (fun _ => Ok tt) g)) <> g_inits g.
Proof.
  exists w_serfail. destruct api_serfail_witness as [H1 [H2 [H3 _]]].
  split; [repeat constructor; simpl; intuition congruence|]. split; [exact H1|].
  unfold run_ok in *. rewrite H2, H3. split; intros H; discriminate.
Qed.
Print Assumptions C14_analysis_readonly_serialization_refuted.

(* the repaired function is read-only for EVERY outcome of serialization and of the ONNX call *)
Theorem C14_analysis_readonly_fixed :
  forall (Proto R : Type) (serialize : gst -> res Proto) (func : Proto -> res R) g,
  NoDup (g_inits g) ->
  let g' := fst (call_onnx_api Proto R serialize func g) in
  g_inputs g' = g_inputs g /\ g_inits g' = g_inits g /\ forall u, g_vals g' u = g_vals g u.
Proof. exact api_fixed_readonly. Qed.
Print Assumptions C14_analysis_readonly_fixed.

(* ================================================================= (b)+(c) per pass: flag soundness and fixpoint.
   FULL STATEMENT per pass P:  snd (P m) = false -> fst (P m) = m   (the model state IS what is serialized). *)

(* ClearMetadataAndDocStringPass — full statement refuted (node doc strings are cleared but not counted) *)
Theorem C14_flag_sound_clear_partial :
  forall m, Forall docless m -> snd (clear_pass_before_fix m) = false -> fst (clear_pass_before_fix m) = m.
Proof. exact clear_flag_sound_partial. Qed.
Print Assumptions C14_flag_sound_clear_partial.

Theorem C14_flag_sound_clear_refuted : exists m, snd (clear_pass_before_fix m) = false /\ fst (clear_pass_before_fix m) <> m.
Proof. exists w_clear. exact clear_flag_refuted_witness. Qed.
Print Assumptions C14_flag_sound_clear_refuted.

Theorem C14_converges_clear :
  forall m, snd (clear_pass_before_fix (fst (clear_pass_before_fix m))) = false
            /\ fst (clear_pass_before_fix (fst (clear_pass_before_fix m))) = fst (clear_pass_before_fix m).
Proof. exact clear_converges. Qed.
Print Assumptions C14_converges_clear.

(* RemoveUnusedNodesPass (flat graphs) — full statement refuted (trailing None inputs trimmed, not counted) *)
Theorem C14_flag_sound_dce_partial :
  forall g, Forall (fun n => trim (d_ins n) = d_ins n) (d_nodes g) -> snd (dce_before_fix g) = false -> fst (dce_before_fix g) = g.
Proof. exact dce_flag_sound_partial. Qed.
Print Assumptions C14_flag_sound_dce_partial.

Theorem C14_flag_sound_dce_refuted : exists g, snd (dce_before_fix g) = false /\ fst (dce_before_fix g) <> g.
Proof. exists w_dce. exact dce_flag_refuted_witness. Qed.
Print Assumptions C14_flag_sound_dce_refuted.

(* measure = nodes + initializers; within size+1 rounds: reports False and changes nothing *)
Theorem C14_converges_dce :
  forall g, exists k, k <= dce_size g + 1 /\ snd (dce_before_fix (iterE dgraph dce_before_fix k g)) = false
                      /\ fst (dce_before_fix (iterE dgraph dce_before_fix k g)) = iterE dgraph dce_before_fix k g.
Proof. exact dce_converges. Qed.
Print Assumptions C14_converges_dce.

(* TopologicalSortPass over any length-preserving sort — full statement refuted (a reordered subgraph is not compared) *)
Theorem C14_flag_sound_toposort_partial :
  forall sort, (forall l, length (sort l) = length l) ->
  forall m, t_subs m = [] -> snd (topo_pass_before_fix sort m) = false -> fst (topo_pass_before_fix sort m) = m.
Proof. exact topo_flag_sound_partial. Qed.
Print Assumptions C14_flag_sound_toposort_partial.

Theorem C14_flag_sound_toposort_refuted :
  exists sort m, (forall l, length (sort l) = length l) /\ (forall l, sort (sort l) = sort l)
                 /\ snd (topo_pass_before_fix sort m) = false /\ fst (topo_pass_before_fix sort m) <> m.
Proof. exists w_sort, w_topo. exact topo_flag_refuted_witness. Qed.
Print Assumptions C14_flag_sound_toposort_refuted.

Theorem C14_converges_toposort :
  forall sort, (forall l, sort (sort l) = sort l) ->
  forall m, snd (topo_pass_before_fix sort (fst (topo_pass_before_fix sort m))) = false
            /\ fst (topo_pass_before_fix sort (fst (topo_pass_before_fix sort m))) = fst (topo_pass_before_fix sort m).
Proof. intros sort H m. apply topo_converges. exact H. Qed.
Print Assumptions C14_converges_toposort.

(* Add/RemoveInitializers(To/From)InputsPass — full statement holds *)
Theorem C14_flag_sound_inits_inputs :
  forall m, (snd (io_pass add_inits m) = false -> fst (io_pass add_inits m) = m)
            /\ (snd (io_pass rm_inits m) = false -> fst (io_pass rm_inits m) = m).
Proof. intros m. split; apply io_flag_sound; [exact add_inits_sound | exact rm_inits_sound]. Qed.
Print Assumptions C14_flag_sound_inits_inputs.

Theorem C14_converges_inits_inputs :
  forall m,
  (snd (io_pass add_inits (fst (io_pass add_inits m))) = false
   /\ fst (io_pass add_inits (fst (io_pass add_inits m))) = fst (io_pass add_inits m))
  /\ (snd (io_pass rm_inits (fst (io_pass rm_inits m))) = false
      /\ fst (io_pass rm_inits (fst (io_pass rm_inits m))) = fst (io_pass rm_inits m)).
Proof.
  intros m. split; apply io_converges;
    [exact add_inits_sound | exact add_inits_idem | exact rm_inits_sound | exact rm_inits_idem].
Qed.
Print Assumptions C14_converges_inits_inputs.

(* ================================================================= the repaired flag computations
   (proposed_fixes/C14-*.diff; selected by the harness for a finding whose status is "fixed"): FULL statement *)
Theorem C14_flag_sound_fixed :
  (forall m, snd (clear_pass m) = false -> fst (clear_pass m) = m)
  /\ (forall g, snd (dce g) = false -> fst (dce g) = g)
  /\ (forall sort m, snd (topo_pass sort m) = false -> fst (topo_pass sort m) = m).
Proof. split; [exact clear_fixed_flag_sound | split; [exact dce_fixed_flag_sound | exact topo_fixed_flag_sound]]. Qed.
Print Assumptions C14_flag_sound_fixed.

(* Non-vacuity: hypotheses met by concrete, non-trivial states *)
Example C14_example_partial_hypotheses :
  let g := {| g_inputs := [10%positive]; g_inits := [2; 3]%positive;
              g_vals := mk_vals [(2%positive, typed (small_t 101)); (3%positive, typed (small_t 102))] |} in
  NoDup (g_inits g) /\ lazy_serialize (strip g) = Ok tt
  /\ forall v, In v (g_inits g) -> stripped (g_vals g v) = false /\ fill (g_vals g v) = g_vals g v.
Proof.
  simpl. split; [repeat constructor; simpl; intuition congruence|]. split; [reflexivity|].
  intros v [H|[H|[]]]; subst; split; reflexivity.
Qed.

Example C14_example_dce_two_rounds :
  (* an unsorted graph: the dead consumer n1 precedes its dead producer n2 -> two modifying rounds *)
  let g := {| d_nodes := [ {| d_id := 1; d_ins := [Some 21]; d_outs := [22] |};
                           {| d_id := 2; d_ins := [Some 10]; d_outs := [21] |};
                           {| d_id := 3; d_ins := [Some 10]; d_outs := [30] |} ]%positive;
              d_outputs := [30%positive]; d_inputs := [10%positive]; d_inits := [] |} in
  snd (dce_before_fix g) = true /\ snd (dce_before_fix (fst (dce_before_fix g))) = true /\ snd (dce_before_fix (iterE dgraph dce_before_fix 2 g)) = false.
Proof. vm_compute. repeat split; reflexivity. Qed.

(* C14/Property.v — "Passes honour their contract: identity, modified flag, fixpoint, no damage".
   ONLY theorem statements closed by lemmas of Proofs*.v, each followed by Print Assumptions.
   The model is the code as it exists after the fix commits 0346f88 (call_onnx_api), fce58f3 (Clear flag),
   16a8fe8 (DCE count), 733a9c1 (TopologicalSort flag): the statements below are at full strength.  What the code
   did before those commits (refuting witnesses of the full statements) is recorded in C14_history_before_fixes
   and replayed on the implementation as ordinary corpus cases by harness/props/c14.py. *)
From Coq Require Import ZArith List Bool Lia Arith PeanoNat.
From IRV Require Import Base.Exn Gen.C14Gen C14.Model C14.ProofsInfra C14.ProofsApi C14.ProofsPasses C14.ProofsOutputFix C14.PyInfra Gen.C14InfraGen C14.ProofsPyInfra.
Import ListNotations.
Local Open Scope nat_scope.

(* ================================================================= (a) identity rule — every pass term
   (primitive passes with ANY effect and ANY scripted misbehaviour, Sequential, PassManager, functionalize):
   a call that returns at all returns the input object iff the pass is declared in place. *)
Theorem C14_identity :
  forall (St : Type) (p : pterm St) (w w' : world St) (m r : nat) (f : bool),
  exec St p w m = (w', XOk (r, f)) ->
  (in_place St p = true -> r = m) /\ (in_place St p = false -> r <> m).
Proof. exact exec_identity. Qed.
Print Assumptions C14_identity.

(* a PassResult argument: only its model is used; the incoming flag never leaks into the result, so repeated
   application `r = p(r)` sees each application's own flag (and the fixpoint theorems apply unchanged) *)
Theorem C14_result_argument_flag_ignored :
  forall p w m incoming, exec_arg p w m incoming = exec Z p w m.
Proof. reflexivity. Qed.
Print Assumptions C14_result_argument_flag_ignored.

(* ================================================================= the infrastructure model IS the source:
   Gen/C14InfraGen.v holds the bodies of PassBase.__call__, Sequential.call, PassManager.call and
   _FunctionalPassWrapper.call transcribed statement by statement from passes/_pass_infra.py on every run (fail
   closed); their interpretation (C14/PyInfra.v) equals the hand model used by all theorems of this file. *)
Theorem C14_passbase_call_translated :
  forall (St : Type) ip rq e1 en e2 body early steps ps sup inner (w : world St) m arg,
  arg = VModel m \/ (exists f0, arg = VResult m f0) ->       (* a Model, or a PassResult with ANY incoming flag *)
  run_method St (mk_self St ip rq e1 en e2 body early steps ps sup inner) passbase_call_body w arg
  = lift_res St (wrap St ip rq en body w m).
Proof. exact passbase_call_equiv. Qed.
Print Assumptions C14_passbase_call_translated.

Theorem C14_sequential_call_translated :
  forall (St : Type) (run : pterm St -> pfun St) ip rq e1 en e2 body early steps members sup inner (w : world St) m,
  run_method St (mk_self St ip rq e1 en e2 body early steps (map run members) sup inner) sequential_call_body w (VModel m)
  = lift_res St (seq_loop St run members w m false).
Proof. intros. rewrite sequential_call_equiv, seq_loop_f_model. reflexivity. Qed.
Print Assumptions C14_sequential_call_translated.

Theorem C14_passmanager_call_translated :
  forall (St : Type) ip rq e1 en e2 body early steps ps sup inner (w : world St) m,
  run_method St (mk_self St ip rq e1 en e2 body early steps ps sup inner) passmanager_call_body w (VModel m)
  = lift_res St (mgr_loop St sup steps early w m false).
Proof. exact passmanager_call_equiv. Qed.
Print Assumptions C14_passmanager_call_translated.

Theorem C14_functional_call_translated :
  forall (St : Type) ip rq e1 en e2 body early steps ps sup inner (w : world St) m,
  run_method St (mk_self St ip rq e1 en e2 body early steps ps sup inner) functional_call_body w (VModel m)
  = lift_res St (let '(w1, c) := wclone St w m in inner w1 c).
Proof. exact functional_call_equiv. Qed.
Print Assumptions C14_functional_call_translated.

(* Sequential: the members run in order, each on the result of the previous one, and the reported flag is the
   OR of the members' flags. *)
Theorem C14_sequential_modified :
  forall (St : Type) ps (w w' : world St) m r f,
  exec St (Seq ps) w m = (w', XOk (r, f)) ->
  exists fl, seq_steps St (exec St) ps w m w' r fl /\ f = any fl.
Proof. exact sequential_modified. Qed.
Print Assumptions C14_sequential_modified.

(* PassManager: flag = OR over the executed rounds; at most `steps` rounds; with early_stop every round but the
   last reported a modification and the loop stopped at the first round that reported none (or ran out of steps). *)
Theorem C14_manager_modified :
  forall (St : Type) ps k e (w w' : world St) m r f,
  exec St (Mgr ps k e) w m = (w', XOk (r, f)) ->
  exists fl, rounds St (fun w m => seq_loop St (exec St) ps w m false) w m w' r fl /\ f = any fl /\ length fl <= k
             /\ (e = false -> length fl = k)
             /\ (e = true -> (exists j, j < k /\ fl = repeat true j ++ [false]) \/ fl = repeat true k).
Proof. exact manager_modified. Qed.
Print Assumptions C14_manager_modified.

(* PassManager convergence: if a round keeps the object and strictly decreases a measure whenever it reports a
   modification, then with steps > measure the manager ends with a round that reports no modification, after at
   most `measure` modifying rounds. *)
Theorem C14_manager_converges :
  forall (St : Type) (round : world St -> nat -> world St * xres (nat * bool)) (m : nat) (mu : world St -> nat),
  (forall w, exists w1 f, round w m = (w1, XOk (m, f)) /\ (f = true -> mu w1 < mu w)) ->
  forall k w ov, mu w < k ->
  exists w' f j wl,
    mgr_loop St round k true w m ov = (w', XOk (m, f))
    /\ j <= mu w /\ rounds St round w m wl m (repeat true j) /\ round wl m = (w', XOk (m, false))
    /\ f = ov || (0 <? j).
Proof. exact mgr_loop_converges. Qed.
Print Assumptions C14_manager_converges.

(* the round of a manager over one well-behaved in-place pass E is E itself (hypothesis of the theorem above
   is satisfiable: take mu w := measure (st w m)) *)
Theorem C14_manager_round_of_pass :
  forall (St : Type) (E : St -> St * bool) (w : world St) m,
  seq_loop St (exec St) [Prim (wb_prim St E)] w m false
  = (wset St w m (fst (E (st w m))), XOk (m, snd (E (st w m)))).
Proof. exact wb_round. Qed.
Print Assumptions C14_manager_round_of_pass.

(* (c) fixpoint, generic: a pass E whose True flag decreases a measure reports False within `measure` rounds;
   if one application establishes an invariant under which False means "unchanged", then within measure+1
   rounds it reports False AND changes nothing. *)
Theorem C14_converges_generic :
  forall (St : Type) (E : St -> St * bool) (mu : St -> nat),
  (forall s, snd (E s) = true -> mu (fst (E s)) < mu s) ->
  forall (Inv : St -> Prop),
  (forall s, Inv (fst (E s))) -> (forall s, mu (fst (E s)) <= mu s) ->
  (forall s, Inv s -> snd (E s) = false -> fst (E s) = s) ->
  forall s, exists k, k <= mu s + 1 /\ snd (E (iterE St E k s)) = false
                      /\ fst (E (iterE St E k s)) = iterE St E k s.
Proof. exact converge_fixpoint. Qed.
Print Assumptions C14_converges_generic.

(* functionalize: a fresh object, and the input keeps its state whenever the inner pass only touches the
   object it is given *)
Theorem C14_functionalize_fresh_and_pure :
  forall (St : Type) q (w w' : world St) m r f,
  exec St (Fun q) w m = (w', XOk (r, f)) ->
  r <> m /\
  (m < next w -> (forall w0 c w1 x, c <> m -> exec St q w0 c = (w1, x) -> st w1 m = st w0 m) -> st w' m = st w m).
Proof.
  intros St q w w' m r f H. split; [eapply functionalize_fresh; exact H|].
  intros Hm Hfr. eapply functionalize_input_unchanged; eassumption.
Qed.
Print Assumptions C14_functionalize_fresh_and_pure.

(* ================================================================= (e) analysis passes leave the model unchanged:
   for EVERY behaviour of serialization (may raise) and of the ONNX call (may raise), the graph inputs, the
   initializer ORDER and every value (tensor object, shape, dtype) are exactly as before call_onnx_api. *)
Theorem C14_analysis_readonly :
  forall (Proto R : Type) (serialize : gst -> res Proto) (func : Proto -> res R) g,
  NoDup (g_inits g) ->
  let g' := fst (call_onnx_api Proto R serialize func g) in
  g_inputs g' = g_inputs g /\ g_inits g' = g_inits g /\ forall u, g_vals g' u = g_vals g u.
Proof. exact api_readonly. Qed.
Print Assumptions C14_analysis_readonly.

(* ... and the exception of either step is what the caller sees *)
Theorem C14_analysis_outcome :
  forall (Proto R : Type) (serialize : gst -> res Proto) (func : Proto -> res R) g,
  snd (call_onnx_api Proto R serialize func g)
  = match serialize (strip g) with Ok p => func p | Raise e => Raise e end.
Proof. exact api_result. Qed.
Print Assumptions C14_analysis_outcome.

(* ================================================================= (b) modified=False only if the model is unchanged
   (the model state IS what is serialized), and (c) fixpoint, per modelled pass *)

(* ClearMetadataAndDocStringPass *)
Theorem C14_flag_sound_clear : forall m, snd (clear_pass m) = false -> fst (clear_pass m) = m.
Proof. exact clear_flag_sound. Qed.
Print Assumptions C14_flag_sound_clear.

Theorem C14_converges_clear :
  forall m, snd (clear_pass (fst (clear_pass m))) = false
            /\ fst (clear_pass (fst (clear_pass m))) = fst (clear_pass m).
Proof. exact clear_converges. Qed.
Print Assumptions C14_converges_clear.

(* RemoveUnusedNodesPass (flat graphs: node sweep, trailing-None trimming, initializer removal) *)
Theorem C14_flag_sound_dce : forall g, snd (dce g) = false -> fst (dce g) = g.
Proof. exact dce_flag_sound. Qed.
Print Assumptions C14_flag_sound_dce.

(* measure = nodes + initializers + kept nodes with trailing None inputs; within measure+1 rounds the pass
   reports False and changes nothing (unsorted graphs need several rounds: C14_example_dce_two_rounds) *)
Theorem C14_converges_dce :
  forall g, exists k, k <= dce_mu g + 1 /\ snd (dce (iterE dgraph dce k g)) = false
                      /\ fst (dce (iterE dgraph dce k g)) = iterE dgraph dce k g.
Proof. exact dce_converges. Qed.
Print Assumptions C14_converges_dce.

(* TopologicalSortPass, for EVERY sort function (Graph.sort is C12's) *)
Theorem C14_flag_sound_toposort :
  forall sort m, snd (topo_pass sort m) = false -> fst (topo_pass sort m) = m.
Proof. exact topo_flag_sound. Qed.
Print Assumptions C14_flag_sound_toposort.

Theorem C14_converges_toposort :
  forall sort, (forall l, sort (sort l) = sort l) ->
  forall m, snd (topo_pass sort (fst (topo_pass sort m))) = false
            /\ fst (topo_pass sort (fst (topo_pass sort m))) = fst (topo_pass sort m).
Proof. intros sort H m. apply topo_converges. exact H. Qed.
Print Assumptions C14_converges_toposort.

(* AddInitializersToInputsPass (main graph only since fix d64e021; subgraphs untouched) and
   RemoveInitializersFromInputsPass (every graph) *)
Theorem C14_flag_sound_inits_inputs :
  forall m, (snd (add_pass m) = false -> fst (add_pass m) = m)
            /\ (snd (rm_pass m) = false -> fst (rm_pass m) = m)
            /\ tl (fst (add_pass m)) = tl m.
Proof.
  intros m. split; [apply add_pass_flag_sound|]. split; [apply io_flag_sound; exact rm_inits_sound | apply add_pass_tail].
Qed.
Print Assumptions C14_flag_sound_inits_inputs.

Theorem C14_converges_inits_inputs :
  forall m,
  (snd (add_pass (fst (add_pass m))) = false /\ fst (add_pass (fst (add_pass m))) = fst (add_pass m))
  /\ (snd (rm_pass (fst (rm_pass m))) = false /\ fst (rm_pass (fst (rm_pass m))) = fst (rm_pass m)).
Proof.
  intros m. split; [apply add_pass_converges|].
  apply io_converges; [exact rm_inits_sound | exact rm_inits_idem].
Qed.
Print Assumptions C14_converges_inits_inputs.

(* ================================================================= the flag is EXACT for the modelled passes:
   modified=False iff the model state is what it was (so modified=True implies an observable change) *)
Theorem C14_flag_exact :
  (forall m, snd (clear_pass m) = false <-> fst (clear_pass m) = m)
  /\ (forall g, snd (dce g) = false <-> fst (dce g) = g)
  /\ (forall sort m, snd (topo_pass sort m) = false <-> fst (topo_pass sort m) = m)
  /\ (forall m, snd (add_pass m) = false <-> fst (add_pass m) = m)
  /\ (forall m, snd (rm_pass m) = false <-> fst (rm_pass m) = m).
Proof.
  split; [intros m; split; [apply clear_flag_sound | apply clear_flag_complete]|].
  split; [intros g; split; [apply dce_flag_sound | apply dce_flag_complete]|].
  split; [intros sort m; split; [apply topo_flag_sound | apply topo_flag_complete]|].
  split; [intros m; split; [apply add_pass_flag_sound | apply add_pass_flag_complete]|].
  intros m; split; [apply io_flag_sound; exact rm_inits_sound | apply rm_pass_flag_complete].
Qed.
Print Assumptions C14_flag_exact.

(* ================================================================= OutputFixPass (contract-level model: per graph-like
   its inputs, outputs and the Identity nodes appended to it; isin = Value.is_graph_input) *)
Theorem C14_outputfix_flag_exact :
  forall (isin : positive -> bool) next m,
  snd (of_pass isin next m) = false <-> fst (of_pass isin next m) = m.
Proof. intros isin next m. split; [apply of_pass_sound | apply of_pass_complete]. Qed.
Print Assumptions C14_outputfix_flag_exact.

(* fixpoint after ONE application, whenever fresh values are numbered above every graph input and every output *)
Theorem C14_outputfix_fixpoint :
  forall (isin : positive -> bool) (base : positive), (forall v, isin v = true -> (v < base)%positive) ->
  forall next next' m, (base <= next)%positive ->
  Forall (fun g => forall v, In v (o_outs g) -> (v < next)%positive) m ->
  snd (of_pass isin next' (fst (of_pass isin next m))) = false
  /\ fst (of_pass isin next' (fst (of_pass isin next m))) = fst (of_pass isin next m).
Proof. intros isin base Hb next next' m. apply (of_pass_idem isin base Hb). Qed.
Print Assumptions C14_outputfix_fixpoint.

(* no damage: every output of a graph after the pass is one of its old outputs or the output of an Identity node
   that the pass appended to THAT graph *)
Theorem C14_outputfix_outputs_owned :
  forall (isin : positive -> bool) next g v,
  In v (o_outs (fst (of_graph isin next g))) ->
  In v (o_outs g) \/ exists i, In (i, v) (o_added (fst (of_graph isin next g))).
Proof. exact of_graph_owned. Qed.
Print Assumptions C14_outputfix_outputs_owned.

(* ================================================================= RemoveUnusedOpsetsPass: exact flag and fixpoint after one run *)
Theorem C14_unused_opsets_contract :
  forall pf m,
  (snd (uo_pass pf m) = false <-> fst (uo_pass pf m) = m)
  /\ snd (uo_pass pf (fst (uo_pass pf m))) = false.
Proof. intros pf m. split; [apply uo_pass_exact | apply uo_pass_idem]. Qed.
Print Assumptions C14_unused_opsets_contract.

(* ================================================================= history: what the fixes repaired.
   The models of the code before the fix commits violate the statements above on these witnesses, and the
   current models do not (the same inputs are corpus cases replayed on the implementation on every run). *)
Theorem C14_history_before_fixes :
  (* 0346f88: initializers i0 (600 floats), i1, i2 came back as i1, i2, i0; shape/dtype were filled in;
     a raising serialization left the initializers among the inputs and the big one removed *)
  g_inits (fst (run_ok w_order)) = [2; 3; 1]%positive
  /\ value_obs (g_vals (fst (run_ok w_shape)) 1%positive) <> value_obs (g_vals w_shape 1%positive)
  /\ (g_inputs (fst (run_ok w_serfail)) = [10; 1; 2]%positive /\ g_inits (fst (run_ok w_serfail)) = [2]%positive)
  /\ (gst_obs [1; 2; 3; 10]%positive (fst (run_now w_order)) = gst_obs [1; 2; 3; 10]%positive w_order
      /\ gst_obs [1; 10]%positive (fst (run_now w_shape)) = gst_obs [1; 10]%positive w_shape
      /\ gst_obs [1; 2; 10]%positive (fst (run_now w_serfail)) = gst_obs [1; 2; 10]%positive w_serfail)
  (* fce58f3, 16a8fe8, 733a9c1: modified=False although the model changed *)
  /\ (snd (clear_pass_before_fix w_clear) = false /\ fst (clear_pass_before_fix w_clear) <> w_clear /\ snd (clear_pass w_clear) = true)
  /\ (snd (dce_before_fix w_dce) = false /\ fst (dce_before_fix w_dce) <> w_dce /\ snd (dce w_dce) = true)
  /\ (snd (topo_pass_before_fix w_sort w_topo) = false /\ fst (topo_pass_before_fix w_sort w_topo) <> w_topo
      /\ snd (topo_pass w_sort w_topo) = true).
Proof.
  destruct api_order_witness as [_ [_ H1]]. destruct api_shape_witness as [_ [H2a H2b]].
  destruct api_serfail_witness as [_ [H3a [H3b _]]]. destruct api_witnesses_now as [N1 [N2 [N3 _]]].
  split; [exact H1|]. split; [rewrite H2a, H2b; intros H; discriminate|]. split; [split; assumption|].
  split; [repeat split; assumption|].
  split; [exact clear_before_fix_witness|]. split; [exact dce_before_fix_witness | exact topo_before_fix_witness].
Qed.
Print Assumptions C14_history_before_fixes.

(* Non-vacuity: hypotheses met by concrete, non-trivial states *)
Example C14_example_readonly_hypotheses :
  (* big + small + raising lazy initializer, one of them also a graph input: NoDup holds, serialization raises *)
  let g := {| g_inputs := [10; 2]%positive; g_inits := [1; 2; 3]%positive;
              g_vals := mk_vals [(1%positive, typed (big_t 100)); (2%positive, untyped (small_t 101)); (3%positive, typed (lazy_bad_t 102))] |} in
  NoDup (g_inits g) /\ lazy_serialize (strip g) = Raise OtherError
  /\ gst_obs [1; 2; 3; 10]%positive (fst (call_onnx_api unit unit lazy_serialize (fun _ => Ok tt) g)) = gst_obs [1; 2; 3; 10]%positive g.
Proof. simpl. split; [repeat constructor; simpl; intuition congruence|]. split; vm_compute; reflexivity. Qed.

Example C14_example_dce_two_rounds :
  (* an unsorted graph: the dead consumer n1 precedes its dead producer n2 -> two modifying rounds *)
  let g := {| d_nodes := [ {| d_id := 1; d_ins := [Some 21]; d_outs := [22] |};
                           {| d_id := 2; d_ins := [Some 10]; d_outs := [21] |};
                           {| d_id := 3; d_ins := [Some 10]; d_outs := [30] |} ]%positive;
              d_outputs := [30%positive]; d_inputs := [10%positive]; d_inits := [] |} in
  snd (dce g) = true /\ snd (dce (fst (dce g))) = true /\ snd (dce (iterE dgraph dce 2 g)) = false.
Proof. vm_compute. repeat split; reflexivity. Qed.

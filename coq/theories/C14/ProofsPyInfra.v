(* C14/ProofsPyInfra.v — the bodies of PassBase.__call__, Sequential.call, PassManager.call and
   _FunctionalPassWrapper.call, as transcribed from the source on every run (Gen/C14InfraGen.v), compute what the
   hand model of C14/Model.v says (wrap, seq_loop, mgr_loop, the functionalize body). *)
From Coq Require Import ZArith List Bool Lia Arith PeanoNat.
From IRV Require Import Base.Exn Gen.C14Gen C14.Model C14.PyInfra Gen.C14InfraGen.
Import ListNotations.
Local Open Scope nat_scope.

Section Equiv.
  Variable St : Type.
  Notation world := (world St).
  Notation pfun := (pfun St).

  Definition lift_opt (r : world * xres (option (nat * bool))) : world * xres pyval :=
    match r with
    | (w, XOk (Some (m, f))) => (w, XOk (VResult m f))
    | (w, XOk None) => (w, XOk VOther)
    | (w, XRaise e) => (w, XRaise e)
    end.

  (* a pass object as the hand model sees it: requires/ensures raise (any exception class) or not, call = body *)
  Definition mk_self (ip : bool) (rq : bool) (e1 : xn) (en : bool) (e2 : xn)
             (body : world -> nat -> world * xres (option (nat * bool)))
             (early : bool) (steps : nat) (ps : list pfun) (sup inner : pfun) : self St :=
    {| s_in_place := ip; s_early := early; s_steps := steps;
       s_requires := fun w _ => if rq then (w, XRaise e1) else (w, XOk tt);
       s_ensures := fun w _ => if en then (w, XRaise e2) else (w, XOk tt);
       s_call := fun w m => lift_opt (body w m);
       s_passes := ps; s_super := sup; s_inner := inner |}.

  (* ---------- PassBase.__call__ == Model.wrap, for a Model argument and for a PassResult argument with ANY flag *)
  Lemma passbase_call_equiv ip rq e1 en e2 body early steps ps sup inner (w : world) m arg :
    arg = VModel m \/ (exists f0, arg = VResult m f0) ->
    run_method St (mk_self ip rq e1 en e2 body early steps ps sup inner) passbase_call_body w arg
    = lift_res St (wrap St ip rq en body w m).
  Proof.
    intros Harg. unfold run_method, passbase_call_body, wrap.
    destruct Harg as [->|[f0 ->]]; cbn;
      (destruct rq; [destruct e1; reflexivity|]); cbn;
      (destruct (body w m) as [w1 [[[r f]|]|e]]; cbn; try reflexivity);
      (destruct en; [destruct e2; reflexivity|]); cbn;
      destruct ip; cbn; destruct (Nat.eqb r m); cbn; reflexivity.
  Qed.

  (* ---------- Sequential.call == seq_loop over the members' __call__ *)
  Fixpoint seq_loop_f (ps : list pfun) (w : world) (m : nat) (acc : bool) : world * xres (nat * bool) :=
    match ps with
    | [] => (w, XOk (m, acc))
    | p :: r => match p w m with
                | (w1, XRaise _) => (w1, XRaise XPass)
                | (w1, XOk (m1, f)) => seq_loop_f r w1 m1 (acc || f)
                end
    end.

  Lemma seq_loop_f_model (run : pterm St -> pfun) ps w m acc :
    seq_loop St run ps w m acc = seq_loop_f (map run ps) w m acc.
  Proof.
    revert w m acc. induction ps as [|p ps IH]; intros w m acc; simpl; [reflexivity|].
    destruct (run p w m) as [w1 [[m1 f]|e]]; [apply IH | reflexivity].
  Qed.

  Section Seq.
    Variable sf : self St.
    Let body := SSeq (STry (SHook (Some 4) (HPass 3) (EVar 0)) (SHandler None (SRaise XPass) SNoHandler))
                     (SSeq (SAssign 0 (EModel (EVar 4))) (SAssign 1 (EOr (EVar 1) (EModified (EVar 4))))).
    Let rb := fun (en : env) (w : world) => run St sf body en w None.

    Lemma seq_for_equiv : forall suf pre (en : env) (w : world) m acc,
      s_passes St sf = pre ++ suf -> en 0 = VModel m -> en 1 = VBool acc ->
      match seq_loop_f suf w m acc with
      | (w', XOk (r, f)) => exists en', for_passes St rb 2 3 suf (length pre) en w = (en', w', CNormal)
                                        /\ en' 0 = VModel r /\ en' 1 = VBool f
      | (w', XRaise e) => exists en', for_passes St rb 2 3 suf (length pre) en w = (en', w', CRaise e)
      end.
    Proof.
      induction suf as [|p suf IH]; intros pre en w m acc Hps H0 H1.
      - simpl. exists en. repeat split; assumption.
      - simpl seq_loop_f. simpl for_passes.
        assert (Hn : nth_error (s_passes St sf) (length pre) = Some p).
        { rewrite Hps, nth_error_app2, Nat.sub_diag by lia. reflexivity. }
        unfold rb at 1. unfold body. cbn. unfold upd at 1 2 3. cbn. rewrite H0. cbn. rewrite Hn. cbn.
        destruct (p w m) as [w1 [[m1 f]|e]] eqn:Ep; cbn.
        + unfold upd. cbn. rewrite H1. cbn.
          destruct acc; cbn;
            match goal with |- context [for_passes St rb 2 3 suf (S (length pre)) ?E w1] => set (en2 := E) end.
          * specialize (IH (pre ++ [p]) en2 w1 m1 true).
            rewrite app_length in IH. simpl in IH. rewrite Nat.add_1_r in IH.
            apply IH; [rewrite <- app_assoc; exact Hps | reflexivity | reflexivity].
          * specialize (IH (pre ++ [p]) en2 w1 m1 f).
            rewrite app_length in IH. simpl in IH. rewrite Nat.add_1_r in IH.
            apply IH; [rewrite <- app_assoc; exact Hps | reflexivity | reflexivity].
        + eexists. reflexivity.
    Qed.
  End Seq.

  Lemma sequential_call_equiv ip rq e1 en e2 body early steps ps sup inner (w : world) m :
    run_method St (mk_self ip rq e1 en e2 body early steps ps sup inner) sequential_call_body w (VModel m)
    = lift_res St (seq_loop_f ps w m false).
  Proof.
    unfold run_method, sequential_call_body. cbn.
    set (sf := mk_self ip rq e1 en e2 body early steps ps sup inner).
    set (en0 := upd (upd (fun _ : nat => VNone) 0 (VModel m)) 1 (VBool false)).
    pose proof (seq_for_equiv sf ps [] en0 w m false eq_refl eq_refl eq_refl) as H. simpl length in H.
    destruct (seq_loop_f ps w m false) as [w' [[r f]|e]].
    - destruct H as [en' [Hl [H0 H1]]]. cbn in Hl |- *. rewrite Hl. cbn. rewrite H0, H1. reflexivity.
    - destruct H as [en' Hl]. cbn in Hl |- *. rewrite Hl. reflexivity.
  Qed.

  (* ---------- PassManager.call == mgr_loop over super().call *)
  Section Mgr.
    Variable sf : self St.
    Let body := SSeq (STry (SHook (Some 3) HSuper (EVar 0)) (SHandler None (SRaise XPass) SNoHandler))
                  (SSeq (SAssign 0 (EModel (EVar 3))) (SSeq (SAssign 4 (EModified (EVar 3)))
                    (SSeq (SAssign 1 (EOr (EVar 1) (EVar 4))) (SIf (EAnd (ENot (EVar 4)) ESelfEarlyStop) SBreak SSkip)))).
    Let rb := fun (en : env) (w : world) => run St sf body en w None.

    Lemma mgr_for_equiv : forall n (en : env) (w : world) m ov,
      en 0 = VModel m -> en 1 = VBool ov ->
      match mgr_loop St (s_super St sf) n (s_early St sf) w m ov with
      | (w', XOk (r, f)) => exists en', for_steps St rb 2 n en w = (en', w', CNormal)
                                        /\ en' 0 = VModel r /\ en' 1 = VBool f
      | (w', XRaise e) => exists en', for_steps St rb 2 n en w = (en', w', CRaise e)
      end.
    Proof.
      induction n as [|n IH]; intros en w m ov H0 H1.
      - simpl. exists en. repeat split; assumption.
      - simpl mgr_loop. simpl for_steps.
        unfold rb at 1. unfold body. cbn. unfold upd at 1. cbn. rewrite H0. cbn.
        destruct (s_super St sf w m) as [w1 [[m1 f]|e]] eqn:Ep; cbn.
        + unfold upd. cbn. rewrite H1. cbn.
          destruct ov; destruct f; destruct (s_early St sf); cbn;
            try (eexists; split; [reflexivity | split; reflexivity]);
            match goal with |- context [for_steps St rb 2 n ?E w1] => set (en2 := E) end;
            match goal with |- context [mgr_loop St _ n _ w1 m1 ?b] => apply (IH en2 w1 m1 b); reflexivity end.
        + eexists. reflexivity.
    Qed.
  End Mgr.

  Lemma passmanager_call_equiv ip rq e1 en e2 body early steps ps sup inner (w : world) m :
    run_method St (mk_self ip rq e1 en e2 body early steps ps sup inner) passmanager_call_body w (VModel m)
    = lift_res St (mgr_loop St sup steps early w m false).
  Proof.
    unfold run_method, passmanager_call_body. cbn.
    set (sf := mk_self ip rq e1 en e2 body early steps ps sup inner).
    set (en0 := upd (upd (fun _ : nat => VNone) 0 (VModel m)) 1 (VBool false)).
    pose proof (mgr_for_equiv sf steps en0 w m false eq_refl eq_refl) as H.
    change (s_super St sf) with sup in H. change (s_early St sf) with early in H.
    destruct (mgr_loop St sup steps early w m false) as [w' [[r f]|e]].
    - destruct H as [en' [Hl [H0 H1]]]. cbn in Hl |- *. rewrite Hl. cbn. rewrite H0, H1. reflexivity.
    - destruct H as [en' Hl]. cbn in Hl |- *. rewrite Hl. reflexivity.
  Qed.

  (* ---------- _FunctionalPassWrapper.call == inner pass on a clone *)
  Lemma functional_call_equiv ip rq e1 en e2 body early steps ps sup inner (w : world) m :
    run_method St (mk_self ip rq e1 en e2 body early steps ps sup inner) functional_call_body w (VModel m)
    = lift_res St (let '(w1, c) := wclone St w m in inner w1 c).
  Proof.
    unfold run_method, functional_call_body. cbn.
    destruct (inner _ _) as [w1 [[r f]|e]]; reflexivity.
  Qed.
End Equiv.

(* C14/ProofsInfra.v — PassBase.__call__, Sequential, PassManager, functionalize. *)
From Coq Require Import ZArith List Bool Lia Arith PeanoNat.
From IRV Require Import Base.Exn Gen.C14Gen C14.Model.
Import ListNotations.
Local Open Scope nat_scope.

Section InfraProofs.
  Variable St : Type.
  Notation world := (world St).
  Notation pterm := (pterm St).
  Notation exec := (exec St).

  (* ---------- unfolding equations of exec *)
  Lemma exec_prim_unfold pr (w : world) m :
    exec (Prim pr) w m = wrap St (pr_in_place St pr) (pr_req_raises St pr) (pr_ens_raises St pr) (prim_body St pr) w m.
  Proof. reflexivity. Qed.

  Lemma exec_seq_unfold ps (w : world) m :
    exec (Seq ps) w m =
    wrap St (forallb (in_place St) ps) false false
         (fun w m => lift_some St (seq_loop St exec ps w m false)) w m.
  Proof. reflexivity. Qed.

  Lemma exec_mgr_unfold ps k e (w : world) m :
    exec (Mgr ps k e) w m =
    wrap St (forallb (in_place St) ps) false false
         (fun w m => lift_some St (mgr_loop St (fun w m => seq_loop St exec ps w m false) k e w m false)) w m.
  Proof. reflexivity. Qed.

  Lemma exec_fun_unfold q (w : world) m :
    exec (Fun q) w m =
    wrap St false false false (fun w m => let '(w1, c) := wclone St w m in lift_some St (exec q w1 c)) w m.
  Proof. reflexivity. Qed.

  (* ---------- identity rule *)
  Lemma wrap_identity ip req ens body (w w' : world) m r f :
    wrap St ip req ens body w m = (w', XOk (r, f)) ->
    if ip then r = m else r <> m.
  Proof.
    unfold wrap. destruct req; [discriminate|].
    destruct (body w m) as [w1 [[[r1 f1]|]|e]]; try discriminate.
    destruct ens; [discriminate|].
    destruct ip; destruct (Nat.eqb r1 m) eqn:E; intros H; inversion H; subst;
      try (apply Nat.eqb_eq in E; exact E); try (apply Nat.eqb_neq in E; exact E).
  Qed.

  Lemma exec_identity (p : pterm) (w w' : world) m r f :
    exec p w m = (w', XOk (r, f)) ->
    (in_place St p = true -> r = m) /\ (in_place St p = false -> r <> m).
  Proof.
    intros H.
    assert (K : if in_place St p then r = m else r <> m).
    { destruct p as [pr|ps|ps k e|q];
        [rewrite exec_prim_unfold in H | rewrite exec_seq_unfold in H
         | rewrite exec_mgr_unfold in H | rewrite exec_fun_unfold in H];
        exact (wrap_identity _ _ _ _ _ _ _ _ _ H). }
    destruct (in_place St p); split; intros; try discriminate; assumption.
  Qed.

  (* the body result of a successful wrapped call *)
  Lemma wrap_ok_body ip req ens body (w w' : world) m r f :
    wrap St ip req ens body w m = (w', XOk (r, f)) -> body w m = (w', XOk (Some (r, f))).
  Proof.
    unfold wrap. destruct req; [discriminate|].
    destruct (body w m) as [w1 [[[r1 f1]|]|e]]; try discriminate.
    destruct ens; [discriminate|].
    destruct ip; destruct (Nat.eqb r1 m); intros H; inversion H; subst; reflexivity.
  Qed.

  Lemma lift_some_ok (x : world * xres (nat * bool)) w' a :
    lift_some St x = (w', XOk (Some a)) -> x = (w', XOk a).
  Proof. destruct x as [w1 [b|e]]; simpl; intros H; inversion H; subst; reflexivity. Qed.

  (* ---------- Sequential: the steps chain and modified is the OR of the members' flags *)
  Inductive seq_steps (run : pterm -> world -> nat -> world * xres (nat * bool))
    : list pterm -> world -> nat -> world -> nat -> list bool -> Prop :=
  | ss_nil w m : seq_steps run [] w m w m []
  | ss_cons p ps w m w1 m1 f w2 r fl :
      run p w m = (w1, XOk (m1, f)) -> seq_steps run ps w1 m1 w2 r fl ->
      seq_steps run (p :: ps) w m w2 r (f :: fl).

  Definition any (l : list bool) : bool := existsb (fun b => b) l.

  Lemma seq_loop_spec run ps : forall (w : world) m acc w' r f,
    seq_loop St run ps w m acc = (w', XOk (r, f)) ->
    exists fl, seq_steps run ps w m w' r fl /\ f = acc || any fl.
  Proof.
    induction ps as [|p ps IH]; simpl; intros w m acc w' r f H.
    - inversion H; subst. exists []. split; [constructor | simpl; rewrite orb_false_r; reflexivity].
    - destruct (run p w m) as [w1 [[m1 f1]|e]] eqn:E; [|discriminate].
      apply IH in H. destruct H as [fl [Hs Hf]].
      exists (f1 :: fl). split; [econstructor; eassumption|].
      subst f. simpl. rewrite orb_assoc. reflexivity.
  Qed.

  Lemma sequential_modified ps (w w' : world) m r f :
    exec (Seq ps) w m = (w', XOk (r, f)) ->
    exists fl, seq_steps exec ps w m w' r fl /\ f = any fl.
  Proof.
    rewrite exec_seq_unfold. intros H. apply wrap_ok_body in H. apply lift_some_ok in H.
    apply seq_loop_spec in H. destruct H as [fl [Hs Hf]]. exists fl. split; [assumption|].
    rewrite Hf. reflexivity.
  Qed.

  (* all members in place (each obeying the identity rule through its own __call__): same object throughout *)
  Lemma seq_steps_inplace ps : forall (w w' : world) m r fl,
    forallb (in_place St) ps = true -> seq_steps exec ps w m w' r fl -> r = m.
  Proof.
    induction ps as [|p ps IH]; intros w w' m r fl Hip Hs; inversion Hs; subst; [reflexivity|].
    simpl in Hip. apply andb_prop in Hip. destruct Hip as [Hp Hps].
    match goal with H : exec p w m = _ |- _ => apply exec_identity in H; destruct H as [Hi _] end.
    specialize (Hi Hp). subst. eapply IH; eassumption.
  Qed.

  (* ---------- PassManager *)
  Inductive rounds (round : world -> nat -> world * xres (nat * bool))
    : world -> nat -> world -> nat -> list bool -> Prop :=
  | rd_nil w m : rounds round w m w m []
  | rd_cons w m w1 m1 f w2 r fl :
      round w m = (w1, XOk (m1, f)) -> rounds round w1 m1 w2 r fl -> rounds round w m w2 r (f :: fl).

  Lemma mgr_loop_spec round early : forall k (w : world) m ov w' r f,
    mgr_loop St round k early w m ov = (w', XOk (r, f)) ->
    exists fl, rounds round w m w' r fl /\ f = ov || any fl /\ length fl <= k
               /\ (early = false -> length fl = k)
               /\ (early = true -> (exists j, j < k /\ fl = repeat true j ++ [false]) \/ fl = repeat true k).
  Proof.
    induction k as [|k IH]; simpl; intros w m ov w' r f H.
    - inversion H; subst. exists []. split; [constructor|].
      split; [simpl; rewrite orb_false_r; reflexivity|]. split; [simpl; lia|].
      split; [intros _; reflexivity|]. intros _. right. reflexivity.
    - destruct (round w m) as [w1 [[m1 f1]|e]] eqn:E; [|discriminate].
      destruct (negb f1 && early) eqn:Stop.
      + inversion H; subst. apply andb_prop in Stop. destruct Stop as [Hf1 He].
        apply negb_true_iff in Hf1. subst f1.
        exists [false]. split; [econstructor; [eassumption|constructor]|].
        split; [simpl; reflexivity|]. split; [simpl; lia|].
        split; [intros Hc; rewrite Hc in He; discriminate|].
        intros _. left. exists 0. split; [lia|reflexivity].
      + apply IH in H. destruct H as [fl [Hr [Hf [Hl [Hne He]]]]].
        exists (f1 :: fl). split; [econstructor; eassumption|].
        split; [subst f; simpl; rewrite orb_assoc; reflexivity|].
        split; [simpl; lia|]. split; [intros Hc; simpl; rewrite (Hne Hc); reflexivity|].
        intros Hc. subst early. rewrite andb_true_r in Stop. apply negb_false_iff in Stop. subst f1.
        destruct (He eq_refl) as [[j [Hj Hfl]]|Hfl].
        * left. exists (S j). split; [lia|]. simpl. rewrite Hfl. reflexivity.
        * right. simpl. rewrite Hfl. reflexivity.
  Qed.

  Lemma manager_modified ps k e (w w' : world) m r f :
    exec (Mgr ps k e) w m = (w', XOk (r, f)) ->
    exists fl, rounds (fun w m => seq_loop St exec ps w m false) w m w' r fl /\ f = any fl /\ length fl <= k
               /\ (e = false -> length fl = k)
               /\ (e = true -> (exists j, j < k /\ fl = repeat true j ++ [false]) \/ fl = repeat true k).
  Proof.
    rewrite exec_mgr_unfold. intros H. apply wrap_ok_body in H. apply lift_some_ok in H.
    apply mgr_loop_spec in H. destruct H as [fl [Hr [Hf H]]]. exists fl. split; [assumption|].
    split; [rewrite Hf; reflexivity | exact H].
  Qed.

  (* convergence of the manager loop: rounds that keep the object and whose measure drops whenever they
     report a modification *)
  Section ManagerConverges.
    Variable round : world -> nat -> world * xres (nat * bool).
    Variable m : nat.
    Variable mu : world -> nat.
    Hypothesis round_ok : forall w, exists w1 f, round w m = (w1, XOk (m, f)) /\ (f = true -> mu w1 < mu w).

    Lemma mgr_loop_converges : forall k (w : world) ov,
      mu w < k ->
      exists w' f j wl,
        mgr_loop St round k true w m ov = (w', XOk (m, f))
        /\ j <= mu w
        /\ rounds round w m wl m (repeat true j)        (* j modifying rounds ... *)
        /\ round wl m = (w', XOk (m, false))            (* ... then one that reports no modification: stop *)
        /\ f = ov || (0 <? j).
    Proof.
      induction k as [|k IH]; intros w ov Hk; [lia|].
      simpl. destruct (round_ok w) as [w1 [f1 [E Hdec]]]. rewrite E.
      destruct f1; simpl.
      - assert (Hlt : mu w1 < k) by (specialize (Hdec eq_refl); lia).
        destruct (IH w1 (ov || true) Hlt) as [w' [f [j [wl [Hrun [Hj [Hr [Hlast Hf]]]]]]]].
        exists w', f, (S j), wl. split; [exact Hrun|]. split; [specialize (Hdec eq_refl); lia|].
        split; [simpl; econstructor; eassumption|]. split; [exact Hlast|].
        rewrite Hf. rewrite orb_true_r. simpl. rewrite orb_true_r. reflexivity.
      - exists w1, (ov || false), 0, w. split; [reflexivity|]. split; [lia|].
        split; [constructor|]. split; [exact E|]. simpl. reflexivity.
    Qed.
  End ManagerConverges.

  (* ---------- a pass as a state function: fixpoint within mu s rounds *)
  Section Converge.
    Variable E : St -> St * bool.
    Variable mu : St -> nat.
    Hypothesis E_measure : forall s, snd (E s) = true -> mu (fst (E s)) < mu s.

    Lemma converge_measure_aux : forall n s, mu s <= n ->
      exists k, k <= mu s /\ snd (E (iterE St E k s)) = false
                /\ (forall j, j < k -> snd (E (iterE St E j s)) = true).
    Proof.
      induction n as [|n IH]; intros s Hn.
      - exists 0. split; [lia|]. split; [|intros j Hj; lia].
        simpl. destruct (snd (E s)) eqn:F; [|reflexivity]. apply E_measure in F. lia.
      - destruct (snd (E s)) eqn:F.
        + assert (Hlt : mu (fst (E s)) <= n) by (apply E_measure in F; lia).
          destruct (IH _ Hlt) as [k [Hk [Hf Hall]]].
          exists (S k). split; [apply E_measure in F; lia|]. split; [exact Hf|].
          intros [|j] Hj; simpl; [exact F | apply Hall; lia].
        + exists 0. split; [lia|]. split; [exact F | intros j Hj; lia].
    Qed.

    Lemma converge_measure s :
      exists k, k <= mu s /\ snd (E (iterE St E k s)) = false
                /\ (forall j, j < k -> snd (E (iterE St E j s)) = true).
    Proof. apply (converge_measure_aux (mu s)). lia. Qed.

    (* with an invariant that one application establishes and under which a False flag means "unchanged" *)
    Variable Inv : St -> Prop.
    Hypothesis Inv_est : forall s, Inv (fst (E s)).
    Hypothesis mu_mono : forall s, mu (fst (E s)) <= mu s.
    Hypothesis sound_inv : forall s, Inv s -> snd (E s) = false -> fst (E s) = s.

    Lemma iterE_S k : forall s, iterE St E (S k) s = iterE St E k (fst (E s)).
    Proof. reflexivity. Qed.

    Lemma iterE_inv k : forall s, Inv s -> Inv (iterE St E k s).
    Proof. induction k; simpl; intros s H; [exact H | apply IHk, Inv_est]. Qed.

    Lemma converge_fixpoint s :
      exists k, k <= mu s + 1 /\ snd (E (iterE St E k s)) = false
                /\ fst (E (iterE St E k s)) = iterE St E k s.
    Proof.
      destruct (converge_measure (fst (E s))) as [k [Hk [Hf _]]].
      exists (S k). split; [specialize (mu_mono s); lia|].
      rewrite iterE_S. split; [exact Hf|].
      apply sound_inv; [apply iterE_inv, Inv_est | exact Hf].
    Qed.
  End Converge.

  (* the manager over one well-behaved in-place pass satisfies the round hypothesis *)
  Lemma wb_round E (w : world) m :
    seq_loop St exec [Prim (wb_prim St E)] w m false
    = (wset St w m (fst (E (st w m))), XOk (m, snd (E (st w m)))).
  Proof.
    simpl. unfold wrap, prim_body. simpl. destruct (E (st w m)) as [s f] eqn:Es. simpl.
    rewrite Nat.eqb_refl. reflexivity.
  Qed.

  (* ---------- functionalize: fresh result and (given the inner pass only touches objects reachable from
     its argument, i.e. not object m) the input is left as it was *)
  Lemma functionalize_fresh q (w w' : world) m r f :
    exec (Fun q) w m = (w', XOk (r, f)) -> r <> m.
  Proof. intros H. apply exec_identity in H. destruct H as [_ H]. apply H. reflexivity. Qed.

  Lemma functionalize_input_unchanged q (w w' : world) m r f :
    m < next w ->
    (forall w0 c w1 x, c <> m -> exec q w0 c = (w1, x) -> st w1 m = st w0 m) ->   (* frame of the inner pass *)
    exec (Fun q) w m = (w', XOk (r, f)) -> st w' m = st w m.
  Proof.
    intros Hm Hframe H. rewrite exec_fun_unfold in H. apply wrap_ok_body in H.
    unfold wclone in H. simpl in H. apply lift_some_ok in H.
    apply Hframe in H; [|lia]. rewrite H. simpl.
    destruct (Nat.eqb m (next w)) eqn:E; [apply Nat.eqb_eq in E; lia | reflexivity].
  Qed.
End InfraProofs.

(* non-vacuity: a decrementing pass under a manager converges; a misdeclared pass is rejected *)
Example infra_example_converges :
  infra_obs (Mgr [Prim (sprim true true false false false RSame (EDec 2))] 10 true) 5
  = (true, true, XOk (0, true), [0%Z]).
Proof. vm_compute. reflexivity. Qed.

Example infra_example_misdeclared :
  infra_obs (Prim (sprim true true false false false RClone (ENop false))) 5
  = (true, true, XRaise XPass, [5%Z; 5%Z]).
Proof. vm_compute. reflexivity. Qed.

Example infra_example_functionalize :
  infra_obs (Fun (Prim (sprim true true false false false RSame (ESet 9)))) 5
  = (false, false, XOk (1, true), [5%Z; 9%Z]).
Proof. vm_compute. reflexivity. Qed.

(* C14/ProofsPasses.v — flag soundness and convergence of the modelled passes. *)
From Coq Require Import ZArith List Bool Lia Arith PeanoNat.
From IRV Require Import Base.Exn Gen.C14Gen C14.Model C14.ProofsInfra C14.ProofsApi.
Import ListNotations.
Local Open Scope nat_scope.

Lemma filter_length_le {A} (p : A -> bool) l : length (filter p l) <= length l.
Proof. induction l as [|a l IH]; simpl; [lia|]. destruct (p a); simpl; lia. Qed.

Lemma filter_length_id {A} (p : A -> bool) l : length l <= length (filter p l) -> filter p l = l.
Proof.
  induction l as [|a l IH]; simpl; intros H; [reflexivity|].
  destruct (p a); simpl in H.
  - f_equal. apply IH. lia.
  - pose proof (filter_length_le p l). lia.
Qed.

(* ====================================================================== ClearMetadataAndDocString *)
Lemma all_clean_map (l : list (bool * bool)) :
  existsb (fun n => fst n || snd n) l = false -> map (fun _ => (false, false)) l = l.
Proof.
  induction l as [|[a b] l IH]; simpl; intros H; [reflexivity|].
  apply orb_false_iff in H. destruct H as [H1 H2]. apply orb_false_iff in H1. destruct H1; subst.
  f_equal. apply IH. exact H2.
Qed.

Lemma clear_graph_sound g : snd (clear_graph g) = false -> fst (clear_graph g) = g.
Proof.
  destruct g as [gm gd ns]. unfold clear_graph, clear_state. simpl.
  destruct ns as [|n ns]; [reflexivity|]. intros Hf.
  apply orb_false_iff in Hf. destruct Hf as [Hf Hd]. apply orb_false_iff in Hf. destruct Hf as [He Hm].
  simpl in Hm, Hd. subst gm gd. simpl. f_equal. exact (all_clean_map (n :: ns) He).
Qed.

Lemma clear_flag_sound m : snd (clear_pass m) = false -> fst (clear_pass m) = m.
Proof.
  unfold clear_pass. simpl. induction m as [|g m IH]; intros Hf; [reflexivity|].
  simpl in Hf |- *. apply orb_false_iff in Hf. destruct Hf as [Hg Hm].
  f_equal; [apply clear_graph_sound; assumption | apply IH; assumption].
Qed.

Lemma clear_graph_idem g : snd (clear_graph (fst (clear_graph g))) = false.
Proof.
  destruct g as [gm gd ns]. unfold clear_graph at 2. unfold clear_state. simpl.
  destruct ns as [|n ns]; [reflexivity|].
  unfold clear_graph. simpl.
  assert (E : forall l : list (bool * bool), existsb (fun n => fst n || snd n) (map (fun _ => (false, false)) l) = false)
    by (induction l; simpl; [reflexivity | assumption]).
  rewrite E. destruct (gm || gd) eqn:D; simpl; [reflexivity|].
  apply orb_false_iff in D. destruct D; subst. reflexivity.
Qed.

Lemma clear_converges m :
  snd (clear_pass (fst (clear_pass m))) = false /\ fst (clear_pass (fst (clear_pass m))) = fst (clear_pass m).
Proof.
  assert (F : snd (clear_pass (fst (clear_pass m))) = false).
  { unfold clear_pass. cbn [fst snd]. induction m as [|g m IH]; [reflexivity|].
    cbn [map existsb]. rewrite (clear_graph_idem g). exact IH. }
  split; [exact F | apply clear_flag_sound; exact F].
Qed.

(* history: before fix fce58f3 a node doc string was cleared without being counted *)
Definition w_clear : list cgraph := [ {| cg_meta := false; cg_doc := false; cg_nodes := [(false, true)] |} ].

Lemma clear_before_fix_witness :
  snd (clear_pass_before_fix w_clear) = false /\ fst (clear_pass_before_fix w_clear) <> w_clear
  /\ snd (clear_pass w_clear) = true.
Proof. split; [reflexivity | split; [vm_compute; intros H; discriminate | reflexivity]]. Qed.

(* ====================================================================== RemoveUnusedNodes (flat) *)
Lemma drop_nones_idem l : drop_nones (drop_nones l) = drop_nones l.
Proof. induction l as [|[x|] l IH]; simpl; [reflexivity | reflexivity | exact IH]. Qed.

Lemma trim_idem l : trim (trim l) = trim l.
Proof. unfold trim. rewrite rev_involutive, drop_nones_idem. reflexivity. Qed.

Lemma ins_eqb_eq a b : ins_eqb a b = true <-> a = b.
Proof.
  unfold ins_eqb. apply list_eqb_eq. intros [x|] [y|]; simpl; split; intros H; try discriminate; try reflexivity.
  - apply Pos.eqb_eq in H. subst. reflexivity.
  - inversion H. apply Pos.eqb_refl.
Qed.

Lemma untrimmed_trim_node n : untrimmed (trim_node n) = false.
Proof.
  unfold untrimmed, trim_node. simpl. rewrite trim_idem.
  apply negb_false_iff. apply ins_eqb_eq. reflexivity.
Qed.

(* removed + kept = all; kept nodes are trimmed; the count is removals + trims, trims <= untrimmed nodes *)
Lemma sweep_spec outs : forall l before l' c,
  sweep outs before l = (l', c) ->
  exists removed trims,
    c = removed + trims /\ length l' + removed = length l
    /\ trims <= length (filter untrimmed l) /\ filter untrimmed l' = []
    /\ (c = 0 -> l' = l).
Proof.
  induction l as [|n rest IH]; simpl; intros before l' c H.
  - inversion H; subst. exists 0, 0. repeat split; simpl; lia.
  - destruct (sweep outs (before ++ [n]) rest) as [rest' c'] eqn:E.
    destruct (IH _ _ _ E) as [removed [trims [Hc [Hlen [Htr [Hun Hz]]]]]].
    destruct (forallb _ (d_outs n)).
    + inversion H; subst. exists (S removed), trims. split; [lia|]. split; [lia|].
      split; [destruct (untrimmed n); simpl; lia|]. split; [exact Hun|]. intros Hc0; discriminate.
    + destruct (ins_eqb (trim (d_ins n)) (d_ins n)) eqn:T; inversion H; subst.
      * exists removed, trims. split; [reflexivity|]. split; [simpl; lia|].
        split; [destruct (untrimmed n); simpl; lia|].
        split; [simpl; rewrite untrimmed_trim_node; exact Hun|].
        intros Hc0. rewrite (Hz Hc0). apply ins_eqb_eq in T.
        destruct n as [i ins os]. unfold trim_node. simpl in *. rewrite T. reflexivity.
      * exists removed, (S trims). split; [lia|]. split; [simpl; lia|].
        split; [unfold untrimmed at 1; rewrite T; simpl; lia|].
        split; [simpl; rewrite untrimmed_trim_node; exact Hun|]. intros Hc0; discriminate.
Qed.

Lemma dce_flag_sound g : snd (dce g) = false -> fst (dce g) = g.
Proof.
  unfold dce. destruct (sweep (d_outputs g) [] (d_nodes g)) as [ns c] eqn:E. simpl. intros H.
  apply negb_false_iff in H. apply Nat.eqb_eq in H.
  apply sweep_spec in E. destruct E as [removed [trims [Hc [Hlen [_ [_ Hz]]]]]].
  assert (Hc0 : c = 0) by lia. rewrite (Hz Hc0) in *.
  match goal with |- context [filter ?p (d_inits g)] =>
    assert (F : filter p (d_inits g) = d_inits g) by (apply filter_length_id; lia) end.
  rewrite F. destruct g; reflexivity.
Qed.

Lemma dce_measure g : snd (dce g) = true -> dce_mu (fst (dce g)) < dce_mu g.
Proof.
  unfold dce, dce_mu. destruct (sweep (d_outputs g) [] (d_nodes g)) as [ns c] eqn:E. simpl.
  apply sweep_spec in E. destruct E as [removed [trims [Hc [Hlen [Htr [Hun _]]]]]].
  intros H. apply negb_true_iff in H. apply Nat.eqb_neq in H. rewrite Hun. simpl.
  match goal with |- context [filter ?p (d_inits g)] => pose proof (filter_length_le p (d_inits g)) end. lia.
Qed.

Lemma dce_mu_mono g : dce_mu (fst (dce g)) <= dce_mu g.
Proof.
  unfold dce, dce_mu. destruct (sweep (d_outputs g) [] (d_nodes g)) as [ns c] eqn:E. simpl.
  apply sweep_spec in E. destruct E as [removed [trims [Hc [Hlen [Htr [Hun _]]]]]]. rewrite Hun. simpl.
  match goal with |- context [filter ?p (d_inits g)] => pose proof (filter_length_le p (d_inits g)) end. lia.
Qed.

Lemma dce_converges g :
  exists k, k <= dce_mu g + 1 /\ snd (dce (iterE dgraph dce k g)) = false
            /\ fst (dce (iterE dgraph dce k g)) = iterE dgraph dce k g.
Proof.
  apply (converge_fixpoint dgraph dce dce_mu dce_measure (fun _ => True)).
  - intros; exact I.
  - exact dce_mu_mono.
  - intros s _. apply dce_flag_sound.
Qed.

(* history: before fix 16a8fe8 — Clip(x, None, None) feeding the graph output: kept, trimmed, count = 0 *)
Definition w_dce : dgraph :=
  {| d_nodes := [ {| d_id := 1; d_ins := [Some 10; None; None]; d_outs := [11] |} ]%positive;
     d_outputs := [11%positive]; d_inputs := [10%positive]; d_inits := [] |}.

Lemma dce_before_fix_witness :
  snd (dce_before_fix w_dce) = false /\ fst (dce_before_fix w_dce) <> w_dce /\ snd (dce w_dce) = true.
Proof. split; [vm_compute; reflexivity | split; [vm_compute; intros H; discriminate | vm_compute; reflexivity]]. Qed.

(* ====================================================================== TopologicalSort flag *)
Lemma leqb_iff a b : list_eqb Pos.eqb a b = true <-> a = b.
Proof. apply list_eqb_eq. apply Pos.eqb_eq. Qed.

Lemma tmodel_eqb_eq a b : tmodel_eqb a b = true <-> a = b.
Proof.
  unfold tmodel_eqb, lists_eqb. destruct a as [a1 a2 a3], b as [b1 b2 b3]. simpl. split.
  - intros H. apply andb_prop in H. destruct H as [H H3]. apply andb_prop in H. destruct H as [H1 H2].
    apply leqb_iff in H1. apply (list_eqb_eq _ leqb_iff) in H2. apply (list_eqb_eq _ leqb_iff) in H3. subst. reflexivity.
  - intros H. inversion H; subst. rewrite !andb_true_iff. repeat split;
      [apply leqb_iff | apply (list_eqb_eq _ leqb_iff) | apply (list_eqb_eq _ leqb_iff)]; reflexivity.
Qed.

(* full statement, for EVERY sort function *)
Lemma topo_flag_sound sort m : snd (topo_pass sort m) = false -> fst (topo_pass sort m) = m.
Proof.
  unfold topo_pass. simpl. intros H. apply negb_false_iff in H. apply tmodel_eqb_eq in H. symmetry. exact H.
Qed.

Lemma topo_converges sort m :
  (forall l, sort (sort l) = sort l) ->
  snd (topo_pass sort (fst (topo_pass sort m))) = false
  /\ fst (topo_pass sort (fst (topo_pass sort m))) = fst (topo_pass sort m).
Proof.
  intros Hidem.
  assert (S2 : topo_state sort (topo_state sort m) = topo_state sort m).
  { destruct m as [mn fs ss]. unfold topo_state. simpl.
    assert (M : forall l, map sort (map sort l) = map sort l)
      by (induction l; simpl; [reflexivity | rewrite Hidem; f_equal; assumption]).
    rewrite Hidem, !M. reflexivity. }
  unfold topo_pass. simpl. rewrite S2. split; [|reflexivity].
  apply negb_false_iff. apply tmodel_eqb_eq. reflexivity.
Qed.

(* history: before fix 733a9c1 — a subgraph [2;1] that sort puts in order, nothing at top level *)
Definition w_sort (l : list positive) : list positive :=
  if list_eqb Pos.eqb l [2; 1]%positive then [1; 2]%positive else l.
Definition w_topo : tmodel := {| t_main := [5%positive]; t_funcs := []; t_subs := [[2; 1]%positive] |}.

Lemma topo_before_fix_witness :
  snd (topo_pass_before_fix w_sort w_topo) = false /\ fst (topo_pass_before_fix w_sort w_topo) <> w_topo
  /\ snd (topo_pass w_sort w_topo) = true.
Proof. split; [reflexivity | split; [vm_compute; intros H; discriminate | reflexivity]]. Qed.

(* ====================================================================== Add/RemoveInitializers(To/From)Inputs *)
Lemma fold_add_zero : forall l a, fold_left Nat.add l a = 0 -> a = 0 /\ Forall (fun x => x = 0) l.
Proof.
  induction l as [|x l IH]; simpl; intros a H; [split; [exact H | constructor]|].
  apply IH in H. destruct H as [H1 H2]. split; [lia|]. constructor; [lia | exact H2].
Qed.

Lemma io_flag_sound step m :
  (forall g, snd (step g) = 0 -> fst (step g) = g) ->
  snd (io_pass step m) = false -> fst (io_pass step m) = m.
Proof.
  intros Hstep. unfold io_pass. simpl. intros H. apply negb_false_iff in H. apply Nat.eqb_eq in H.
  apply fold_add_zero in H. destruct H as [_ H].
  induction m as [|g m IH]; [reflexivity|]. simpl in *. inversion H; subst.
  f_equal; [apply Hstep; assumption | apply IH; assumption].
Qed.

Lemma add_inits_sound g : snd (add_inits g) = 0 -> fst (add_inits g) = g.
Proof.
  destruct g as [ins inits]. unfold add_inits. simpl. intros H.
  apply length_zero_iff_nil in H. rewrite H, app_nil_r. reflexivity.
Qed.

Lemma rm_inits_sound g : snd (rm_inits g) = 0 -> fst (rm_inits g) = g.
Proof.
  destruct g as [ins inits]. unfold rm_inits. simpl. intros H.
  rewrite filter_length_id; [reflexivity | lia].
Qed.

Lemma add_inits_idem g : snd (add_inits (fst (add_inits g))) = 0.
Proof.
  destruct g as [ins inits]. unfold add_inits. simpl.
  rewrite filter_none_nil; [reflexivity|]. intros v Hv.
  rewrite pmem_app, pmem_filter. apply pmem_In in Hv. rewrite Hv. simpl.
  destruct (pmem v ins); reflexivity.
Qed.

Lemma rm_inits_idem g : snd (rm_inits (fst (rm_inits g))) = 0.
Proof.
  destruct g as [ins inits]. unfold rm_inits. simpl.
  match goal with |- _ - length (filter ?p ?l) = 0 => rewrite (filter_all_id p l) end; [lia|].
  intros v Hv. apply filter_In in Hv. tauto.
Qed.

Lemma io_converges step m :
  (forall g, snd (step g) = 0 -> fst (step g) = g) -> (forall g, snd (step (fst (step g))) = 0) ->
  snd (io_pass step (fst (io_pass step m))) = false
  /\ fst (io_pass step (fst (io_pass step m))) = fst (io_pass step m).
Proof.
  intros Hs Hi.
  assert (F : snd (io_pass step (fst (io_pass step m))) = false).
  { unfold io_pass. simpl. apply negb_false_iff. apply Nat.eqb_eq.
    rewrite map_map. induction m as [|g m IH]; [reflexivity|]. simpl. rewrite Hi. simpl. exact IH. }
  split; [exact F | apply io_flag_sound; assumption].
Qed.

(* AddInitializersToInputsPass (main graph only, fix d64e021) *)
Lemma add_pass_flag_sound m : snd (add_pass m) = false -> fst (add_pass m) = m.
Proof.
  destruct m as [|g rest]; [reflexivity|]. simpl. intros H.
  apply negb_false_iff in H. apply Nat.eqb_eq in H. rewrite (add_inits_sound g H). reflexivity.
Qed.

Lemma add_pass_converges m :
  snd (add_pass (fst (add_pass m))) = false /\ fst (add_pass (fst (add_pass m))) = fst (add_pass m).
Proof.
  assert (F : snd (add_pass (fst (add_pass m))) = false).
  { destruct m as [|g rest]; [reflexivity|]. simpl. rewrite add_inits_idem. reflexivity. }
  split; [exact F | apply add_pass_flag_sound; exact F].
Qed.

(* the subgraphs are left alone *)
Lemma add_pass_tail m : tl (fst (add_pass m)) = tl m.
Proof. destruct m; reflexivity. Qed.

(* ====================================================================== flag exactness, other direction:
   a pass that leaves the model state as it was reports modified=False (so True => something observable changed) *)
Lemma map_fix_inv {A} (f : A -> A) : forall l, map f l = l -> Forall (fun x => f x = x) l.
Proof.
  induction l as [|a l IH]; simpl; intros H; [constructor|].
  injection H as Ha Hl. constructor; [exact Ha | apply IH; exact Hl].
Qed.

Lemma all_false_clean (l : list (bool * bool)) :
  map (fun _ => (false, false)) l = l -> existsb (fun n => fst n || snd n) l = false.
Proof.
  induction l as [|[a b] l IH]; simpl; intros E; [reflexivity|].
  injection E as Ea Eb El. subst a b. simpl. apply IH. exact El.
Qed.

Lemma clear_graph_complete g : fst (clear_graph g) = g -> snd (clear_graph g) = false.
Proof.
  destruct g as [gm gd ns]. unfold clear_graph, clear_state. cbn [cg_nodes cg_meta cg_doc fst snd].
  destruct ns as [|n ns]; [reflexivity|]. intros H. injection H as Hm Hd Hn Hns.
  assert (Hall : map (fun _ : bool * bool => (false, false)) (n :: ns) = n :: ns) by (simpl; f_equal; [exact Hn | exact Hns]).
  rewrite (all_false_clean (n :: ns) Hall). simpl.
  destruct (gm || gd) eqn:D; [|apply orb_false_iff in D; destruct D; subst; reflexivity].
  subst gm gd. discriminate.
Qed.

Lemma clear_flag_complete m : fst (clear_pass m) = m -> snd (clear_pass m) = false.
Proof.
  unfold clear_pass. cbn [fst snd]. intros H. apply map_fix_inv in H.
  induction m as [|g m IH]; [reflexivity|]. inversion H; subst. cbn [existsb].
  rewrite (clear_graph_complete g) by assumption. simpl. apply IH. assumption.
Qed.

Lemma dce_flag_complete g : fst (dce g) = g -> snd (dce g) = false.
Proof.
  intros H. destruct (snd (dce g)) eqn:F; [|reflexivity].
  apply dce_measure in F. rewrite H in F. lia.
Qed.

Lemma topo_flag_complete sort m : fst (topo_pass sort m) = m -> snd (topo_pass sort m) = false.
Proof.
  unfold topo_pass. simpl. intros H. apply negb_false_iff. apply tmodel_eqb_eq. symmetry. exact H.
Qed.

Lemma add_pass_flag_complete m : fst (add_pass m) = m -> snd (add_pass m) = false.
Proof.
  destruct m as [|[ins inits] rest]; [reflexivity|]. unfold add_pass.
  destruct (add_inits (ins, inits)) as [[ins' inits'] c] eqn:E. unfold add_inits in E. injection E as E1 E2 E3.
  cbn [fst snd]. intros H. injection H as Hi Hn. subst ins' c.
  apply (f_equal (@length positive)) in Hi. rewrite app_length in Hi.
  apply negb_false_iff. apply Nat.eqb_eq. lia.
Qed.

Lemma rm_inits_fix g : fst (rm_inits g) = g -> snd (rm_inits g) = 0.
Proof.
  destruct g as [ins inits]. unfold rm_inits. cbn [fst snd]. intros H. injection H as Hk. rewrite Hk. lia.
Qed.

Lemma rm_pass_flag_complete m : fst (rm_pass m) = m -> snd (rm_pass m) = false.
Proof.
  unfold rm_pass, io_pass. cbn [fst snd]. intros H. apply map_fix_inv in H.
  apply negb_false_iff. apply Nat.eqb_eq.
  assert (Z0 : Forall (fun x => x = 0) (map (fun g => snd (rm_inits g)) m)).
  { induction m as [|g m IH]; [constructor|]. inversion H as [|? ? Hg Hm]; subst. cbn [map].
    constructor; [apply rm_inits_fix; exact Hg | apply IH; exact Hm]. }
  clear H. induction (map (fun g => snd (rm_inits g)) m) as [|x l IH]; [reflexivity|].
  inversion Z0; subst. simpl. apply IH. assumption.
Qed.

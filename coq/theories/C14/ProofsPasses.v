(* C14/ProofsPasses.v — flag soundness and convergence of the modelled passes. *)
From Coq Require Import ZArith List Bool Lia Arith PeanoNat.
From IRV Require Import Base.Exn Gen.C14Gen C14.Model C14.ProofsInfra C14.ProofsApi.
Import ListNotations.
Local Open Scope nat_scope.

Lemma filter_length_le {A} (p : A -> bool) l : length (filter p l) <= length l.
Proof. induction l as [|a l IH]; simpl; [lia|]. destruct (p a); simpl; lia. Qed.

Lemma filter_length_id {A} (p : A -> bool) l : length l <= length (filter p l) -> filter p l = l.
Proof.
  induction l as [|a l IH]; simpl; intros H; [reflexivity|].
  destruct (p a); simpl in H.
  - f_equal. apply IH. lia.
  - pose proof (filter_length_le p l). lia.
Qed.

(* ====================================================================== ClearMetadataAndDocString *)
Definition docless (g : cgraph) : Prop := forall n, In n (cg_nodes g) -> snd n = false.

Lemma existsb_fst_false (l : list (bool * bool)) :
  existsb fst l = false -> (forall n, In n l -> snd n = false) -> map (fun _ => (false, false)) l = l.
Proof.
  induction l as [|[a b] l IH]; simpl; intros He Hd; [reflexivity|].
  apply orb_false_iff in He. destruct He as [Ha Hl]. simpl in Ha. subst a.
  pose proof (Hd (false, b) (or_introl eq_refl)) as Hb. simpl in Hb. subst b.
  f_equal. apply IH; [exact Hl | intros n Hn; apply Hd; right; exact Hn].
Qed.

Lemma clear_graph_sound g : docless g -> snd (clear_graph_before_fix g) = false -> fst (clear_graph_before_fix g) = g.
Proof.
  destruct g as [gm gd ns]. unfold docless, clear_graph_before_fix. simpl.
  destruct ns as [|n ns]; [reflexivity|]. intros Hd Hf. simpl fst. simpl snd in Hf.
  apply orb_false_iff in Hf. destruct Hf as [He Hdirty]. rewrite Hdirty.
  f_equal. exact (existsb_fst_false (n :: ns) He Hd).
Qed.

Lemma clear_flag_sound_partial m :
  Forall docless m -> snd (clear_pass_before_fix m) = false -> fst (clear_pass_before_fix m) = m.
Proof.
  unfold clear_pass_before_fix. simpl. induction m as [|g m IH]; intros Hd Hf; [reflexivity|].
  simpl in Hf |- *. apply orb_false_iff in Hf. destruct Hf as [Hg Hm].
  inversion Hd; subst. f_equal; [apply clear_graph_sound; assumption | apply IH; assumption].
Qed.

Lemma clear_graph_idem g :
  fst (clear_graph_before_fix (fst (clear_graph_before_fix g))) = fst (clear_graph_before_fix g) /\ snd (clear_graph_before_fix (fst (clear_graph_before_fix g))) = false.
Proof.
  destruct g as [gm gd ns]. unfold clear_graph_before_fix at 2 4. simpl cg_nodes.
  destruct ns as [|n ns]; [simpl; split; reflexivity|].
  simpl fst. unfold clear_graph_before_fix. simpl cg_nodes. simpl map.
  assert (E : forall l : list (bool * bool), existsb fst (map (fun _ => (false, false)) l) = false)
    by (induction l; simpl; [reflexivity | assumption]).
  assert (M : forall l : list (bool * bool),
           map (fun _ : bool * bool => (false, false)) (map (fun _ => (false, false)) l) = map (fun _ => (false, false)) l)
    by (induction l; simpl; [reflexivity | f_equal; assumption]).
  simpl. rewrite E, M. destruct (gm || gd) eqn:D; simpl.
  - split; reflexivity.
  - apply orb_false_iff in D. destruct D; subst. simpl. split; reflexivity.
Qed.

Lemma clear_converges m :
  snd (clear_pass_before_fix (fst (clear_pass_before_fix m))) = false /\ fst (clear_pass_before_fix (fst (clear_pass_before_fix m))) = fst (clear_pass_before_fix m).
Proof.
  unfold clear_pass_before_fix. simpl. induction m as [|g m [IH1 IH2]]; [split; reflexivity|].
  simpl. destruct (clear_graph_idem g) as [H1 H2]. rewrite H2, IH1, H1, IH2. split; reflexivity.
Qed.

Definition w_clear : list cgraph := [ {| cg_meta := false; cg_doc := false; cg_nodes := [(false, true)] |} ].

Lemma clear_flag_refuted_witness : snd (clear_pass_before_fix w_clear) = false /\ fst (clear_pass_before_fix w_clear) <> w_clear.
Proof. split; [reflexivity | vm_compute; intros H; discriminate]. Qed.

(* repaired flag: full statement *)
Lemma clear_graph_fixed_sound g : snd (clear_graph g) = false -> fst (clear_graph g) = g.
Proof.
  destruct g as [gm gd ns]. unfold clear_graph, clear_graph_before_fix. simpl.
  destruct ns as [|n ns]; [reflexivity|]. intros Hf.
  apply orb_false_iff in Hf. destruct Hf as [Hf Hd]. apply orb_false_iff in Hf. destruct Hf as [He Hm].
  simpl in Hm, Hd. subst gm gd. simpl. f_equal.
  assert (K : forall l : list (bool * bool), existsb (fun n => fst n || snd n) l = false ->
              map (fun _ => (false, false)) l = l).
  { induction l as [|[a b] l IH]; simpl; intros H; [reflexivity|].
    apply orb_false_iff in H. destruct H as [H1 H2]. apply orb_false_iff in H1. destruct H1; subst.
    f_equal. apply IH. exact H2. }
  exact (K (n :: ns) He).
Qed.

Lemma clear_fixed_flag_sound m : snd (clear_pass m) = false -> fst (clear_pass m) = m.
Proof.
  unfold clear_pass. simpl. induction m as [|g m IH]; intros Hf; [reflexivity|].
  simpl in Hf |- *. apply orb_false_iff in Hf. destruct Hf as [Hg Hm].
  f_equal; [apply clear_graph_fixed_sound; assumption | apply IH; assumption].
Qed.

(* ====================================================================== RemoveUnusedNodes (flat) *)
Lemma drop_nones_idem l : drop_nones (drop_nones l) = drop_nones l.
Proof. induction l as [|[x|] l IH]; simpl; [reflexivity | reflexivity | exact IH]. Qed.

Lemma trim_idem l : trim (trim l) = trim l.
Proof. unfold trim. rewrite rev_involutive, drop_nones_idem. reflexivity. Qed.

Definition trimmed (n : dnode) : Prop := trim (d_ins n) = d_ins n.
Definition dce_inv (g : dgraph) : Prop := Forall trimmed (d_nodes g).

Lemma sweep_spec outs : forall l before l' c,
  sweep_before_fix outs before l = (l', c) ->
  length l' + c = length l /\ Forall trimmed l' /\ (c = 0 -> l' = map trim_node l).
Proof.
  induction l as [|n rest IH]; simpl; intros before l' c H.
  - inversion H; subst. split; [reflexivity|]. split; [constructor | reflexivity].
  - destruct (sweep_before_fix outs (before ++ [n]) rest) as [rest' c'] eqn:E.
    destruct (IH _ _ _ E) as [Hlen [Htr Hz]].
    destruct (forallb _ (d_outs n)); inversion H; subst.
    + split; [lia|]. split; [exact Htr | intros Hc; discriminate].
    + split; [simpl; lia|]. split.
      * constructor; [unfold trimmed; simpl; apply trim_idem | exact Htr].
      * intros Hc. rewrite (Hz Hc). reflexivity.
Qed.

Lemma map_trim_id l : Forall trimmed l -> map trim_node l = l.
Proof.
  induction l as [|n l IH]; intros H; [reflexivity|]. inversion H; subst. simpl. f_equal; [|apply IH; assumption].
  destruct n as [i ins outs]. unfold trim_node, trimmed in *. simpl in *. f_equal. assumption.
Qed.

Lemma dce_inv_est g : dce_inv (fst (dce_before_fix g)).
Proof.
  unfold dce_before_fix. destruct (sweep_before_fix (d_outputs g) [] (d_nodes g)) as [ns c] eqn:E. simpl.
  apply sweep_spec in E. unfold dce_inv. simpl. tauto.
Qed.

Lemma dce_size_mono g : dce_size (fst (dce_before_fix g)) <= dce_size g.
Proof.
  unfold dce_before_fix, dce_size. destruct (sweep_before_fix (d_outputs g) [] (d_nodes g)) as [ns c] eqn:E. simpl.
  apply sweep_spec in E. destruct E as [Hlen _].
  match goal with |- context [filter ?p (d_inits g)] => pose proof (filter_length_le p (d_inits g)) end. lia.
Qed.

Lemma dce_measure g : snd (dce_before_fix g) = true -> dce_size (fst (dce_before_fix g)) < dce_size g.
Proof.
  unfold dce_before_fix, dce_size. destruct (sweep_before_fix (d_outputs g) [] (d_nodes g)) as [ns c] eqn:E. simpl.
  apply sweep_spec in E. destruct E as [Hlen _]. intros H. apply negb_true_iff in H. apply Nat.eqb_neq in H.
  match goal with |- context [filter ?p (d_inits g)] => pose proof (filter_length_le p (d_inits g)) end. lia.
Qed.

Lemma dce_flag_sound_partial g : dce_inv g -> snd (dce_before_fix g) = false -> fst (dce_before_fix g) = g.
Proof.
  unfold dce_before_fix, dce_inv. destruct (sweep_before_fix (d_outputs g) [] (d_nodes g)) as [ns c] eqn:E. simpl.
  apply sweep_spec in E. destruct E as [Hlen [_ Hz]]. intros Hinv H.
  apply negb_false_iff in H. apply Nat.eqb_eq in H.
  assert (Hc : c = 0) by lia. specialize (Hz Hc). rewrite map_trim_id in Hz by assumption. subst ns.
  match goal with |- context [filter ?p (d_inits g)] =>
    assert (F : filter p (d_inits g) = d_inits g) by (apply filter_length_id; lia) end.
  rewrite F. destruct g; reflexivity.
Qed.

Lemma dce_converges g :
  exists k, k <= dce_size g + 1 /\ snd (dce_before_fix (iterE dgraph dce_before_fix k g)) = false
            /\ fst (dce_before_fix (iterE dgraph dce_before_fix k g)) = iterE dgraph dce_before_fix k g.
Proof.
  apply (converge_fixpoint dgraph dce_before_fix dce_size dce_measure dce_inv dce_inv_est dce_size_mono dce_flag_sound_partial).
Qed.

(* repaired count: full statement *)
Lemma ins_eqb_eq a b : ins_eqb a b = true -> a = b.
Proof.
  unfold ins_eqb. apply list_eqb_eq. intros [x|] [y|]; simpl; split; intros H; try discriminate; try reflexivity.
  - apply Pos.eqb_eq in H. subst. reflexivity.
  - inversion H. apply Pos.eqb_refl.
Qed.

Lemma sweep_fixed_zero outs : forall l before l' c, sweep outs before l = (l', c) -> c = 0 -> l' = l.
Proof.
  induction l as [|n rest IH]; simpl; intros before l' c H Hc.
  - inversion H; reflexivity.
  - destruct (sweep outs (before ++ [n]) rest) as [rest' c'] eqn:E.
    destruct (forallb _ (d_outs n)); inversion H; subst; [discriminate|].
    destruct (ins_eqb (trim (d_ins n)) (d_ins n)) eqn:T; [|discriminate].
    apply ins_eqb_eq in T. rewrite (IH _ _ _ E H2).
    destruct n as [i ins os]. unfold trim_node. simpl in *. rewrite T. reflexivity.
Qed.

Lemma dce_fixed_flag_sound g : snd (dce g) = false -> fst (dce g) = g.
Proof.
  unfold dce. destruct (sweep (d_outputs g) [] (d_nodes g)) as [ns c] eqn:E. simpl. intros H.
  apply negb_false_iff in H. apply Nat.eqb_eq in H.
  assert (Hc : c = 0) by lia. rewrite (sweep_fixed_zero _ _ _ _ _ E Hc) in *.
  match goal with |- context [filter ?p (d_inits g)] =>
    assert (F : filter p (d_inits g) = d_inits g) by (apply filter_length_id; lia) end.
  rewrite F. destruct g; reflexivity.
Qed.

(* Clip(x, None, None) feeding the graph output: kept, trimmed, count = 0 *)
Definition w_dce : dgraph :=
  {| d_nodes := [ {| d_id := 1; d_ins := [Some 10; None; None]; d_outs := [11] |} ]%positive;
     d_outputs := [11%positive]; d_inputs := [10%positive]; d_inits := [] |}.

Lemma dce_flag_refuted_witness : snd (dce_before_fix w_dce) = false /\ fst (dce_before_fix w_dce) <> w_dce.
Proof. split; [vm_compute; reflexivity | vm_compute; intros H; discriminate]. Qed.

(* ====================================================================== TopologicalSort flag *)
Lemma first_diff_refl l : first_diff l l = false.
Proof. induction l as [|x l IH]; simpl; [reflexivity | rewrite Pos.eqb_refl; exact IH]. Qed.

Lemma first_diff_false_eq : forall a b, length a = length b -> first_diff a b = false -> a = b.
Proof.
  induction a as [|x a IH]; intros [|y b] Hl Hf; simpl in *; try reflexivity; try discriminate.
  destruct (Pos.eqb x y) eqn:E; [|discriminate]. apply Pos.eqb_eq in E. subst. f_equal. apply IH; [lia | exact Hf].
Qed.

Lemma app_eq_len {A} : forall (a c b d : list A), length a = length c -> a ++ b = c ++ d -> a = c /\ b = d.
Proof.
  induction a as [|x a IH]; intros [|y c] b d Hl H; simpl in *; try discriminate.
  - split; [reflexivity | exact H].
  - inversion H as [[Hx Hrest]]. subst y. destruct (IH c b d) as [Ha Hb]; [lia | exact Hrest |]. subst. split; reflexivity.
Qed.

Section TopoProofs.
  Variable sort : list positive -> list positive.
  Hypothesis sort_length : forall l, length (sort l) = length l.

  Lemma concat_sort_eq : forall fs, concat fs = concat (map sort fs) -> fs = map sort fs.
  Proof.
    induction fs as [|f fs IH]; simpl; intros H; [reflexivity|].
    apply app_eq_len in H; [|symmetry; apply sort_length]. destruct H as [H1 H2].
    f_equal; [exact H1 | apply IH; exact H2].
  Qed.

  Lemma concat_sort_length : forall fs, length (concat (map sort fs)) = length (concat fs).
  Proof. induction fs as [|f fs IH]; simpl; [reflexivity|]. rewrite !app_length, sort_length, IH. reflexivity. Qed.

  (* PARTIAL: sound when the model has no subgraphs *)
  Lemma topo_flag_sound_partial m :
    t_subs m = [] -> snd (topo_pass_before_fix sort m) = false -> fst (topo_pass_before_fix sort m) = m.
  Proof.
    destruct m as [mn fs ss]. unfold topo_pass_before_fix. simpl. intros Hs Hf. subst ss.
    apply first_diff_false_eq in Hf.
    - apply app_eq_len in Hf; [|symmetry; apply sort_length]. destruct Hf as [H1 H2].
      apply concat_sort_eq in H2. simpl. rewrite <- H1, <- H2. reflexivity.
    - rewrite !app_length, sort_length, concat_sort_length. reflexivity.
  Qed.

  Hypothesis sort_idem : forall l, sort (sort l) = sort l.

  Lemma topo_converges m :
    snd (topo_pass_before_fix sort (fst (topo_pass_before_fix sort m))) = false
    /\ fst (topo_pass_before_fix sort (fst (topo_pass_before_fix sort m))) = fst (topo_pass_before_fix sort m).
  Proof.
    destruct m as [mn fs ss]. unfold topo_pass_before_fix. simpl.
    assert (M : forall l, map sort (map sort l) = map sort l)
      by (induction l; simpl; [reflexivity | rewrite sort_idem; f_equal; assumption]).
    rewrite sort_idem, !M. split; [apply first_diff_refl | reflexivity].
  Qed.
End TopoProofs.

(* repaired flag: full statement, for every sort *)
Lemma topo_fixed_flag_sound sort m : snd (topo_pass sort m) = false -> fst (topo_pass sort m) = m.
Proof.
  unfold topo_pass. simpl. intros H. apply negb_false_iff in H.
  unfold tmodel_eqb, lists_eqb in H. simpl in H.
  apply andb_prop in H. destruct H as [H H3]. apply andb_prop in H. destruct H as [H1 H2].
  assert (LE : forall a b, list_eqb Pos.eqb a b = true <-> a = b) by (apply list_eqb_eq; apply Pos.eqb_eq).
  apply LE in H1. apply (list_eqb_eq _ LE) in H2. apply (list_eqb_eq _ LE) in H3.
  destruct m as [mn fs ss]. simpl in *. rewrite <- H1, <- H2, <- H3. reflexivity.
Qed.

(* a subgraph [2;1] that sort puts in order, nothing at top level *)
Definition w_sort (l : list positive) : list positive :=
  if list_eqb Pos.eqb l [2; 1]%positive then [1; 2]%positive else l.
Definition w_topo : tmodel := {| t_main := [5%positive]; t_funcs := []; t_subs := [[2; 1]%positive] |}.

Lemma topo_flag_refuted_witness :
  (forall l, length (w_sort l) = length l) /\ (forall l, w_sort (w_sort l) = w_sort l)
  /\ snd (topo_pass_before_fix w_sort w_topo) = false /\ fst (topo_pass_before_fix w_sort w_topo) <> w_topo.
Proof.
  assert (C : forall l, list_eqb Pos.eqb l [2; 1]%positive = true -> l = [2; 1]%positive).
  { intros l H. apply (list_eqb_eq Pos.eqb Pos.eqb_eq) in H. exact H. }
  split; [|split; [|split]].
  - intros l. unfold w_sort. destruct (list_eqb Pos.eqb l [2; 1]%positive) eqn:E; [|reflexivity].
    apply C in E. subst. reflexivity.
  - intros l. unfold w_sort at 2 3. destruct (list_eqb Pos.eqb l [2; 1]%positive) eqn:E; [reflexivity|].
    unfold w_sort. rewrite E. reflexivity.
  - reflexivity.
  - vm_compute. intros H. discriminate.
Qed.

(* ====================================================================== Add/RemoveInitializers(To/From)Inputs *)
Lemma fold_add_zero : forall l a, fold_left Nat.add l a = 0 -> a = 0 /\ Forall (fun x => x = 0) l.
Proof.
  induction l as [|x l IH]; simpl; intros a H; [split; [exact H | constructor]|].
  apply IH in H. destruct H as [H1 H2]. split; [lia|]. constructor; [lia | exact H2].
Qed.

Lemma io_flag_sound step m :
  (forall g, snd (step g) = 0 -> fst (step g) = g) ->
  snd (io_pass step m) = false -> fst (io_pass step m) = m.
Proof.
  intros Hstep. unfold io_pass. simpl. intros H. apply negb_false_iff in H. apply Nat.eqb_eq in H.
  apply fold_add_zero in H. destruct H as [_ H].
  induction m as [|g m IH]; [reflexivity|]. simpl in *. inversion H; subst.
  f_equal; [apply Hstep; assumption | apply IH; assumption].
Qed.

Lemma add_inits_sound g : snd (add_inits g) = 0 -> fst (add_inits g) = g.
Proof.
  destruct g as [ins inits]. unfold add_inits. simpl. intros H.
  apply length_zero_iff_nil in H. rewrite H, app_nil_r. reflexivity.
Qed.

Lemma rm_inits_sound g : snd (rm_inits g) = 0 -> fst (rm_inits g) = g.
Proof.
  destruct g as [ins inits]. unfold rm_inits. simpl. intros H.
  rewrite filter_length_id; [reflexivity | lia].
Qed.

Lemma add_inits_idem g : snd (add_inits (fst (add_inits g))) = 0.
Proof.
  destruct g as [ins inits]. unfold add_inits. simpl.
  rewrite filter_none_nil; [reflexivity|]. intros v Hv.
  rewrite pmem_app, pmem_filter. apply pmem_In in Hv. rewrite Hv. simpl.
  destruct (pmem v ins); reflexivity.
Qed.

Lemma rm_inits_idem g : snd (rm_inits (fst (rm_inits g))) = 0.
Proof.
  destruct g as [ins inits]. unfold rm_inits. simpl.
  match goal with |- _ - length (filter ?p ?l) = 0 => rewrite (filter_all_id p l) end; [lia|].
  intros v Hv. apply filter_In in Hv. tauto.
Qed.

Lemma io_converges step m :
  (forall g, snd (step g) = 0 -> fst (step g) = g) -> (forall g, snd (step (fst (step g))) = 0) ->
  snd (io_pass step (fst (io_pass step m))) = false
  /\ fst (io_pass step (fst (io_pass step m))) = fst (io_pass step m).
Proof.
  intros Hs Hi.
  assert (F : snd (io_pass step (fst (io_pass step m))) = false).
  { unfold io_pass. simpl. apply negb_false_iff. apply Nat.eqb_eq.
    rewrite map_map. induction m as [|g m IH]; [reflexivity|]. simpl. rewrite Hi. simpl. exact IH. }
  split; [exact F | apply io_flag_sound; assumption].
Qed.

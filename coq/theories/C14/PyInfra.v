(* C14/PyInfra.v — a small statement language for the bodies of PassBase.__call__, Sequential.call,
   PassManager.call and _FunctionalPassWrapper.call, with its interpreter (definitions only).
   harness/props/c14.py transcribes the Python AST of those four methods into `stmt` terms on every run
   (Gen/C14InfraGen.v, fail closed: any construct outside this language is a broken obligation);
   C14/ProofsPyInfra.v proves the interpretation of the transcribed bodies equal to the hand model
   (Model.wrap / seq_loop / mgr_loop / the functionalize body). *)
From Coq Require Import ZArith List Bool Arith PeanoNat.
From IRV Require Import Base.Exn Gen.C14Gen C14.Model.
Import ListNotations.
Local Open Scope nat_scope.

Section Py.
  Variable St : Type.
  Notation world := (world St).

  (* Python values that occur in these methods *)
  Inductive pyval : Type :=
  | VNone | VBool (b : bool) | VModel (m : nat) | VResult (m : nat) (f : bool) | VOther | VPass (i : nat).

  Inductive expr : Type :=
  | EVar (x : nat) | EConst (b : bool)
  | ESelfInPlace | ESelfEarlyStop
  | EModel (e : expr) | EModified (e : expr)              (* e.model, e.modified *)
  | EIsResult (e : expr)                                  (* isinstance(e, PassResult) *)
  | ENot (e : expr) | EAnd (a b : expr) | EOr (a b : expr) | EIs (a b : expr) | EIsNot (a b : expr)
  | EResult (m f : expr).                                 (* PassResult(m, f) *)

  Inductive hook : Type :=
  | HRequires | HCall | HEnsures      (* self.requires(x) / self.call(x) / self.ensures(x) *)
  | HPass (x : nat)                   (* <variable holding a pass>(arg) *)
  | HSuper                            (* super().call(x) *)
  | HInnerClone.                      (* self._inner_pass(x.clone()) *)

  Inductive stmt : Type :=
  | SSkip | SSeq (a b : stmt)
  | SAssign (x : nat) (e : expr)
  | SHook (x : option nat) (h : hook) (arg : expr)
  | SIf (c : expr) (t f : stmt)
  | STry (body : stmt) (handlers : stmt)
  | SHandler (pat : option xn) (body : stmt) (rest : stmt)   (* except <pat>: body ; None = `except Exception` *)
  | SNoHandler
  | SRaise (cls : xn) | SReraise
  | SReturn (e : expr)
  | SForPasses (i x : nat) (body : stmt)                     (* for i, x in enumerate(self.passes) *)
  | SForSteps (x : nat) (body : stmt)                        (* for x in range(self.steps) *)
  | SBreak.

  Definition pfun : Type := world -> nat -> world * xres (nat * bool).

  Record self : Type := {
    s_in_place : bool; s_early : bool; s_steps : nat;
    s_requires : world -> nat -> world * xres unit;
    s_ensures : world -> nat -> world * xres unit;
    s_call : world -> nat -> world * xres pyval;
    s_passes : list pfun;            (* the __call__ of each member of self.passes *)
    s_super : pfun;                  (* Sequential.call of the same object *)
    s_inner : pfun }.                (* the __call__ of self._inner_pass *)

  Definition env : Type := nat -> pyval.
  Definition upd (e : env) (x : nat) (v : pyval) : env := fun k => if Nat.eqb k x then v else e k.

  Inductive ctl : Type := CNormal | CReturn (v : pyval) | CBreak | CRaise (e : xn).

  Definition truthy (v : pyval) : option bool := match v with VBool b => Some b | _ => None end.
  Definition model_of (v : pyval) : option nat := match v with VModel m => Some m | _ => None end.

  Section Eval.
    Variable sf : self.

    Fixpoint eval (e : expr) (en : env) : option pyval :=
      match e with
      | EVar x => Some (en x)
      | EConst b => Some (VBool b)
      | ESelfInPlace => Some (VBool (s_in_place sf))
      | ESelfEarlyStop => Some (VBool (s_early sf))
      | EModel a => match eval a en with Some (VResult m _) => Some (VModel m) | _ => None end
      | EModified a => match eval a en with Some (VResult _ f) => Some (VBool f) | _ => None end
      | EIsResult a => match eval a en with Some (VResult _ _) => Some (VBool true) | Some _ => Some (VBool false) | None => None end
      | ENot a => match eval a en with Some (VBool b) => Some (VBool (negb b)) | _ => None end
      (* `a and b`, `a or b` on booleans (short circuit: b is not evaluated when a decides) *)
      | EAnd a b => match eval a en with
                    | Some (VBool false) => Some (VBool false)
                    | Some (VBool true) => match eval b en with Some (VBool y) => Some (VBool y) | _ => None end
                    | _ => None end
      | EOr a b => match eval a en with
                   | Some (VBool true) => Some (VBool true)
                   | Some (VBool false) => match eval b en with Some (VBool y) => Some (VBool y) | _ => None end
                   | _ => None end
      | EIs a b => match eval a en, eval b en with
                   | Some (VModel x), Some (VModel y) => Some (VBool (Nat.eqb x y)) | _, _ => None end
      | EIsNot a b => match eval a en, eval b en with
                      | Some (VModel x), Some (VModel y) => Some (VBool (negb (Nat.eqb x y))) | _, _ => None end
      | EResult m f => match eval m en, eval f en with
                       | Some (VModel x), Some (VBool y) => Some (VResult x y) | _, _ => None end
      end.

    Definition lift_res (r : world * xres (nat * bool)) : world * xres pyval :=
      match r with (w, XOk (m, f)) => (w, XOk (VResult m f)) | (w, XRaise e) => (w, XRaise e) end.
    Definition lift_unit (r : world * xres unit) : world * xres pyval :=
      match r with (w, XOk _) => (w, XOk VNone) | (w, XRaise e) => (w, XRaise e) end.

    (* a pass object called with a Model or with a PassResult (its __call__ reads only `.model`: proved for
       PassBase.__call__ itself in ProofsPyInfra.passbase_call_equiv) *)
    Definition call_pass (p : pfun) (w : world) (arg : pyval) : world * xres pyval :=
      match arg with
      | VModel m | VResult m _ => lift_res (p w m)
      | _ => (w, XRaise XUser)
      end.

    Definition run_hook (h : hook) (en : env) (w : world) (arg : pyval) : world * xres pyval :=
      match h with
      | HRequires => match arg with VModel m => lift_unit (s_requires sf w m) | _ => (w, XRaise XUser) end
      | HEnsures => match arg with VModel m => lift_unit (s_ensures sf w m) | _ => (w, XRaise XUser) end
      | HCall => match arg with VModel m => s_call sf w m | _ => (w, XRaise XUser) end
      | HSuper => match arg with VModel m => lift_res (s_super sf w m) | _ => (w, XRaise XUser) end
      | HInnerClone => match arg with
                       | VModel m => let '(w1, c) := wclone St w m in lift_res (s_inner sf w1 c)
                       | _ => (w, XRaise XUser) end
      | HPass x => match en x with
                   | VPass i => match nth_error (s_passes sf) i with
                                | Some p => call_pass p w arg
                                | None => (w, XRaise XUser) end
                   | _ => (w, XRaise XUser) end
      end.

    Definition xn_matches (pat : option xn) (e : xn) : bool :=
      match pat with None => true | Some p => xn_eqb p e end.

    (* loop drivers over a body runner rb *)
    Fixpoint for_passes (rb : env -> world -> env * world * ctl) (i x : nat)
             (ps : list pfun) (k : nat) (en : env) (w : world) : env * world * ctl :=
      match ps with
      | [] => (en, w, CNormal)
      | _ :: r =>
          match rb (upd (upd en i VNone) x (VPass k)) w with
          | (en1, w1, CNormal) => for_passes rb i x r (S k) en1 w1
          | (en1, w1, CBreak) => (en1, w1, CNormal)
          | res => res
          end
      end.

    Fixpoint for_steps (rb : env -> world -> env * world * ctl) (x : nat)
             (n : nat) (en : env) (w : world) : env * world * ctl :=
      match n with
      | O => (en, w, CNormal)
      | S n' =>
          match rb (upd en x VNone) w with
          | (en1, w1, CNormal) => for_steps rb x n' en1 w1
          | (en1, w1, CBreak) => (en1, w1, CNormal)
          | res => res
          end
      end.

    (* state: environment, heap, the exception being handled (for a bare `raise`) *)
    Fixpoint run (s : stmt) (en : env) (w : world) (cur : option xn) {struct s} : env * world * ctl :=
      match s with
      | SSkip | SNoHandler => (en, w, CNormal)
      | SSeq a b =>
          match run a en w cur with
          | (en1, w1, CNormal) => run b en1 w1 cur
          | r => r
          end
      | SAssign x e =>
          match eval e en with Some v => (upd en x v, w, CNormal) | None => (en, w, CRaise XUser) end
      | SHook x h arg =>
          match eval arg en with
          | None => (en, w, CRaise XUser)
          | Some a =>
              match run_hook h en w a with
              | (w1, XOk v) => (match x with Some y => upd en y v | None => en end, w1, CNormal)
              | (w1, XRaise e) => (en, w1, CRaise e)
              end
          end
      | SIf c t f =>
          match eval c en with
          | Some (VBool true) => run t en w cur
          | Some (VBool false) => run f en w cur
          | _ => (en, w, CRaise XUser)
          end
      | STry body handlers =>
          match run body en w cur with
          | (en1, w1, CRaise e) =>
              (fix dispatch (h : stmt) : env * world * ctl :=
                 match h with
                 | SHandler pat hb rest => if xn_matches pat e then run hb en1 w1 (Some e) else dispatch rest
                 | _ => (en1, w1, CRaise e)
                 end) handlers
          | r => r
          end
      | SHandler _ _ _ => (en, w, CNormal)
      | SRaise cls => (en, w, CRaise cls)
      | SReraise => (en, w, CRaise (match cur with Some e => e | None => XUser end))
      | SReturn e => match eval e en with Some v => (en, w, CReturn v) | None => (en, w, CRaise XUser) end
      | SBreak => (en, w, CBreak)
      | SForPasses i x body => for_passes (fun en w => run body en w cur) i x (s_passes sf) 0 en w
      | SForSteps x body => for_steps (fun en w => run body en w cur) x (s_steps sf) en w
      end.

    (* a method body applied to its argument (parameter 0); falling off the end returns None *)
    Definition run_method (body : stmt) (w : world) (arg : pyval) : world * xres pyval :=
      match run body (upd (fun _ => VNone) 0 arg) w None with
      | (_, w1, CReturn v) => (w1, XOk v)
      | (_, w1, CRaise e) => (w1, XRaise e)
      | (_, w1, _) => (w1, XOk VNone)
      end.
  End Eval.
End Py.


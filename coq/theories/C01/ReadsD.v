(* C01/ReadsD.v — GENERATED ONCE by a script (kept under version control): what every getter of ow_st
   returns after every primitive setter.  Collected in the rewrite database `rd`. *)
From Coq Require Import ZArith List Bool Arith Lia.
From IRV Require Import Base.Exn C01.Model C01.Store.
Import ListNotations.

Definition kind_eqb (a b : kind) : bool := match a, b with KIn, KIn | KOut, KOut => true | _, _ => false end.

Lemma rd_vname_set_vname : forall s v a  y, vname (set_vname s v a) y = if v =? y then a else vname s y.
Proof. intros. unfold vname, vgraph, vinit, flag, iol, rc, inits, set_vname; simpl; rewrite ?sget_sset; reflexivity. Qed.

Lemma rd_vgraph_set_vname : forall s v a  y, vgraph (set_vname s v a) y = vgraph s y.
Proof. intros. unfold vname, vgraph, vinit, flag, iol, rc, inits, set_vname; simpl; rewrite ?sget_sset; reflexivity. Qed.

Lemma rd_vinit_set_vname : forall s v a  y, vinit (set_vname s v a) y = vinit s y.
Proof. intros. unfold vname, vgraph, vinit, flag, iol, rc, inits, set_vname; simpl; rewrite ?sget_sset; reflexivity. Qed.

Lemma rd_flag_set_vname : forall s v a k' y, flag k' (set_vname s v a) y = flag k' s y.
Proof. intros. destruct k'; unfold vname, vgraph, vinit, flag, iol, rc, inits, set_vname; simpl; rewrite ?sget_sset; reflexivity. Qed.

Lemma rd_iol_set_vname : forall s v a k' g', iol k' (set_vname s v a) g' = iol k' s g'.
Proof. intros. destruct k'; unfold vname, vgraph, vinit, flag, iol, rc, inits, set_vname; simpl; rewrite ?sget_sset; reflexivity. Qed.

Lemma rd_rc_set_vname : forall s v a k' g' y, rc k' (set_vname s v a) g' y = rc k' s g' y.
Proof. intros. destruct k'; unfold vname, vgraph, vinit, flag, iol, rc, inits, set_vname; simpl; rewrite ?sget_sset; reflexivity. Qed.

Lemma rd_inits_set_vname : forall s v a  g', inits (set_vname s v a) g' = inits s g'.
Proof. intros. unfold vname, vgraph, vinit, flag, iol, rc, inits, set_vname; simpl; rewrite ?sget_sset; reflexivity. Qed.

Lemma rd_vname_set_vgraph : forall s v a  y, vname (set_vgraph s v a) y = vname s y.
Proof. intros. unfold vname, vgraph, vinit, flag, iol, rc, inits, set_vgraph; simpl; rewrite ?sget_sset; reflexivity. Qed.

Lemma rd_vgraph_set_vgraph : forall s v a  y, vgraph (set_vgraph s v a) y = if v =? y then a else vgraph s y.
Proof. intros. unfold vname, vgraph, vinit, flag, iol, rc, inits, set_vgraph; simpl; rewrite ?sget_sset; reflexivity. Qed.

Lemma rd_vinit_set_vgraph : forall s v a  y, vinit (set_vgraph s v a) y = vinit s y.
Proof. intros. unfold vname, vgraph, vinit, flag, iol, rc, inits, set_vgraph; simpl; rewrite ?sget_sset; reflexivity. Qed.

Lemma rd_flag_set_vgraph : forall s v a k' y, flag k' (set_vgraph s v a) y = flag k' s y.
Proof. intros. destruct k'; unfold vname, vgraph, vinit, flag, iol, rc, inits, set_vgraph; simpl; rewrite ?sget_sset; reflexivity. Qed.

Lemma rd_iol_set_vgraph : forall s v a k' g', iol k' (set_vgraph s v a) g' = iol k' s g'.
Proof. intros. destruct k'; unfold vname, vgraph, vinit, flag, iol, rc, inits, set_vgraph; simpl; rewrite ?sget_sset; reflexivity. Qed.

Lemma rd_rc_set_vgraph : forall s v a k' g' y, rc k' (set_vgraph s v a) g' y = rc k' s g' y.
Proof. intros. destruct k'; unfold vname, vgraph, vinit, flag, iol, rc, inits, set_vgraph; simpl; rewrite ?sget_sset; reflexivity. Qed.

Lemma rd_inits_set_vgraph : forall s v a  g', inits (set_vgraph s v a) g' = inits s g'.
Proof. intros. unfold vname, vgraph, vinit, flag, iol, rc, inits, set_vgraph; simpl; rewrite ?sget_sset; reflexivity. Qed.

Lemma rd_vname_set_vinit : forall s v a  y, vname (set_vinit s v a) y = vname s y.
Proof. intros. unfold vname, vgraph, vinit, flag, iol, rc, inits, set_vinit; simpl; rewrite ?sget_sset; reflexivity. Qed.

Lemma rd_vgraph_set_vinit : forall s v a  y, vgraph (set_vinit s v a) y = vgraph s y.
Proof. intros. unfold vname, vgraph, vinit, flag, iol, rc, inits, set_vinit; simpl; rewrite ?sget_sset; reflexivity. Qed.

Lemma rd_vinit_set_vinit : forall s v a  y, vinit (set_vinit s v a) y = if v =? y then a else vinit s y.
Proof. intros. unfold vname, vgraph, vinit, flag, iol, rc, inits, set_vinit; simpl; rewrite ?sget_sset; reflexivity. Qed.

Lemma rd_flag_set_vinit : forall s v a k' y, flag k' (set_vinit s v a) y = flag k' s y.
Proof. intros. destruct k'; unfold vname, vgraph, vinit, flag, iol, rc, inits, set_vinit; simpl; rewrite ?sget_sset; reflexivity. Qed.

Lemma rd_iol_set_vinit : forall s v a k' g', iol k' (set_vinit s v a) g' = iol k' s g'.
Proof. intros. destruct k'; unfold vname, vgraph, vinit, flag, iol, rc, inits, set_vinit; simpl; rewrite ?sget_sset; reflexivity. Qed.

Lemma rd_rc_set_vinit : forall s v a k' g' y, rc k' (set_vinit s v a) g' y = rc k' s g' y.
Proof. intros. destruct k'; unfold vname, vgraph, vinit, flag, iol, rc, inits, set_vinit; simpl; rewrite ?sget_sset; reflexivity. Qed.

Lemma rd_inits_set_vinit : forall s v a  g', inits (set_vinit s v a) g' = inits s g'.
Proof. intros. unfold vname, vgraph, vinit, flag, iol, rc, inits, set_vinit; simpl; rewrite ?sget_sset; reflexivity. Qed.

Lemma rd_vname_set_flag : forall s k v a  y, vname (set_flag k s v a) y = vname s y.
Proof. intros. destruct k; unfold vname, vgraph, vinit, flag, iol, rc, inits, set_flag; simpl; rewrite ?sget_sset; reflexivity. Qed.

Lemma rd_vgraph_set_flag : forall s k v a  y, vgraph (set_flag k s v a) y = vgraph s y.
Proof. intros. destruct k; unfold vname, vgraph, vinit, flag, iol, rc, inits, set_flag; simpl; rewrite ?sget_sset; reflexivity. Qed.

Lemma rd_vinit_set_flag : forall s k v a  y, vinit (set_flag k s v a) y = vinit s y.
Proof. intros. destruct k; unfold vname, vgraph, vinit, flag, iol, rc, inits, set_flag; simpl; rewrite ?sget_sset; reflexivity. Qed.

Lemma rd_flag_set_flag : forall s k v a k' y, flag k' (set_flag k s v a) y = if kind_eqb k k' && (v =? y) then a else flag k' s y.
Proof. intros. destruct k; destruct k'; unfold vname, vgraph, vinit, flag, iol, rc, inits, set_flag; simpl; rewrite ?sget_sset; reflexivity. Qed.

Lemma rd_iol_set_flag : forall s k v a k' g', iol k' (set_flag k s v a) g' = iol k' s g'.
Proof. intros. destruct k; destruct k'; unfold vname, vgraph, vinit, flag, iol, rc, inits, set_flag; simpl; rewrite ?sget_sset; reflexivity. Qed.

Lemma rd_rc_set_flag : forall s k v a k' g' y, rc k' (set_flag k s v a) g' y = rc k' s g' y.
Proof. intros. destruct k; destruct k'; unfold vname, vgraph, vinit, flag, iol, rc, inits, set_flag; simpl; rewrite ?sget_sset; reflexivity. Qed.

Lemma rd_inits_set_flag : forall s k v a  g', inits (set_flag k s v a) g' = inits s g'.
Proof. intros. destruct k; unfold vname, vgraph, vinit, flag, iol, rc, inits, set_flag; simpl; rewrite ?sget_sset; reflexivity. Qed.

Lemma rd_vname_set_iol : forall s k g l  y, vname (set_iol k s g l) y = vname s y.
Proof. intros. destruct k; unfold vname, vgraph, vinit, flag, iol, rc, inits, set_iol; simpl; rewrite ?sget_sset; reflexivity. Qed.

Lemma rd_vgraph_set_iol : forall s k g l  y, vgraph (set_iol k s g l) y = vgraph s y.
Proof. intros. destruct k; unfold vname, vgraph, vinit, flag, iol, rc, inits, set_iol; simpl; rewrite ?sget_sset; reflexivity. Qed.

Lemma rd_vinit_set_iol : forall s k g l  y, vinit (set_iol k s g l) y = vinit s y.
Proof. intros. destruct k; unfold vname, vgraph, vinit, flag, iol, rc, inits, set_iol; simpl; rewrite ?sget_sset; reflexivity. Qed.

Lemma rd_flag_set_iol : forall s k g l k' y, flag k' (set_iol k s g l) y = flag k' s y.
Proof. intros. destruct k; destruct k'; unfold vname, vgraph, vinit, flag, iol, rc, inits, set_iol; simpl; rewrite ?sget_sset; reflexivity. Qed.

Lemma rd_iol_set_iol : forall s k g l k' g', iol k' (set_iol k s g l) g' = if kind_eqb k k' && (g =? g') then l else iol k' s g'.
Proof. intros. destruct k; destruct k'; unfold vname, vgraph, vinit, flag, iol, rc, inits, set_iol; simpl; rewrite ?sget_sset; reflexivity. Qed.

Lemma rd_rc_set_iol : forall s k g l k' g' y, rc k' (set_iol k s g l) g' y = rc k' s g' y.
Proof. intros. destruct k; destruct k'; unfold vname, vgraph, vinit, flag, iol, rc, inits, set_iol; simpl; rewrite ?sget_sset; reflexivity. Qed.

Lemma rd_inits_set_iol : forall s k g l  g', inits (set_iol k s g l) g' = inits s g'.
Proof. intros. destruct k; unfold vname, vgraph, vinit, flag, iol, rc, inits, set_iol; simpl; rewrite ?sget_sset; reflexivity. Qed.

Lemma rd_vname_set_rc : forall s k g v z  y, vname (set_rc k s g v z) y = vname s y.
Proof. intros. destruct k; unfold vname, vgraph, vinit, flag, iol, rc, inits, set_rc; simpl; rewrite ?sget_sset; reflexivity. Qed.

Lemma rd_vgraph_set_rc : forall s k g v z  y, vgraph (set_rc k s g v z) y = vgraph s y.
Proof. intros. destruct k; unfold vname, vgraph, vinit, flag, iol, rc, inits, set_rc; simpl; rewrite ?sget_sset; reflexivity. Qed.

Lemma rd_vinit_set_rc : forall s k g v z  y, vinit (set_rc k s g v z) y = vinit s y.
Proof. intros. destruct k; unfold vname, vgraph, vinit, flag, iol, rc, inits, set_rc; simpl; rewrite ?sget_sset; reflexivity. Qed.

Lemma rd_flag_set_rc : forall s k g v z k' y, flag k' (set_rc k s g v z) y = flag k' s y.
Proof. intros. destruct k; destruct k'; unfold vname, vgraph, vinit, flag, iol, rc, inits, set_rc; simpl; rewrite ?sget_sset; reflexivity. Qed.

Lemma rd_iol_set_rc : forall s k g v z k' g', iol k' (set_rc k s g v z) g' = iol k' s g'.
Proof. intros. destruct k; destruct k'; unfold vname, vgraph, vinit, flag, iol, rc, inits, set_rc; simpl; rewrite ?sget_sset; reflexivity. Qed.

Lemma rd_rc_set_rc : forall s k g v z k' g' y, rc k' (set_rc k s g v z) g' y = if kind_eqb k k' && (g =? g') && (v =? y) then z else rc k' s g' y.
Proof. intros. destruct k; destruct k'; unfold rc, set_rc; simpl; try reflexivity; rewrite sget_sset; destruct (Nat.eqb_spec g g') as [<-|]; simpl; rewrite ?sget_sset; reflexivity. Qed.

Lemma rd_inits_set_rc : forall s k g v z  g', inits (set_rc k s g v z) g' = inits s g'.
Proof. intros. destruct k; unfold vname, vgraph, vinit, flag, iol, rc, inits, set_rc; simpl; rewrite ?sget_sset; reflexivity. Qed.

Lemma rd_vname_set_inits : forall s g l  y, vname (set_inits s g l) y = vname s y.
Proof. intros. unfold vname, vgraph, vinit, flag, iol, rc, inits, set_inits; simpl; rewrite ?sget_sset; reflexivity. Qed.

Lemma rd_vgraph_set_inits : forall s g l  y, vgraph (set_inits s g l) y = vgraph s y.
Proof. intros. unfold vname, vgraph, vinit, flag, iol, rc, inits, set_inits; simpl; rewrite ?sget_sset; reflexivity. Qed.

Lemma rd_vinit_set_inits : forall s g l  y, vinit (set_inits s g l) y = vinit s y.
Proof. intros. unfold vname, vgraph, vinit, flag, iol, rc, inits, set_inits; simpl; rewrite ?sget_sset; reflexivity. Qed.

Lemma rd_flag_set_inits : forall s g l k' y, flag k' (set_inits s g l) y = flag k' s y.
Proof. intros. destruct k'; unfold vname, vgraph, vinit, flag, iol, rc, inits, set_inits; simpl; rewrite ?sget_sset; reflexivity. Qed.

Lemma rd_iol_set_inits : forall s g l k' g', iol k' (set_inits s g l) g' = iol k' s g'.
Proof. intros. destruct k'; unfold vname, vgraph, vinit, flag, iol, rc, inits, set_inits; simpl; rewrite ?sget_sset; reflexivity. Qed.

Lemma rd_rc_set_inits : forall s g l k' g' y, rc k' (set_inits s g l) g' y = rc k' s g' y.
Proof. intros. destruct k'; unfold vname, vgraph, vinit, flag, iol, rc, inits, set_inits; simpl; rewrite ?sget_sset; reflexivity. Qed.

Lemma rd_inits_set_inits : forall s g l  g', inits (set_inits s g l) g' = if g =? g' then l else inits s g'.
Proof. intros. unfold vname, vgraph, vinit, flag, iol, rc, inits, set_inits; simpl; rewrite ?sget_sset; reflexivity. Qed.

#[global] Hint Rewrite rd_vname_set_vname rd_vgraph_set_vname rd_vinit_set_vname rd_flag_set_vname rd_iol_set_vname rd_rc_set_vname rd_inits_set_vname rd_vname_set_vgraph rd_vgraph_set_vgraph rd_vinit_set_vgraph rd_flag_set_vgraph rd_iol_set_vgraph rd_rc_set_vgraph rd_inits_set_vgraph rd_vname_set_vinit rd_vgraph_set_vinit rd_vinit_set_vinit rd_flag_set_vinit rd_iol_set_vinit rd_rc_set_vinit rd_inits_set_vinit rd_vname_set_flag rd_vgraph_set_flag rd_vinit_set_flag rd_flag_set_flag rd_iol_set_flag rd_rc_set_flag rd_inits_set_flag rd_vname_set_iol rd_vgraph_set_iol rd_vinit_set_iol rd_flag_set_iol rd_iol_set_iol rd_rc_set_iol rd_inits_set_iol rd_vname_set_rc rd_vgraph_set_rc rd_vinit_set_rc rd_flag_set_rc rd_iol_set_rc rd_rc_set_rc rd_inits_set_rc rd_vname_set_inits rd_vgraph_set_inits rd_vinit_set_inits rd_flag_set_inits rd_iol_set_inits rd_rc_set_inits rd_inits_set_inits : rd.

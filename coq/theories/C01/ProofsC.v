(* C01/ProofsC.v — I3: a node names a graph exactly when that graph's node sequence contains it, once.
   Proved for the repaired model (all_fixed); the current code breaks it at SGExtend / SGInsert / SGraphNew. *)
From Coq Require Import ZArith List Bool Arith Lia.
From IRV Require Import Base.Exn C01.Model C01.Store.
Import ListNotations.

Definition I3 (s : ng_st) : Prop :=
  (forall n g, ngraph s n = Some g <-> In n (gseq s g)) /\ (forall g, NoDup (gseq s g)).

Lemma ngraph_set_ngraph s n x m : ngraph (set_ngraph s n x) m = if n =? m then x else ngraph s m.
Proof. unfold ngraph, set_ngraph. simpl. apply sget_sset. Qed.
Lemma gseq_set_ngraph s n x g : gseq (set_ngraph s n x) g = gseq s g.
Proof. reflexivity. Qed.
Lemma ngraph_set_gseq s g l m : ngraph (set_gseq s g l) m = ngraph s m.
Proof. reflexivity. Qed.
Lemma gseq_set_gseq s g l g' : gseq (set_gseq s g l) g' = if g =? g' then l else gseq s g'.
Proof. unfold gseq, set_gseq. simpl. apply sget_sset. Qed.

(* ---- sequence-level facts about the DoublyLinkedSet operations *)
Lemma In_seq_remove n l x : In x (seq_remove n l) <-> In x l /\ x <> n.
Proof.
  unfold seq_remove. rewrite filter_In. rewrite negb_true_iff, Nat.eqb_neq. (intuition congruence).
Qed.
Lemma NoDup_seq_remove n l : NoDup l -> NoDup (seq_remove n l).
Proof. apply NoDup_filter. Qed.

Lemma In_ins_after p n l x : In p l -> (In x (ins_after p n l) <-> x = n \/ In x l).
Proof.
  induction l as [|y t IH]; simpl; [(intuition congruence)|]. intros Hp.
  destruct (Nat.eqb_spec y p) as [->|Hne]; simpl.
  - (intuition congruence).
  - destruct Hp as [Hp|Hp]; [congruence|]. rewrite (IH Hp). (intuition congruence).
Qed.
Lemma NoDup_ins_after p n l : In p l -> ~ In n l -> NoDup l -> NoDup (ins_after p n l).
Proof.
  induction l as [|y t IH]; simpl; [(intuition congruence)|]. intros Hp Hn Hnd. inversion Hnd; subst.
  destruct (Nat.eqb_spec y p) as [->|Hne].
  - constructor; [simpl; (intuition congruence)|]. constructor; (intuition congruence).
  - destruct Hp as [Hp|Hp]; [congruence|]. constructor.
    + rewrite (In_ins_after _ _ _ _ Hp). intros [->|H]; (intuition congruence).
    + apply IH; (intuition congruence).
Qed.

Definition valid_point (l : list nat) (p : option nat) : Prop := match p with Some q => In q l | None => True end.

Lemma seq_insert_after_spec l p n l' p' : NoDup l -> valid_point l p -> seq_insert_after l p n = (l', p') ->
  (forall x, In x l' <-> x = n \/ In x l) /\ NoDup l' /\ valid_point l' p'.
Proof.
  intros Hnd Hv. unfold seq_insert_after. destruct p as [q|].
  - destruct (Nat.eqb_spec q n) as [->|Hne]; intros [= <- <-].
    + simpl in Hv. repeat split; try assumption; [(intuition congruence) | intros [->|H]; assumption].
    + assert (Hq : In q (seq_remove n l)) by (apply In_seq_remove; split; assumption).
      repeat split.
      * rewrite (In_ins_after _ _ _ _ Hq), In_seq_remove. destruct (Nat.eq_dec x n); (intuition congruence).
      * rewrite (In_ins_after _ _ _ _ Hq), In_seq_remove. destruct (Nat.eq_dec x n); (intuition congruence).
      * apply NoDup_ins_after; [assumption | rewrite In_seq_remove; (intuition congruence) | apply NoDup_seq_remove; assumption].
      * simpl. apply (In_ins_after _ _ _ _ Hq). left. reflexivity.
  - intros [= <- <-]. repeat split.
    + simpl. rewrite In_seq_remove. destruct (Nat.eq_dec x n); intuition congruence.
    + simpl. rewrite In_seq_remove. destruct (Nat.eq_dec x n); intuition congruence.
    + constructor; [rewrite In_seq_remove; (intuition congruence) | apply NoDup_seq_remove; assumption].
    + simpl. left. reflexivity.
Qed.

Lemma seq_insert_many_spec ns : forall l p, NoDup l -> valid_point l p ->
  (forall x, In x (seq_insert_many l p ns) <-> In x l \/ In x ns) /\ NoDup (seq_insert_many l p ns).
Proof.
  induction ns as [|n t IH]; intros l p Hnd Hv; simpl; [split; [(intuition congruence)|assumption]|].
  destruct (seq_insert_after l p n) as [l' p'] eqn:E.
  destruct (seq_insert_after_spec _ _ _ _ _ Hnd Hv E) as (H1 & H2 & H3).
  destruct (IH l' p' H2 H3) as [H4 H5]. split; [|assumption].
  intros x. rewrite H4, H1. (intuition congruence).
Qed.

Lemma last_valid l : valid_point l (last (map Some l) None).
Proof.
  induction l as [|y t IH]; [exact I|].
  destruct t as [|z t']; [left; reflexivity|].
  change (valid_point (y :: z :: t') (last (map Some (z :: t')) None)).
  destruct (last (map Some (z :: t')) None); [right; exact IH|exact I].
Qed.

Lemma seq_append_spec l n : NoDup l -> (forall x, In x (seq_append l n) <-> In x l \/ x = n) /\ NoDup (seq_append l n).
Proof.
  intros Hnd. unfold seq_append. destruct (seq_insert_after l (last (map Some l) None) n) as [l' p'] eqn:E.
  destruct (seq_insert_after_spec _ _ _ _ _ Hnd (last_valid l) E) as (H1 & H2 & _). simpl.
  split; [|assumption]. intros x. rewrite H1. (intuition congruence).
Qed.

Lemma fold_seq_append_spec ns : forall l, NoDup l ->
  (forall x, In x (fold_left seq_append ns l) <-> In x l \/ In x ns) /\ NoDup (fold_left seq_append ns l).
Proof.
  induction ns as [|n t IH]; intros l Hnd; simpl; [split; [(intuition congruence)|assumption]|].
  destruct (seq_append_spec l n Hnd) as [H1 H2]. destruct (IH _ H2) as [H3 H4].
  split; [|assumption]. intros x. rewrite H3, H1. (intuition congruence).
Qed.

Lemma seq_pred_valid ref l0 : forall l prev, valid_point l0 prev -> (forall x, In x l -> In x l0) ->
  valid_point l0 (seq_pred ref l prev).
Proof.
  induction l as [|y t IH]; intros prev Hv Hsub; simpl; [assumption|].
  destruct (y =? ref); [assumption|]. apply IH; [simpl; apply Hsub; left; reflexivity|].
  intros x Hx. apply Hsub. right. assumption.
Qed.

(* ---- attaching a list of validated nodes to graph g *)
Fixpoint set_all (s : ng_st) (g : nat) (ns : list nat) : ng_st :=
  match ns with [] => s | n :: t => set_all (set_ngraph s n (Some g)) g t end.

Lemma gseq_set_all g ns : forall s g', gseq (set_all s g ns) g' = gseq s g'.
Proof. induction ns as [|n t IH]; intros; simpl; [reflexivity|]. rewrite IH. reflexivity. Qed.

Lemma ngraph_set_all g ns : forall s m, ngraph (set_all s g ns) m = if memb m ns then Some g else ngraph s m.
Proof.
  induction ns as [|n t IH]; intros s m; simpl; [reflexivity|].
  rewrite IH, ngraph_set_ngraph. rewrite (Nat.eqb_sym m n).
  destruct (memb m t); destruct (n =? m); reflexivity.
Qed.

Lemma I3_attach s g ns l' : I3 s -> forallb (node_check s g) ns = true ->
  (forall x, In x l' <-> In x (gseq s g) \/ In x ns) -> NoDup l' ->
  I3 (set_gseq (set_all s g ns) g l').
Proof.
  intros [HI Hnd] Hchk Hin Hnd'. rewrite forallb_forall in Hchk. split.
  - intros n g0. rewrite ngraph_set_gseq, gseq_set_gseq, ngraph_set_all, gseq_set_all.
    destruct (memb n ns) eqn:Em.
    + apply memb_In in Em. destruct (Nat.eqb_spec g g0) as [<-|Hne].
      * rewrite Hin. (intuition congruence).
      * split; [congruence|]. intros H. apply HI in H. specialize (Hchk n Em). unfold node_check in Hchk.
        rewrite H in Hchk. apply Nat.eqb_eq in Hchk. congruence.
    + assert (Hn : ~ In n ns) by (intros H; apply memb_In in H; congruence).
      destruct (Nat.eqb_spec g g0) as [<-|Hne]; [|apply HI]. rewrite Hin, HI. (intuition congruence).
  - intros g0. rewrite gseq_set_gseq, gseq_set_all. destruct (g =? g0); [assumption|apply Hnd].
Qed.

Lemma I3_detach s g n : I3 s -> ngraph s n = Some g ->
  I3 (set_gseq (set_ngraph s n None) g (seq_remove n (gseq s g))).
Proof.
  intros [HI Hnd] Hn. split.
  - intros m g0. rewrite ngraph_set_gseq, gseq_set_gseq, ngraph_set_ngraph, gseq_set_ngraph.
    destruct (Nat.eqb_spec n m) as [<-|Hnm].
    + split; [discriminate|]. destruct (Nat.eqb_spec g g0) as [<-|Hne].
      * rewrite In_seq_remove. (intuition congruence).
      * intros H. apply HI in H. congruence.
    + destruct (Nat.eqb_spec g g0) as [<-|Hne]; [|apply HI]. rewrite In_seq_remove, HI. intuition congruence.
  - intros g0. rewrite gseq_set_gseq, gseq_set_ngraph. destruct (g =? g0); [apply NoDup_seq_remove|]; apply Hnd.
Qed.

(* ------------------------------------------------------------------ heap level *)
Lemma hng_reg_value c h g v : hng (reg_value c h g v) = hng h.
Proof. unfold reg_value. destruct (vname (how h) v); [reflexivity|]. destruct (nm_fresh_v (hnm h) g). reflexivity. Qed.
Lemma hng_reg_values c g vs : forall h, hng (reg_values c h g vs) = hng h.
Proof. induction vs as [|v t IH]; intros h; simpl; [reflexivity|]. rewrite IH. apply hng_reg_value. Qed.
Lemma hng_adopt c h g n : hng (adopt c h g n) = set_ngraph (hng h) n (Some g).
Proof.
  unfold adopt. simpl. rewrite hng_reg_values. simpl.
  destruct (nname (hnm h) n); [reflexivity|]. destruct (nm_fresh_n (hnm h) g). reflexivity.
Qed.
Lemma hng_adopt_all c g ns : forall h, hng (adopt_all c h g ns) = set_all (hng h) g ns.
Proof. induction ns as [|n t IH]; intros h; simpl; [reflexivity|]. rewrite IH, hng_adopt. reflexivity. Qed.

Lemma I3_g_append h g n : I3 (hng h) -> I3 (hng (fst (g_append all_fixed h g n))).
Proof.
  intros HI. unfold g_append. destruct (node_check (hng h) g n) eqn:E; [|assumption].
  cbn [fst K set_seq hng with_ng]. rewrite hng_adopt.
  change (set_ngraph (hng h) n (Some g)) with (set_all (hng h) g [n]).
  rewrite gseq_set_all. destruct (seq_append_spec (gseq (hng h) g) n (proj2 HI g)) as [H1 H2].
  apply I3_attach; try assumption; [simpl; rewrite E; reflexivity|].
  intros x. rewrite H1. simpl. intuition congruence.
Qed.

Lemma I3_g_extend h g ns : I3 (hng h) -> I3 (hng (fst (g_extend all_fixed h g ns))).
Proof.
  intros HI. unfold g_extend. destruct (forallb _ ns) eqn:E; [|assumption].
  cbn [fst K set_seq hng with_ng]. rewrite hng_adopt_all, gseq_set_all.
  destruct (fold_seq_append_spec ns _ (proj2 HI g)) as [H1 H2]. apply I3_attach; assumption.
Qed.

Lemma I3_g_insert h g b ref ns : I3 (hng h) -> I3 (hng (fst (g_insert all_fixed h g b ref ns))).
Proof.
  intros HI. unfold g_insert. destruct (_ && _) eqn:E; [|assumption]. apply andb_prop in E. destruct E as [E1 E2].
  cbn [fst K set_seq hng with_ng]. rewrite hng_adopt_all, gseq_set_all.
  apply memb_In in E2.
  assert (Hv : valid_point (gseq (hng h) g) (if b then seq_pred ref (gseq (hng h) g) None else Some ref)).
  { destruct b; [|exact E2]. apply seq_pred_valid; [exact I|auto]. }
  destruct (seq_insert_many_spec ns _ _ (proj2 HI g) Hv) as [H1 H2]. apply I3_attach; assumption.
Qed.

Lemma hng_remove_one safe h g n :
  hng (remove_one safe h g n) = set_gseq (set_ngraph (hng h) n None) g (seq_remove n (gseq (hng h) g)).
Proof. unfold remove_one. destruct safe; reflexivity. Qed.

Lemma I3_remove_fold safe g l : forall h, NoDup l -> (forall n, In n l -> ngraph (hng h) n = Some g) ->
  I3 (hng h) -> I3 (hng (fold_left (fun h n => remove_one safe h g n) l h)).
Proof.
  induction l as [|n t IH]; intros h Hnd Hall HI; simpl; [assumption|]. inversion Hnd; subst.
  apply IH; [assumption| |].
  - intros m Hm. rewrite hng_remove_one, ngraph_set_gseq, ngraph_set_ngraph.
    destruct (Nat.eqb_spec n m) as [->|]; [(intuition congruence)|]. apply Hall. right. assumption.
  - rewrite hng_remove_one. apply I3_detach; [assumption|]. apply Hall. left. reflexivity.
Qed.

Lemma I3_g_remove h g ns safe : I3 (hng h) -> I3 (hng (fst (g_remove h g ns safe))).
Proof.
  intros HI. unfold g_remove. destruct (forallb _ _) eqn:E; [|assumption]. cbn [fst K].
  rewrite forallb_forall in E. apply I3_remove_fold; [apply dedup_NoDup| |assumption].
  intros n Hn. specialize (E n Hn). apply andb_prop in E. destruct E as [E _].
  unfold onat_eqb, option_eqb in E. destruct (ngraph (hng h) n); [|discriminate]. apply Nat.eqb_eq in E. congruence.
Qed.

Lemma I3_g_sort h out : I3 (hng h) -> I3 (hng (fst (g_sort all_fixed h out))).
Proof.
  intros HI. unfold g_sort. destruct out as [orders|]; [|assumption]. destruct (sort_valid h orders); [|assumption].
  cbn [fst K]. revert h HI. induction orders as [|go t IH]; intros h HI; simpl; [assumption|].
  apply IH. apply I3_g_extend. assumption.
Qed.

Lemma hng_graph_build_I3 h g gi go d ns : I3 (hng h) -> I3 (hng (fst (graph_build all_fixed h g gi go d ns))).
Proof.
  intros HI. unfold graph_build.
  destruct (io_own_seq KIn _ _ _ _) as [s1 ok1]. destruct ok1; cbn [negb]; [|assumption].
  destruct (io_own_seq KOut _ _ _ _) as [s2 ok2]. destruct ok2; cbn [negb]; [|assumption].
  destruct (init_own_seq _ _ _) as [s3 ok3]. destruct ok3; cbn [negb]; [|assumption].
  destruct (init_set_seq _ _ _ _ _) as [s4 r4]. destruct r4; [|assumption].
  apply I3_g_extend. rewrite !hng_reg_values. assumption.
Qed.

Lemma I3_graph_new h g gi go ginit ns : I3 (hng h) -> I3 (hng (fst (graph_new all_fixed h g gi go ginit ns))).
Proof.
  intros HI. unfold graph_new. destruct (negb (blank_graph h g)); [assumption|]. cbn [all_fixed].
  destruct (graph_new_reject _ _ _ _ _); [assumption|]. cbn [fst K]. unfold graph_init. cbn [hng with_nm].
  apply I3_g_extend. rewrite !hng_reg_values. assumption.
Qed.

Ltac chainR := repeat match goal with
  | |- context [if ?b then R ?h ?e else _] => let E := fresh "E" in destruct b eqn:E; [assumption|] end.

Theorem I3_step h o : I3 (hng h) -> I3 (hng (fst (step all_fixed h o))).
Proof.
  intros HI. destruct o; cbn [step]; try assumption;
    try (unfold lift_ow; cbn [fst hng with_ow]; assumption).
  - unfold new_value. destruct (blank_value h v); assumption.
  - (* NewNode *)
    unfold new_node. chainR. cbn [fst K hng with_io].
    destruct g as [g|]; [|destruct o; assumption].
    apply I3_g_append. destruct o; assumption.
  - apply I3_graph_new. assumption.
  - apply I3_g_append. assumption.
  - apply I3_g_extend. assumption.
  - apply I3_g_insert. assumption.
  - apply I3_g_insert. assumption.
  - destruct (ngraph (hng h) n); [apply I3_g_insert|]; assumption.
  - destruct (ngraph (hng h) n); [apply I3_g_insert|]; assumption.
  - apply I3_g_remove. assumption.
  - apply I3_g_sort. assumption.
  - unfold n_replace_input. destruct (_ || _)%bool; assumption.
  - unfold n_resize_inputs. destruct (_ =? _)%Z; [assumption|]. destruct (_ <? _)%Z; [assumption|].
    destruct (_ <? _); assumption.
  - unfold n_resize_outputs. destruct (_ =? _)%Z; [assumption|].
    destruct (_ <? _)%Z; [destruct (forallb _ _)|destruct (_ && _)]; assumption.
  - (* VReplaceAllUses *)
    unfold v_replace_all_uses.
    assert (Hgo : forall h', hng h' = hng h -> hng (fold_left
              (fun h u => with_io h (io_replace (hio h) (fst u) (snd u) (Some r))) (uses (hio h') v) h') = hng h).
    { intros h' Heq. generalize (uses (hio h') v). intros l. revert h' Heq.
      induction l as [|u t IH]; intros h' Heq; simpl; [assumption|]. apply IH. assumption. }
    destruct (flag KOut (how h) v); [|cbn [fst K]; rewrite Hgo; [assumption|reflexivity]].
    destruct (vgraph (how h) v) as [g|]; [|assumption].
    destruct (negb rgo); [assumption|].
    match goal with |- context [let '(s', r') := ?X in _] => destruct X as [s' r'] end.
    destruct r'; cbn [fst K]; [rewrite (Hgo (with_ow h s')); [assumption|reflexivity]|assumption].
Qed.

Lemma I3_empty : I3 (hng empty_heap).
Proof.
  split.
  - intros n g. unfold ngraph, gseq. simpl. rewrite !sget_nil. split; [discriminate|intros []].
  - intros g. unfold gseq. simpl. rewrite sget_nil. constructor.
Qed.
